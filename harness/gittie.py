"""Tie of the git layer of the system model (lean/BertE/Model/Git.lean, Flow.lean: `Loc.merge`, `applyOp`) to
Bert-E's own git layer (bert_e/lib/git.py `Repository`/`Branch`, bert_e/workflow/git_utils.py `robust_merge`,
`consecutive_merge` (= `Loc.merge2`, including the state a conflict leaves behind), `push`) running REAL git against a scratch bare repository.

The rules the theorems of C01, C02, C03 and C08 rest on — the ancestry consequences of a merge (already up to
date / fast-forward to the one head that contains all the others / a new commit on top of all heads, the
content merge being consulted only in the last case), a non-forced push accepting creations and fast-forwards
only, every ref on its own without `--atomic`, all or nothing with it, `--prune` deleting the remote heads that
have no local counterpart, a refusal of one ref by the server — are the model's assumptions about git. Here they
are exercised directly: seeded scripts of third-party commits / force-pushes / deletions on the remote, clones,
local branch creations and removals, merges of one or two sources, pushes of explicit lists, `push --all
--atomic [--prune]` and remote deletions, each with a random set of refs refused by an `update` hook of the bare
repository, are executed through the real classes and, step by step, by the model (`GIT` line protocol,
lean/BertE/Drv/Git.lean); remote refs, clone refs, tip equality classes and the ancestry matrix between tips are
compared after every step. The answer of git's content merge is taken from the real run (an oracle of the
model); whether it was ASKED is compared (`/asked`)."""
import json
import os
import shutil
import subprocess
import tempfile
from multiprocessing import Pool

from . import common
from .histories import ref_code

NAMES = ['development/4.3', 'development/5.1', 'feature/a', 'bugfix/b', 'w/5.1/feature/a', 'q/4.3',
         'q/w/7/4.3/feature/a', 'q/5.1', 'w/5.1/bugfix/b']
REMOVABLE = [n for n in NAMES if n.startswith(('w/', 'q/'))]

HOOK = """#!/bin/sh
# update hook: refuse the refs listed in $GIT_DIR/reject-list
ref="$1"
if [ -f "$GIT_DIR/reject-list" ] && grep -qxF "$ref" "$GIT_DIR/reject-list"; then
  echo "refused by hook: $ref" >&2
  exit 1
fi
exit 0
"""


def _git(cwd, *args, check=True, env=None, input=None):
    e = dict(os.environ)
    e.update(GIT_CONFIG_NOSYSTEM='1', GIT_AUTHOR_NAME='t', GIT_AUTHOR_EMAIL='t@t', GIT_COMMITTER_NAME='t',
             GIT_COMMITTER_EMAIL='t@t', GIT_AUTHOR_DATE='2020-01-01T00:00:00', GIT_COMMITTER_DATE='2020-01-01T00:00:00')
    if env:
        e.update(env)
    p = subprocess.run(('git',) + args, cwd=cwd, stdout=subprocess.PIPE, stderr=subprocess.PIPE, text=True, env=e,
                       input=input)
    if check and p.returncode != 0:
        raise RuntimeError('git %s failed: %s' % (' '.join(args), p.stderr[-400:]))
    return p.stdout


class GitWorld:
    def __init__(self, base):
        from .system import _patch
        _patch()
        self.dir = tempfile.mkdtemp(prefix='g.', dir=base)
        self.home = os.path.join(self.dir, 'home')
        os.makedirs(self.home)
        self._old_home = os.environ.get('HOME')
        os.environ['HOME'] = self.home
        os.environ['GIT_CONFIG_NOSYSTEM'] = '1'
        self._old_tmp = tempfile.tempdir
        tempfile.tempdir = self.dir
        self.bare = os.path.join(self.dir, 'slug.git')
        _git(self.dir, 'init', '-q', '--bare', self.bare)
        with open(os.path.join(self.bare, 'hooks', 'update'), 'w') as fh:
            fh.write(HOOK)
        os.chmod(os.path.join(self.bare, 'hooks', 'update'), 0o755)
        self.repo = None
        self.n = 0

    def close(self):
        if self.repo is not None:
            try:
                self.repo.delete()
            except Exception:
                pass
        tempfile.tempdir = self._old_tmp
        if self._old_home is not None:
            os.environ['HOME'] = self._old_home
        shutil.rmtree(self.dir, ignore_errors=True)

    # -- third party, directly on the bare repository ---------------------------------
    def remote_refs(self):
        out = _git(self.bare, 'for-each-ref', '--format=%(refname) %(objectname)', 'refs/heads')
        return {l.split()[0][len('refs/heads/'):]: l.split()[1] for l in out.splitlines()}

    def remote_commit(self, name, parents, conflicting):
        """a commit whose tree is the union of its parents' files plus one new file; a `conflicting` commit also
        rewrites the file `shared`, so that merging two of them that are not ancestors of each other conflicts"""
        self.n += 1
        files = {}
        for p in parents:
            for line in _git(self.bare, 'ls-tree', p).splitlines():
                meta, fn = line.split('\t')
                files.setdefault(fn, meta.split()[2])
        blob = _git(self.bare, 'hash-object', '-w', '--stdin', input='c%d\n' % self.n).strip()
        files['f%d' % self.n] = blob
        if conflicting:
            files['shared'] = blob
        tree = _git(self.bare, 'mktree', input=''.join('100644 blob %s\t%s\n' % (b, fn)
                                                        for fn, b in sorted(files.items()))).strip()
        args = ['commit-tree', tree, '-m', 'c%d' % self.n]
        for p in parents:
            args += ['-p', p]
        sha = _git(self.bare, *args).strip()
        _git(self.bare, 'update-ref', 'refs/heads/' + name, sha)
        return sha

    def set_reject(self, names):
        with open(os.path.join(self.bare, 'reject-list'), 'w') as fh:
            fh.write(''.join('refs/heads/%s\n' % n for n in names))

    # -- the clone, through Bert-E's classes -------------------------------------------
    def clone(self):
        from bert_e.lib import git as libgit
        if self.repo is not None:
            self.repo.delete()
        self.repo = libgit.Repository(self.bare)
        self.repo.clone()
        self.repo.config('user.email', 'robot@nowhere')
        self.repo.config('user.name', 'robot')

    def local_refs(self):
        if self.repo is None:
            return {}
        out = self.repo.cmd('git for-each-ref --format="%(refname) %(objectname)" refs/heads')
        return {l.split()[0][len('refs/heads/'):]: l.split()[1] for l in out.splitlines()}

    def detach(self):
        """leave every branch (a checked-out branch cannot be deleted)"""
        refs = self.local_refs()
        if refs:
            self.repo.cmd('git checkout -q --detach %s', sorted(refs.values())[0])

    def is_ancestor(self, a, b):
        cwd = self.repo.cmd_directory if self.repo is not None else self.bare
        e = dict(os.environ, GIT_ALTERNATE_OBJECT_DIRECTORIES=os.path.join(self.bare, 'objects'))
        return subprocess.run(['git', 'merge-base', '--is-ancestor', a, b], cwd=cwd, env=e,
                              stdout=subprocess.DEVNULL, stderr=subprocess.DEVNULL).returncode == 0

    def ancestry(self, tips):
        """tip -> the other tips it contains (objects may live in the clone only or in the remote only)"""
        cwd = self.repo.cmd_directory if self.repo is not None else self.bare
        env = {'GIT_ALTERNATE_OBJECT_DIRECTORIES': os.path.join(self.bare, 'objects')}
        res = {}
        for t in tips:
            revs = set(_git(cwd, 'rev-list', t, env=env).split())
            res[t] = sorted(a for a in tips if a != t and a in revs)
        return res


def gen_script(rng, length):
    """abstract steps; names are resolved against the refs that exist when the step is executed"""
    steps = [('rc', 'development/4.3', [], False), ('rc', 'development/5.1', ['development/4.3'], False),
             ('rc', 'feature/a', ['development/4.3'], rng.random() < 0.5), ('clone',)]
    for _ in range(length):
        r = rng.random()
        if r < 0.22:
            steps.append(('rc', rng.choice(NAMES), 'pick', rng.random() < 0.45))
        elif r < 0.27:
            steps.append(('clone',))
        elif r < 0.37:
            steps.append(('lbranch', rng.choice(NAMES), 'pick'))
        elif r < 0.62:
            steps.append(('m', 'pick', rng.choice([1, 1, 2, 2, 2]), rng.random() < 0.25))   # last: consecutive_merge
        elif r < 0.74:
            steps.append(('push', rng.randint(1, 3), 'rej'))
        elif r < 0.84:
            steps.append(('pushall', rng.random() < 0.6, 'rej'))
        elif r < 0.89:
            steps.append(('del', rng.choice(REMOVABLE), rng.random() < 0.25))
        elif r < 0.93:
            steps.append(('lrm', rng.choice(REMOVABLE)))
        elif r < 0.97:
            steps.append(('rpoint', rng.choice(NAMES), 'pick'))
        else:
            steps.append(('rdel', rng.choice(NAMES)))
    return steps


def refs_arg(names):
    return ','.join(ref_code(n) for n in names) or '-'


def run_script(args):
    """executes one script on the real classes; returns the model line and the real observations"""
    seed, i, length, base = args
    rng = common.rng_for(seed, 'gittie', i)
    steps = gen_script(rng, length)
    from bert_e.lib import git as libgit
    from bert_e.workflow import git_utils
    w = GitWorld(base)
    items, obs, kinds, effects = [], [], [], []
    try:
        for st in steps:
            rr = w.remote_refs()
            lr = w.local_refs()
            op = st[0]
            outcome = 'ok'
            if op == 'rc':
                name, parents, confl = st[1], st[2], st[3]
                if parents == 'pick':
                    cands = sorted(rr)
                    k = rng.choice([0, 1, 1, 1, 2]) if cands else 0
                    parents = rng.sample(cands, min(k, len(cands)))
                    if name in rr and rng.random() < 0.7 and name not in parents:
                        parents = [name] + parents          # mostly: a commit on top of the branch
                parents = [p for p in parents if p in rr]
                w.remote_commit(name, [rr[p] for p in parents], confl)
                items.append('rc %s %s' % (ref_code(name), refs_arg(parents)))
            elif op == 'rpoint':
                if not rr:
                    continue
                other = rng.choice(sorted(rr))
                _git(w.bare, 'update-ref', 'refs/heads/' + st[1], rr[other])
                items.append('rpoint %s %s' % (ref_code(st[1]), ref_code(other)))
            elif op == 'rdel':
                if st[1] not in rr:
                    continue
                _git(w.bare, 'update-ref', '-d', 'refs/heads/' + st[1])
                items.append('rdel %s' % ref_code(st[1]))
            elif op == 'clone':
                w.clone()
                items.append('clone')
            elif w.repo is None:
                continue
            elif op == 'lbranch':
                if not lr or st[1] in lr:
                    continue
                src = rng.choice(sorted(lr))
                libgit.Branch(w.repo, st[1]).create(libgit.Branch(w.repo, src), do_push=False)
                items.append('lbranch %s %s' % (ref_code(st[1]), ref_code(src)))
            elif op == 'lrm':
                if st[1] not in lr:
                    continue
                w.detach()
                libgit.Branch(w.repo, st[1]).remove()
                items.append('lrm %s' % ref_code(st[1]))
            elif op == 'm':
                if len(lr) < 2:
                    continue
                dst = rng.choice(sorted(lr))
                others = sorted(n for n in lr if n != dst)
                srcs = rng.sample(others, min(st[2], len(others)))
                d = libgit.Branch(w.repo, dst)
                before = lr[dst]
                if len(srcs) == 2 and len(st) > 3 and st[3]:
                    # `consecutive_merge` (option no_octopus) against `Loc.merge2`; every `git merge` it runs is
                    # recorded: was the content merge asked (a merge commit appeared, or a conflict), what it answered
                    bits = []
                    orig_merge = libgit.Branch.merge

                    def traced(self, *src, **kw):
                        b4 = w.local_refs().get(self.name)
                        tips = [w.local_refs().get(x.name) for x in src]
                        try:
                            r = orig_merge(self, *src, **kw)
                        except libgit.MergeFailedException:
                            bits.append('0')
                            raise
                        if w.local_refs().get(self.name) not in [b4] + tips:
                            bits.append('1')
                        return r
                    libgit.Branch.merge = traced
                    try:
                        git_utils.consecutive_merge(d, libgit.Branch(w.repo, srcs[0]), libgit.Branch(w.repo, srcs[1]))
                        ok = True
                    except libgit.MergeFailedException:
                        ok = False
                        w.repo.cmd('git reset -q --hard')
                    finally:
                        libgit.Branch.merge = orig_merge
                    kinds.append('consecutive:%s:%s' % ('ok' if ok else 'conflict', ''.join(bits) or '-'))
                    outcome = 'm2%s:%d' % ('ok' if ok else 'conflict', len(bits))
                    items.append('m2 %s %s %s %s' % (ref_code(dst), ref_code(srcs[0]), ref_code(srcs[1]),
                                                     ''.join(bits) or '-'))
                    rr, lr = w.remote_refs(), w.local_refs()
                    lr = {n: s for n, s in lr.items() if not n.startswith('tmp/')}
                    tips = sorted(set(rr.values()) | set(lr.values()))
                    obs.append({'outcome': outcome, 'remote': rr, 'local': lr, 'anc': w.ancestry(tips)})
                    continue
                try:
                    if len(srcs) == 1:
                        d.merge(libgit.Branch(w.repo, srcs[0]))
                    else:
                        git_utils.robust_merge(d, libgit.Branch(w.repo, srcs[0]), libgit.Branch(w.repo, srcs[1]))
                    ok = True
                except libgit.MergeFailedException:
                    ok = False
                    w.repo.cmd('git reset -q --hard')
                    for t in ('tmp/octopus/' + dst, 'tmp/normal/' + dst):     # robust_merge leaves them on failure
                        if t in w.local_refs():
                            w.detach()
                            w.repo.cmd('git branch -q -D %s', t)
                kinds.append('merge%d:%s' % (len(srcs), 'ok' if ok else 'conflict'))
                after = w.local_refs().get(dst)
                if not ok:
                    outcome = 'conflict'
                elif after == before:
                    outcome = 'uptodate'
                elif after in [lr[s] for s in srcs]:
                    outcome = 'ff'
                else:
                    outcome = 'merged'
                items.append('m %s %s %d' % (ref_code(dst), refs_arg(srcs), ok))
            elif op in ('push', 'pushall', 'del'):
                if op == 'push':
                    if not lr:
                        continue
                    names = rng.sample(sorted(lr), min(st[1], len(lr)))
                    pool = names
                elif op == 'pushall':
                    pool = sorted(set(lr) | set(rr))
                else:
                    if st[1] not in lr:
                        continue
                    pool = [st[1]]
                rej = [n for n in pool if rng.random() < (0.2 if op != 'del' else 0.0)]
                if op == 'del' and st[2]:
                    rej = [st[1]]
                w.set_reject(rej)
                failed = False
                try:
                    if op == 'push':
                        git_utils.push(w.repo, [libgit.Branch(w.repo, n) for n in names])
                        items.append('push %s %s' % (refs_arg(names), refs_arg(rej)))
                    elif op == 'pushall':
                        git_utils.push(w.repo, prune=st[1])
                        items.append('pushall %d %s' % (st[1], refs_arg(rej)))
                    else:
                        w.detach()
                        libgit.Branch(w.repo, st[1]).remove(do_push=True)
                        items.append('del %s %d' % (ref_code(st[1]), bool(rej)))
                except (libgit.PushFailedException, libgit.RemoveFailedException):
                    failed = True
                    if op == 'push':
                        items.append('push %s %s' % (refs_arg(names), refs_arg(rej)))
                    elif op == 'pushall':
                        items.append('pushall %d %s' % (st[1], refs_arg(rej)))
                    else:
                        items.append('del %s %d' % (ref_code(st[1]), bool(rej)))
                finally:
                    w.set_reject([])
                kinds.append('%s:%s%s' % (op, 'failed' if failed else 'ok', '+rej' if rej else ''))
                # what the push did to the remote, for the git-layer oracles
                rr2 = w.remote_refs()
                changed = sorted(n for n in set(rr) & set(rr2) if rr[n] != rr2[n])
                nonff = [n for n in changed if not w.is_ancestor(rr[n], rr2[n])]
                effects.append({'step': len(items) - 1, 'item': items[-1], 'op': op, 'failed': failed,
                                'changed': changed, 'created': sorted(set(rr2) - set(rr)),
                                'deleted': sorted(set(rr) - set(rr2)), 'nonff': nonff})
            else:
                raise ValueError(op)
            rr, lr = w.remote_refs(), w.local_refs()
            lr = {n: s for n, s in lr.items() if not n.startswith('tmp/')}
            tips = sorted(set(rr.values()) | set(lr.values()))
            obs.append({'outcome': outcome, 'remote': rr, 'local': lr, 'anc': w.ancestry(tips)})
    finally:
        w.close()
    return {'i': i, 'line': 'GIT ' + ';'.join(items), 'items': items, 'obs': obs, 'kinds': kinds,
            'effects': effects}


def parse_model(s):
    outcome, r, l, anc = s.split('|')

    def refs(x):
        d = {}
        for kv in x.split(','):
            if kv:
                k, v = kv.rsplit('=', 1)
                d[k] = int(v)
        return d
    a = {}
    for part in anc.split(','):
        if part:
            t, lst = part.split(':')
            a[int(t)] = sorted(int(x) for x in lst.split('.') if x)
    return outcome, refs(r), refs(l), a


def compare_step(real, mobs, sha2id):
    outcome, mr, ml, manc = mobs
    want = real['outcome']
    got = outcome.split('/')[0]
    if want != got:
        return 'outcome: real %s, model %s' % (want, outcome)
    if want in ('merged', 'conflict') and not outcome.endswith('/asked'):
        return 'git created a merge commit / reported a conflict where the model never asks the content merge'
    if want in ('ff', 'uptodate') and outcome.endswith('/asked'):
        return 'the model asks the content merge where git fast-forwards / is up to date'
    new = dict(sha2id)
    id2sha = {v: k for k, v in new.items()}
    for label, rrefs, mrefs in (('remote', real['remote'], mr), ('clone', real['local'], ml)):
        rc = {ref_code(n): s for n, s in rrefs.items()}
        if set(rc) != set(mrefs):
            return '%s refs differ: only real %s, only model %s' % (label, sorted(set(rc) - set(mrefs)),
                                                                    sorted(set(mrefs) - set(rc)))
        for code, sha in sorted(rc.items()):
            mid = mrefs[code]
            if sha in new:
                if new[sha] != mid:
                    return '%s tip of %s: real commit is model commit %d, model says %d' % (label, code, new[sha], mid)
            elif mid in id2sha:
                return '%s tip of %s: model commit %d is already another real commit' % (label, code, mid)
            else:
                new[sha] = mid
                id2sha[mid] = sha
    for sha, ancs in real['anc'].items():
        w = sorted(new[a] for a in ancs)
        if manc.get(new[sha], []) != w:
            return 'ancestry of tip %d: real %s model %s' % (new[sha], w, manc.get(new[sha]))
    return new


def oracle_failures(o, oracles):
    """the properties' own claims about Bert-E's pushes, judged on the real remote (independent of the model):
    'ff'     (C08) every update of an existing remote branch by a push of Bert-E's git layer is a fast-forward;
    'atomic' (C02) the publishing push `push --all --atomic [--prune]` changes every ref it has to change or none"""
    out = []
    for e in o['effects']:
        inp = {'gittie_script': o['i'], 'items': o['items'][:e['step'] + 1]}
        if 'ff' in oracles and e['nonff']:
            out.append({'key': 'git-layer/non-fast-forward-update', 'input': inp, 'observation': e,
                        'what': 'git layer: `%s` moved %s to a commit that does not contain its previous tip '
                                '(a rewrite, not a fast-forward)' % (e['item'], e['nonff'])})
        if 'atomic' in oracles and e['op'] == 'pushall' and e['failed'] and (e['changed'] or e['created'] or e['deleted']):
            out.append({'key': 'git-layer/partial-push-all', 'input': inp, 'observation': e,
                        'what': 'git layer: `%s` failed and still changed %s on the remote (not all-or-nothing)'
                                % (e['item'], e['changed'] + e['created'] + e['deleted'])})
    return out


def run(ctx, res, n_scripts, length=22, tag='gittie', oracles=()):
    """adds the git-layer tie to a property's correspondence result"""
    base = common.scratch()
    with Pool(common.NCPU) as pool:
        outs = pool.map(run_script, [(ctx.seed, i, length, base) for i in range(n_scripts)], chunksize=2)
    answers = ctx.model.ask_parallel([o['line'] for o in outs]) if ctx.model is not None else [None] * len(outs)
    steps = 0
    for o, a in zip(outs, answers):
        for k in o['kinds']:
            res.count('%s:%s' % (tag, k))
        res.count('%s:scripts' % tag)
        res.oracle_failures += oracle_failures(o, oracles)
        if a is None:
            continue
        parts = a.split(';')
        sha2id = {}
        for k, real in enumerate(o['obs']):
            if k >= len(parts) or parts[k].startswith('bad-op'):
                why = 'model: %s' % (parts[k] if k < len(parts) else 'no answer')
            else:
                why = compare_step(real, parse_model(parts[k]), sha2id)
            if isinstance(why, str):
                res.disagreements.append({'input': {'gittie_script': o['i'], 'items': o['items'][:k + 1]},
                                          'real': {'outcome': real['outcome'],
                                                   'remote': {ref_code(n): s[:8] for n, s in real['remote'].items()},
                                                   'clone': {ref_code(n): s[:8] for n, s in real['local'].items()}},
                                          'model': why, 'at': 'git-layer step %d (%s)' % (k, o['items'][k])})
                break
            sha2id = why
            steps += 1
            res.model_compared += 1
        res.evaluations += len(o['obs'])
        res.distinct.add('gittie:%d:%d' % (ctx.seed, o['i']))
    res.extra['%s_steps_compared' % tag] = steps
    return res


def replay(ctx, res, payload_input, oracles=()):
    """re-run the script of a recorded disagreement / oracle failure"""
    i = payload_input['gittie_script']
    o = run_script((ctx.seed, i, payload_input.get('length', 22), common.scratch()))
    res.evaluations += len(o['obs'])
    res.oracle_failures += oracle_failures(o, oracles)
    if ctx.model is not None:
        parts = ctx.model.ask([o['line']])[0].split(';')
        sha2id = {}
        for k, real in enumerate(o['obs']):
            why = compare_step(real, parse_model(parts[k]), sha2id) if not parts[k].startswith('bad-op') else parts[k]
            if isinstance(why, str):
                res.disagreements.append({'input': {'gittie_script': i, 'items': o['items'][:k + 1]},
                                          'real': real['outcome'], 'model': why, 'at': 'git-layer step %d' % k})
                break
            sha2id = why
            res.model_compared += 1
    return res


def replay_input(payload):
    """the git-layer script a replay file refers to, or None"""
    cands = [(payload.get('failure') or {}).get('input') or {}]
    cands += [(b.get('first') or {}).get('input') or {} for b in payload.get('no_longer_checks', [])]
    cands.append(payload if 'gittie_script' in payload else {})
    for inp in cands:
        if isinstance(inp, dict) and 'gittie_script' in inp:
            return inp
    return None
