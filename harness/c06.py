"""C06 — tie between the Lean model of the build gate and the real `check_build_status`."""
import itertools

from . import common
from .pipeline import Result
from .stubs import StubBranch, StubRepo, make_job

PID = 'C06'
TABLES = ['Build', 'Messages']
LEAN_TARGETS = ['BertE.Props.C06']
ASSUMPTIONS = [
    'the statuses are those the git host returns for the integration tips at evaluation time '
    '(the status table is keyed by commit; histories where tips move are covered by the system-level checks)',
    'with a concurrent writer "the tip" of an integration branch is the tip at the last operation of the job that '
    'observed the branch (fetch, successful push of it, host answer carrying the pull request) before the push with '
    'which the pull request entered; a commit pushed later cannot be known to the job (harness/c06_race.py)',
    'there is at least one integration branch (create_integration_branches always yields the first target)',
    'end-to-end theorems (C06_e2e_*): facts about commit contents that the ref-level model does not carry are inputs '
    'of the composed model (Model/Eval.lean `Facts`: commit-diff count, cascade outcome and target versions, '
    'branch-history check, host skew); a commit without entry in the host table is NOTSTARTED',
]
TRUSTED = [
    'Lean 4 kernel; axioms of every theorem audited (subset of propext, Classical.choice, Quot.sound)',
    'harness/extract_tables.py (AST extraction of the ranking tuple, reducer and if/elif chain of check_build_status)',
    'correspondence harness harness/c06.py (stub job around the real check_build_status, real SettingsDict and PullRequestJob.author_bypass)',
    'modelled, not verified: the git host get_build_status call (a function from commit and key to status)',
    'hand-written composed model lean/BertE/Model/Eval.lean, tied to the real BertE + mock host + real git by '
    'harness/evalsys.py (stage, job status, notify_user classes and refs of every pull-request evaluation)',
    'harness/c06_race.py (wrappers around bert_e.lib.git.cmd and the mock host API that define the operations of a job, '
    'their classification into local / remote-observing ones, the third party and the dated-tip oracle)',
]

STATUSES = ['SUCCESSFUL', 'INPROGRESS', 'NOTSTARTED', 'STOPPED', 'FAILED']
# where a bypass comes from: none / comment option (job level) / command line (global level) /
# per-author setting for this author / per-author setting for somebody else (must not count)
BYPASS = ['none', 'comment', 'cmdline', 'author', 'other-author', 'comment+author']
KEYS = ['pre-merge', '', None]


def cells(tier):
    for n in (1, 2, 3, 4):
        for vec in itertools.product(STATUSES, repeat=n):
            for byp in BYPASS:
                for key in KEYS:
                    yield vec, byp, key


def author_options(raw):
    from bert_e.settings import SettingsSchema
    return SettingsSchema().fields['pr_author_options'].deserialize(raw)


def run_real(vec, byp, key):
    import bert_e.exceptions as exc
    from bert_e.workflow.gitwaterflow import check_build_status
    job_s, glob_s = {}, {'build_key': key}
    if 'comment' in byp:
        job_s['bypass_build_status'] = True
    else:
        glob_s['bypass_build_status'] = (byp == 'cmdline')
    # the per-author settings go through the real loader of the settings file (PrAuthorsOptions.deserialize),
    # with the other author's entry first: what is granted to somebody else must not reach this author
    if byp in ('author', 'comment+author'):
        glob_s['pr_author_options'] = author_options({'somebody': ['bypass_jira_check'],
                                                      'author': ['bypass_build_status']})
    elif byp == 'other-author':
        glob_s['pr_author_options'] = author_options({'somebody': ['bypass_build_status'],
                                                      'author': ['bypass_jira_check']})
    branches = [StubBranch('w/%d.0/feature/x' % (4 + i), 'sha%d' % i) for i in range(len(vec))]
    repo = StubRepo({('sha%d' % i, key): st for i, st in enumerate(vec)})
    job = make_job(job_s, glob_s, repo=repo)
    try:
        check_build_status(job, branches)
        return 'pass', None
    except exc.BertE_Exception as e:
        kind = ('template' if isinstance(e, exc.TemplateException) else
                'silent' if isinstance(e, exc.SilentException) else 'other')
        idx = 0
        if isinstance(e, exc.TemplateException) and 'branch' in e.kwargs:
            idx = branches.index(e.kwargs['branch'])
        else:
            # the model reports which branch was picked; the real code only tells for BuildFailed
            idx = None
        return 'raise %s' % type(e).__name__, (kind, idx)
    except Exception as e:  # KeyError, AssertionError, ...
        return 'crash %s' % type(e).__name__, None


def oracle(vec, byp, key, obs, info):
    """The property, stated independently of the model. Returns None or a reason."""
    bypassed = byp in ('comment', 'cmdline', 'author', 'comment+author')
    if bypassed or not key:
        return None if obs == 'pass' else 'bypassed or no build key, yet the gate did not pass: %s' % obs
    if any(s in ('FAILED', 'STOPPED') for s in vec):
        if obs != 'raise BuildFailed' or info[0] != 'template':
            return 'a tip is FAILED/STOPPED but the author is not told BuildFailed: %s' % obs
        if vec[info[1]] not in ('FAILED', 'STOPPED'):
            return 'BuildFailed reports a branch whose build did not fail'
        return None
    if any(s in ('NOTSTARTED', 'INPROGRESS') for s in vec):
        if not obs.startswith('raise ') or info[0] != 'silent':
            return 'a tip is NOTSTARTED/INPROGRESS but the gate did not wait silently: %s' % obs
        return None
    return None if obs == 'pass' else 'all tips SUCCESSFUL, yet: %s' % obs


def line_of(vec, byp, key):
    bs = 1 if byp in ('comment', 'cmdline', 'comment+author') else 0
    ba = 1 if byp in ('author', 'comment+author') else 0
    ke = 0 if key else 1
    return 'C06 %d %d %d %s' % (bs, ba, ke, ','.join(vec) if vec else '-')


def correspondence(ctx):
    res = Result()
    res.rule = ('every vector over the five statuses for 1-4 integration branches x bypass source '
                '{none, comment, command line, per-author, other author, comment+author} x build key '
                '{set, empty, None}; non-trivial = not bypassed and key set; distinct = distinct cell')
    res.exhaustive = True
    all_cells = list(cells(ctx.tier))
    lines = [line_of(*c) for c in all_cells]
    answers = ctx.model.ask(lines) if ctx.model else [None] * len(lines)
    for cell, ans in zip(all_cells, answers):
        vec, byp, key = cell
        obs, info = run_real(*cell)
        res.evaluations += 1
        res.count('n=%d' % len(vec))
        res.count('outcome:' + obs)
        nontrivial = byp in ('none', 'other-author') and bool(key)
        if nontrivial:
            res.distinct.add(cell)
        why = oracle(vec, byp, key, obs, info)
        if why:
            res.oracle_failures.append({'key': 'gate', 'what': why,
                                        'input': {'statuses': vec, 'bypass': byp, 'build_key': key},
                                        'observation': obs})
        if ans is not None:
            res.model_compared += 1
            real = obs
            if obs.startswith('raise') and info[1] is not None:
                real = '%s %d' % (obs, info[1])
            model = ans
            if obs.startswith('raise') and info[1] is None:
                model = ' '.join(ans.split(' ')[:2])      # branch index not observable for silent exceptions
            if real != model:
                res.disagreements.append({'input': {'statuses': vec, 'bypass': byp, 'build_key': key},
                                          'real': real, 'model': ans})
        if len(res.samples) < 6 and nontrivial and res.evaluations % 997 == 0:
            res.samples.append({'statuses': vec, 'bypass': byp, 'build_key': key, 'real': obs, 'model': ans})
    if not res.samples:
        res.samples.append({'statuses': all_cells[0][0], 'bypass': all_cells[0][1], 'real': 'pass'})
    # end-to-end phase: the gate inside whole evaluations of the real system (composed model, stale statuses)
    from . import evalsys
    evalsys.phase(ctx, res, PID)
    # race phase: a third party pushes on the source / w/ branches at every interleaving point of the evaluating job
    from . import c06_race
    c06_race.phase(ctx, res)
    return res


def replay(ctx, payload):
    from . import c06_race, evalsys
    if c06_race.is_mine(payload):
        return c06_race.replay(ctx, payload)
    if evalsys.is_mine(payload):
        return evalsys.replay(ctx, payload)
    f = payload['failure']['input']
    res = Result()
    cell = (tuple(f['statuses']), f['bypass'], f['build_key'])
    obs, info = run_real(*cell)
    res.evaluations = 1
    why = oracle(cell[0], cell[1], cell[2], obs, info)
    if why:
        res.oracle_failures.append({'key': 'gate', 'what': why, 'input': f, 'observation': obs})
    res.samples.append({'input': f, 'real': obs})
    return res
