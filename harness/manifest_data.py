"""Source of MANIFEST.json (bin/mkmanifest)."""
HOOK_COMMITS = []
NOTES = ('Technique: machine-checked proof in Lean 4 about an executable model, tied to /repo on every run by '
         'regenerated tables (translator) and a differential correspondence check. See DESIGN.md. '
         'bin/check exits 0 (held), 1 (VIOLATION line), 2 (timeout, no verdict), 3 (the machinery itself is broken).')
NOT_APPLICABLE = {}
CHECKS = {
    'C06': {
        'text': 'Theorems C06_pass_iff / C06_failed_iff / C06_waits_silently / C06_bypass / C06_total decide the gate for '
                'status vectors of every length, parametric in the ranking tuple, reducer and if/elif chain that are '
                're-extracted from check_build_status on every run (C06_table discharges the well-formedness obligation by '
                'decide). The model is tied to the real function by an exhaustive differential run (14 040 cells).',
        'note': 'Trusted: Lean kernel, the AST extractor, the stub job. The statuses are those returned by the host for the '
                'current integration tips; histories in which tips move between report and evaluation belong to the '
                'system-level checks (C03).',
        'technique': 'Lean 4 proof (parametric decision theorem + decide on regenerated table) + exhaustive differential correspondence',
    },
}
