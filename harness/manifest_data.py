"""Source of MANIFEST.json (bin/mkmanifest)."""
HOOK_COMMITS = []
NOTES = ('Technique: machine-checked proof in Lean 4 about an executable model, tied to /repo on every run by '
         'regenerated tables (translator) and a differential correspondence check. See DESIGN.md. '
         'bin/check exits 0 (held), 1 (VIOLATION line), 2 (timeout, no verdict), 3 (the machinery itself is broken).')
NOT_APPLICABLE = {}
import glob, json, os
CHECKS = {}
for _f in sorted(glob.glob(os.path.join(os.path.dirname(__file__), 'manifest', 'C*.json'))):
    CHECKS[os.path.basename(_f)[:-5]] = json.load(open(_f))
