"""Stub jobs for driving single workflow functions of the real code in-process."""
import logging
import sys
import warnings
from types import SimpleNamespace

from . import common  # noqa  (puts /repo on sys.path)

warnings.filterwarnings('ignore')
logging.disable(logging.CRITICAL)

from bert_e.job import PullRequestJob  # noqa: E402
from bert_e.lib.settings_dict import SettingsDict  # noqa: E402


class StubRepo:
    """git-host repository as seen by the gates: build statuses keyed by (sha, key)."""

    def __init__(self, statuses=None):
        self.statuses = statuses or {}
        self.full_name = 'owner/slug'

    def get_build_status(self, sha, key):
        return self.statuses.get((sha, key), 'NOTSTARTED')

    def get_build_url(self, sha, key):
        return 'http://host/build/%s' % sha

    def get_commit_url(self, sha):
        return 'http://host/commit/%s' % sha


class StubBranch:
    def __init__(self, name, sha):
        self.name = name
        self.sha = sha

    def get_latest_commit(self):
        return self.sha

    def __str__(self):
        return self.name


GLOBAL_DEFAULTS = dict(
    robot='robot', repository_host='mock', repository_owner='owner', repository_slug='slug',
    build_key='pre-merge', required_peer_approvals=2, required_leader_approvals=0,
    need_author_approval=True, project_leaders=[], admins=['admin'], pr_author_options={},
    pull_request_base_url='http://host/pr/{pr_id}', commit_base_url='http://host/c/{commit_id}',
    frontend_url='', jira_keys=[], prefixes={}, bypass_prefixes=[], disable_version_checks=False,
    jira_account_url='', jira_email='', max_commit_diff=0, use_queue=True,
)


def make_job(job_settings=None, global_settings=None, author='author', repo=None, pr=None):
    """A real PullRequestJob object (its properties `author_bypass` and `active_options` are
    the real ones) without a BertE instance behind it."""
    job = PullRequestJob.__new__(PullRequestJob)
    g = dict(GLOBAL_DEFAULTS)
    g.update(global_settings or {})
    job.settings = SettingsDict(dict(job_settings or {}), g)
    job.bert_e = SimpleNamespace(settings=SettingsDict(g))
    job.project_repo = repo or StubRepo()
    job.pull_request = pr or SimpleNamespace(id=1, author=author, author_display_name=author)
    job.git = SimpleNamespace(repo=None, cascade=None, src_branch=None, dst_branch=None)
    job.status = ''
    job.details = ''
    import datetime
    job.start_time = datetime.datetime(2020, 1, 1)
    job.end_time = None
    job.id = 'stub'
    job.type = 'PullRequestJob'
    job.user = ''
    return job
