"""Work package Close - witnesses run on the REAL classes (nothing here is part of a check yet; the coordinator
decides where they go).

  python -m harness.close_witness queued-prs
      `QueueCollection.queued_prs` (what rebuild_queues re-submits) MISSES a queued pull request when the latest
      development branch shares its major.minor with a stabilization branch AND a hotfix branch that all have a
      queue: `compare_queues` is not transitive there (hotfix == stab, hotfix == dev, stab < dev), the keys of
      `_queues` (added in the byte order of the ref names q/5.1 < q/5.1.0.1 < q/5.1.2 and re-sorted at each insertion)
      end up as [(5,1), (5,1,0,1), (5,1,2)], and `queued_prs` reads the LAST key shorter than 4 = the stabilization
      queue. `validate()` accepts the collection. Lean: `C20_queuesWF_counterexample` (Props/C20.lean).
  python -m harness.close_witness ties
      the error list of the known finding D18 on the real system: IncoherentQueues [Q008]
      (= `QueueInconsistentPullRequestsOrder`, what `close_validate_ties_counterexample` proves of the model).
"""
import logging
import sys
import warnings


def queued_prs_witness():
    warnings.filterwarnings('ignore')
    logging.disable(logging.CRITICAL)
    from .qvalidate import MergeRepo, Host
    from .fakegit import Graph
    from bert_e.workflow.gitwaterflow.branches import BranchCascade, QueueCollection
    g = Graph()
    c0 = g.commit()
    c1 = g.commit(c0)       # pull request 1 on stabilization/5.1.2 ...
    c2 = g.commit(c1)       # ... and forward-ported to development/5.1
    c3 = g.commit(c0)       # pull request 2 on hotfix/5.1.0
    c4 = g.commit(c2)       # pull request 3 on development/5.1 only
    refs = {'development/5.1': c0, 'stabilization/5.1.2': c0, 'hotfix/5.1.0': c0,
            'q/5.1.2': c1, 'q/w/1/5.1.2/bugfix/x': c1, 'q/5.1': c4, 'q/w/1/5.1/bugfix/x': c2,
            'q/5.1.0.1': c3, 'q/w/2/5.1.0.1/bugfix/y': c3, 'q/w/3/5.1/feature/z': c4}
    repo = MergeRepo(g, dict(refs), ['5.1.0.0'])
    casc = BranchCascade()
    casc.build(repo)
    q = QueueCollection(Host(), 'pre-merge', casc.get_merge_paths(), False)
    q.build(repo)
    q.validate()            # passes
    return list(q._queues.keys()), list(q.queued_prs)


def ties_witness():
    import bert_e.workflow.gitwaterflow.branches as br
    from bert_e import exceptions as errors
    from . import selectsys
    orig = br.QueueCollection.validate
    seen = []

    def validate(self):
        try:
            return orig(self)
        except errors.IncoherentQueues as e:
            seen.append(str(e))
            raise
    br.QueueCollection.validate = validate
    try:
        status = selectsys.witness_equal_queue_commits('ba')[0]
    finally:
        br.QueueCollection.validate = orig
    return status, seen


if __name__ == '__main__':
    if sys.argv[1:2] == ['queued-prs']:
        keys, prs = queued_prs_witness()
        print('keys of _queues:', keys)
        print('queued_prs     :', prs, '(pull request 3 has q/w/3/5.1/feature/z and is missing)' if 3 not in prs else '')
    elif sys.argv[1:2] == ['ties']:
        print(ties_witness())
