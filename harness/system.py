"""Real-system driver: the real BertE class with the mock git host and REAL git on a scratch
bare repository. A `World` executes histories (lists of events) and exposes canonical
observations and the property oracles that only need the remote (ancestry, content).

One World at a time per process (the mock host keeps class-level state)."""
import logging
import os
import shutil
import subprocess
import sys
import tempfile
import warnings
from copy import deepcopy
from types import SimpleNamespace

from . import common

warnings.filterwarnings('ignore')

ROBOT, ADMIN, CONTRIB, PEER1, PEER2 = 'robot', 'admin', 'contrib', 'peer1', 'peer2'
OWNER, SLUG = 'owner', 'slug'

SETTINGS_YML = """
repository_owner: {owner}
repository_slug: {slug}
repository_host: mock
robot: {robot}
robot_email: nobody@nowhere.com
always_create_integration_pull_requests: {create_prs}
always_create_integration_branches: {create_branches}
pull_request_base_url: https://host/{owner}/{slug}/pull-requests/{{pr_id}}
commit_base_url: https://host/{owner}/{slug}/commits/{{commit_id}}
build_key: pre-merge
required_leader_approvals: {leaders}
required_peer_approvals: {peers}
need_author_approval: {author_approval}
admins:
  - {admin}
project_leaders:
  - {admin}
"""

_PATCHED = False


def _patch():
    """Route the 'bitbucket' host to the mock host and neutralise pure waiting."""
    global _PATCHED
    if _PATCHED:
        return
    import bert_e.git_host.bitbucket as bb
    import bert_e.git_host.mock as mock
    import bert_e.lib.retry as retry
    import bert_e.lib.git as libgit
    import bert_e.lib.jira as libjira
    from bert_e.tests.mocks import jira as jira_mock
    bb.Client = mock.Client
    bb.Repository = mock.Repository
    libjira.JiraIssue = jira_mock.JiraIssue
    retry.sleep = lambda *_a, **_k: None
    libgit.time = SimpleNamespace(sleep=lambda *_a, **_k: None)
    logging.disable(logging.CRITICAL)
    _PATCHED = True


def git(cwd, *args, check=True, env=None):
    p = subprocess.run(('git',) + args, cwd=cwd, stdout=subprocess.PIPE, stderr=subprocess.PIPE,
                       text=True, env=env)
    if check and p.returncode != 0:
        raise RuntimeError('git %s failed: %s' % (' '.join(args), p.stderr[-500:]))
    return p.stdout


class Config:
    """Repository layout and robot settings of one history."""

    def __init__(self, dests, tags=(), use_queue=True, skip_queue=False, no_octopus=False,
                 create_prs=True, create_branches=True, peers=0, leaders=0, author_approval=False,
                 options=(), extra=None):
        self.dests = list(dests)          # destination branch names in cascade order (stab before its dev)
        self.tags = list(tags)
        self.use_queue = use_queue
        self.skip_queue = skip_queue
        self.no_octopus = no_octopus
        self.create_prs = create_prs
        self.create_branches = create_branches
        self.peers, self.leaders, self.author_approval = peers, leaders, author_approval
        self.options = list(options)      # command-line options (e.g. bypass_jira_check)
        self.extra = dict(extra or {})

    def as_dict(self):
        return dict(self.__dict__)


def version_key(name):
    """sort key of a destination branch: development/x after development/x.*; stab before its dev"""
    kind, v = name.split('/')
    parts = [int(x) for x in v.split('.')]
    major = parts[0]
    minor = parts[1] if len(parts) > 1 else 10 ** 6
    return (major, minor, 0 if kind == 'stabilization' else 1)


class World:
    def __init__(self, cfg, base_dir=None):
        _patch()
        import bert_e.git_host.mock as mock
        from bert_e.git_host import client_factory
        self.cfg = cfg
        self.mock = mock
        self.dir = tempfile.mkdtemp(prefix='w.', dir=base_dir or common.scratch())
        self.home = os.path.join(self.dir, 'home')
        os.makedirs(self.home)
        self._old_home = os.environ.get('HOME')
        os.environ['HOME'] = self.home
        os.environ['GIT_CONFIG_NOSYSTEM'] = '1'
        self._old_tmp = tempfile.tempdir
        tempfile.tempdir = self.dir              # Bert-E's mkdtemp clones live under the world
        # reset the mock host's class-level state
        mock.Repository.repos = {}
        mock.Repository.items = []
        mock.Repository.revisions = {}
        mock.PullRequest.items = []
        mock.Comment.items = []
        self.clients = {u: client_factory('mock', u, 'pw', 'nobody@nowhere.com')
                        for u in (ROBOT, ADMIN, CONTRIB, PEER1, PEER2)}
        self.admin_repo = self.clients[ADMIN].create_repository(owner=OWNER, slug=SLUG)
        self.repos = {u: c.get_repository(owner=OWNER, slug=SLUG) for u, c in self.clients.items()}
        self.bare = self.admin_repo.git_url
        self.work = os.path.join(self.dir, 'dev')
        self.counter = 0
        self.clock = 1600000000
        self._init_repo()
        self.berte = None
        self.fresh_instance()
        self.log = []                      # (event, outcome)

    # ------------------------------------------------------------------ set-up
    def _env(self):
        self.clock += 10
        e = dict(os.environ)
        d = '%d +0000' % self.clock
        e.update(GIT_AUTHOR_DATE=d, GIT_COMMITTER_DATE=d)
        return e

    def _commit_file(self, label, author=CONTRIB, shared=None):
        self.counter += 1
        fn = shared or 'f_%s_%d' % (label.replace('/', '_'), self.counter)
        with open(os.path.join(self.work, fn), 'w') as fh:
            fh.write('%s %s %d\n' % (fn, label, self.counter))
        git(self.work, 'add', fn)
        git(self.work, '-c', 'user.name=%s' % author, '-c', 'user.email=%s@x' % author,
            'commit', '-q', '-m', 'adds %s' % fn, env=self._env())
        return fn

    def _init_repo(self):
        os.makedirs(self.work)
        git(self.work, 'init', '-q', '--initial-branch=master')
        git(self.work, 'config', 'user.email', 'dev@x')
        git(self.work, 'config', 'user.name', 'dev')
        git(self.work, 'remote', 'add', 'origin', self.bare)
        self._commit_file('root', 'dev')
        prev = 'master'
        for name in self.cfg.dests:
            if name.startswith('hotfix/'):
                git(self.work, 'checkout', '-q', '-b', name, 'master')
                self._commit_file(name, 'dev')
                continue
            git(self.work, 'checkout', '-q', '-b', name, prev)
            self._commit_file(name, 'dev')
            prev = name
        for t in self.cfg.tags:
            git(self.work, 'tag', t, 'master')
        git(self.work, 'checkout', '-q', '--detach')
        git(self.work, 'branch', '-q', '-D', 'master')
        git(self.work, 'push', '-q', '--all', 'origin')
        git(self.work, 'push', '-q', '--tags', 'origin')

    def cmd_line_options(self):
        """`no_octopus` is an OPTION (Reactor): it reaches `job.settings` only from the command line
        (`gwf.setup({key: True ...})` installs it as the option's default) or from a comment; a settings key of
        that name is shadowed by the option's default `False` in every job."""
        opts = list(self.cfg.options)
        if self.cfg.no_octopus and 'no_octopus' not in opts:
            opts.append('no_octopus')
        return opts

    def fresh_instance(self):
        """A new BertE object (a restarted server)."""
        from bert_e.bert_e import BertE
        from bert_e.settings import setup_settings
        c = self.cfg
        yml = os.path.join(self.dir, 'settings.yml')
        with open(yml, 'w') as fh:
            fh.write(SETTINGS_YML.format(owner=OWNER, slug=SLUG, robot=ROBOT, admin=ADMIN,
                                         create_prs=c.create_prs, create_branches=c.create_branches,
                                         leaders=c.leaders, peers=c.peers,
                                         author_approval=c.author_approval))
        settings = setup_settings(yml)
        settings.update(dict(robot_password='pw', jira_token='t', backtrace=True, quiet=True,
                             disable_queues=not c.use_queue, cmd_line_options=self.cmd_line_options(),
                             skip_queue_when_not_needed=c.skip_queue))
        settings.update(c.extra)
        if self.berte is not None:
            try:
                self.berte.git_repo.delete()
            except Exception:
                pass
        self.berte = BertE(settings)
        return self.berte

    def close(self):
        try:
            if self.berte is not None and self.berte.git_repo.tmp_directory:
                self.berte.git_repo.delete()
        except Exception:
            pass
        tempfile.tempdir = self._old_tmp
        if self._old_home is not None:
            os.environ['HOME'] = self._old_home
        shutil.rmtree(self.dir, ignore_errors=True)

    # ------------------------------------------------------------------ third-party / user actions
    def _fetch(self):
        git(self.work, 'fetch', '-q', '--prune', 'origin', '+refs/heads/*:refs/remotes/origin/*')

    def user_branch(self, name, from_ref, author=CONTRIB, push=True):
        self._fetch()
        git(self.work, 'checkout', '-q', '-B', name, 'origin/' + from_ref)
        fn = self._commit_file(name, author)
        if push:
            git(self.work, 'push', '-q', '-f', 'origin', name)
        git(self.work, 'checkout', '-q', '--detach')
        return fn

    def user_commit(self, branch, author=CONTRIB, shared=None):
        """a new commit on top of a remote branch (fast-forward push); `shared` names a file that
        several branches write to (so that merges can conflict)"""
        self._fetch()
        git(self.work, 'checkout', '-q', '-B', 'tmpwork', 'origin/' + branch)
        fn = self._commit_file(branch, author, shared)
        git(self.work, 'push', '-q', 'origin', 'tmpwork:' + branch)
        git(self.work, 'checkout', '-q', '--detach')
        return fn

    def user_revert(self, branch, like, author=CONTRIB):
        """a new commit on top of a remote branch whose TREE is the tree of another branch (a revert by hand): the
        branch then brings no content beyond `like`"""
        self._fetch()
        self.counter += 1
        tree = git(self.work, 'rev-parse', 'origin/%s^{tree}' % like).strip()
        parent = git(self.work, 'rev-parse', 'origin/' + branch).strip()
        env = self._env()
        env.update(GIT_AUTHOR_NAME=author, GIT_AUTHOR_EMAIL='%s@x' % author, GIT_COMMITTER_NAME=author,
                   GIT_COMMITTER_EMAIL='%s@x' % author)
        sha = git(self.work, 'commit-tree', tree, '-p', parent, '-m', 'back to %s %d' % (like, self.counter),
                  env=env).strip()
        git(self.work, 'push', '-q', 'origin', '%s:refs/heads/%s' % (sha, branch))

    def user_amend(self, branch):
        self._fetch()
        git(self.work, 'checkout', '-q', '-B', 'tmpwork', 'origin/' + branch)
        git(self.work, '-c', 'user.name=%s' % CONTRIB, '-c', 'user.email=c@x', 'commit', '-q',
            '--amend', '-m', 'amended %d' % self.counter, env=self._env())
        self.counter += 1
        git(self.work, 'push', '-q', '-f', 'origin', 'tmpwork:' + branch)
        git(self.work, 'checkout', '-q', '--detach')

    def user_rebase(self, branch, onto):
        self._fetch()
        git(self.work, 'checkout', '-q', '-B', 'tmpwork', 'origin/' + branch)
        p = subprocess.run(['git', '-c', 'user.name=%s' % CONTRIB, '-c', 'user.email=c@x', 'rebase',
                            '-q', 'origin/' + onto], cwd=self.work, env=self._env(),
                           stdout=subprocess.PIPE, stderr=subprocess.PIPE)
        if p.returncode != 0:
            git(self.work, 'rebase', '--abort', check=False)
            git(self.work, 'checkout', '-q', '--detach')
            return False
        git(self.work, 'push', '-q', '-f', 'origin', 'tmpwork:' + branch)
        git(self.work, 'checkout', '-q', '--detach')
        return True

    def open_pr(self, src, dst, author=CONTRIB, create_branch=True):
        if create_branch:
            self.user_branch(src, dst, author)
        pr = self.repos[author].create_pull_request(
            title='title', name='name', src_branch=src, dst_branch=dst,
            close_source_branch=True, reviewers=[], description='')
        return pr.id

    def pr(self, pr_id, user=ROBOT):
        return self.repos[user].get_pull_request(pull_request_id=pr_id)

    def approve(self, pr_id, user):
        self.pr(pr_id, user).approve()

    def request_changes(self, pr_id, user):
        self.pr(pr_id, user).request_changes()

    def comment(self, pr_id, user, text):
        return self.pr(pr_id, user).add_comment(text)

    def decline(self, pr_id, user=CONTRIB):
        self.pr(pr_id, user).decline()

    def set_build(self, sha, state, key='pre-merge'):
        self.repos[ROBOT].set_build_status(revision=sha, key=key, state=state)

    # ------------------------------------------------------------------ Bert-E evaluations
    def _tick(self):
        """Every job runs at its own instant of the world's clock. Bert-E's merge commits take their dates from the
        environment git sees; without this, two evaluations that re-create the same merge (same parents, same tree,
        same message: a rebuild right after a reset) within one wall-clock second produce the SAME commit object,
        which a history comparison by commit identity reads as "the old commit" (a flaky false disagreement on a
        fast machine)."""
        self.clock += 10
        os.environ['GIT_AUTHOR_DATE'] = os.environ['GIT_COMMITTER_DATE'] = '%d +0000' % self.clock

    def _run(self, job):
        b = self.berte
        b.put_job(job)
        self._tick()
        b.process_task()
        return job.status or 'ok'

    def eval_pr(self, pr_id, **settings):
        from bert_e.job import PullRequestJob
        try:
            pr = self.berte.project_repo.get_pull_request(int(pr_id))
        except Exception as e:
            return 'nopr:' + type(e).__name__
        return self._run(PullRequestJob(bert_e=self.berte, pull_request=pr, settings=settings))

    def eval_commit(self, sha, **settings):
        from bert_e.job import CommitJob
        return self._run(CommitJob(bert_e=self.berte, commit=sha, settings=settings))

    def job(self, kind, **settings):
        from bert_e import jobs as J
        import importlib
        cls = {
            'create_branch': ('bert_e.jobs.create_branch', 'CreateBranchJob'),
            'delete_branch': ('bert_e.jobs.delete_branch', 'DeleteBranchJob'),
            'rebuild_queues': ('bert_e.jobs.rebuild_queues', 'RebuildQueuesJob'),
            'delete_queues': ('bert_e.jobs.delete_queues', 'DeleteQueuesJob'),
            'force_merge_queues': ('bert_e.jobs.force_merge_queues', 'ForceMergeQueuesJob'),
            'eval_pull_request': ('bert_e.jobs.eval_pull_request', 'EvalPullRequestJob'),
        }[kind]
        klass = getattr(importlib.import_module(cls[0]), cls[1])
        return self._run(klass(bert_e=self.berte, settings=settings))

    def drain(self, limit=20):
        """process jobs that a job left pending (rebuild_queues re-submits pull requests)"""
        out = []
        while self.berte.task_queue.qsize() and limit:
            limit -= 1
            self._tick()
            job = self.berte.process_task()
            pr = getattr(job, 'pull_request', None)
            out.append((pr.id if pr is not None else None, job.status or 'ok'))
        return out

    # ------------------------------------------------------------------ observation
    def refs(self):
        out = git(self.bare, 'for-each-ref', '--format=%(refname) %(objectname)', 'refs/heads')
        return {l.split()[0][len('refs/heads/'):]: l.split()[1] for l in out.splitlines()}

    def tags(self):
        out = git(self.bare, 'for-each-ref', '--format=%(refname) %(objectname)', 'refs/tags')
        return {l.split()[0][len('refs/tags/'):]: l.split()[1] for l in out.splitlines()}

    def is_ancestor(self, a, b):
        p = subprocess.run(['git', 'merge-base', '--is-ancestor', a, b], cwd=self.bare,
                           stdout=subprocess.PIPE, stderr=subprocess.PIPE)
        return p.returncode == 0

    def files(self, ref):
        return frozenset(git(self.bare, 'ls-tree', '-r', '--name-only', ref).split())

    def tree(self, ref):
        return git(self.bare, 'rev-parse', ref + '^{tree}').strip()

    def build_of(self, sha, key='pre-merge'):
        return self.mock.Repository.revisions.get((sha, key), 'NOTSTARTED')

    def prs(self):
        out = []
        for item in sorted(self.mock.PullRequest.items, key=lambda p: p.id):
            out.append({'id': item.id, 'author': item.author['username'],
                        'src': item.source['branch']['name'], 'dst': item.destination['branch']['name'],
                        'state': item.state, 'title': item.title, 'description': item.description})
        return out

    def comments(self, pr_id):
        return [(c.user['username'], c.content['raw']) for c in self.mock.Comment.items
                if c.pull_request_id == pr_id]

    def dest_refs(self, refs=None):
        refs = self.refs() if refs is None else refs
        return sorted((n for n in refs if n.split('/')[0] in ('development', 'stabilization')),
                      key=version_key)

    # ------------------------------------------------------------------ oracles that only need the remote
    def inclusion_breaks(self, refs=None):
        """C01: consecutive destination branches (stab -> its dev -> next dev ...) are included."""
        refs = self.refs() if refs is None else refs
        names = self.dest_refs(refs)
        devs = [n for n in names if n.startswith('development/')]
        bad = []
        for a, b in zip(devs, devs[1:]):
            if not self.is_ancestor(refs[a], refs[b]):
                bad.append((a, b))
        for s in (n for n in names if n.startswith('stabilization/')):
            v = s.split('/')[1].split('.')
            d = 'development/%s.%s' % (v[0], v[1])
            if d in refs and not self.is_ancestor(refs[s], refs[d]):
                bad.append((s, d))
        return bad
