"""C10 — re-evaluation converges, never spams, commands run once, outcome independent of the instance's past.

Tie, in two parts.

A. The comment primitives (`find_comment`, `_send_comment` of bert_e/workflow/pr_utils.py) are run on stub pull
   requests over an exhaustive small universe (comment lists x startswith x max_history / dont_repeat_if_in_history
   x no_comment) and compared with `findComment` / `sendComment` of lean/BertE/Model/Comments.lean.

B. Seeded system histories (real BertE, mock host, real git). Every history is executed twice from scratch:
   once with one long-lived BertE instance, once with a restarted server before every job. After every event one
   of the possible evaluations of the reached state (pull-request event of any pull request; commit event on any
   source / w/ / q/ / q/w/ tip) is chosen by the PRNG and repeated three times (a fourth time when the third one
   still changed something: the property allows "at most two more" evaluations before quiescence). Every real `notify_user` and every command pass of `handle_comments` that
   happened is replayed on the Lean model (`sendComment`, `commandPass`/`pendingCommands`).
   Oracles: (1) convergence, (2) no identical robot comment twice in a row (outside the deliberate exemptions),
   (3) a command comment is executed at most once, (4) long-lived and restarted runs are indistinguishable.
"""
import itertools
import json
import os
import re
import traceback
from multiprocessing import Pool

from . import common
from . import c10_instr as instr
from .pipeline import Result

PID = 'C10'
TABLES = ['Messages', 'Reactor', 'Commands']
LEAN_TARGETS = ['BertE.Props.C10']
ASSUMPTIONS = [
    'nothing outside Bert-E changes between the repeated evaluations (premise of the property)',
    'comments are posted (`no_comment` and `interactive` are off): with `no_comment` a command can never be '
    'answered, so it stays pending; the property is about a robot that can speak',
    'only the robot writes with the robot account',
    'two renderings of robot messages are equal exactly when class and rendered arguments are equal (message '
    'identity of the model); validated by the comment comparison of the histories only',
    'closed-loop phase (harness/convsys.py): the identity of message TEXTS beyond the class (rendered arguments) and the '
    'answers of git\'s content merges are read back from the real run; everything else of the 4 consecutive evaluations '
    'is predicted by the model from ONE serialisation of host and repository; commands reset / force_reset and the '
    'QueueCollection.validate() guards are outside Model/Conv.lean (such repetitions stop being compared, counted)',
]
TRUSTED = [
    'Lean 4 kernel; axioms of every theorem audited (subset of propext, Classical.choice, Quot.sound)',
    'hand-written models lean/BertE/Model/Comments.lean (find_comment, _send_comment, notify_user, command pass) '
    'and Model/Flow.lean; tied to the code by the exhaustive stub enumeration and by replaying every real '
    'notification and command pass of the histories on the model',
    'harness/tables/commands.py (AST walk of commands.py: which message classes each registered command handler can raise)',
    'hand-written closed loop lean/BertE/Model/Conv.lean (Eval.evalPr + Flow.step + the host updates Bert-E makes: '
    'de-duplicated comments, integration pull requests, the host rule MERGED) tied by harness/convsys.py',
    'harness/c10.py + c10_instr.py (wrappers around _send_comment, handle_comments, Reactor.handle_commands and the '
    'command handlers; a restarted server is emulated in-process: new BertE object + option defaults of the Reactor '
    'registry restored to their import-time values), harness/system.py, harness/histories.py (mock host, real git)',
]

COMMAND_ANSWERS = {'HelpMessage', 'StatusReport', 'CommandNotImplemented', 'ResetComplete', 'LossyResetWarning'}
# messages that report something that happened (again): allowed twice in a row only when something outside
# Bert-E happened in between
OCCURRENCE_MESSAGES = {'InitMessage', 'IntegrationDataCreated', 'PartialMerge'}

# (weight, text): commands (answered, executed once), options, unknown words and refused options (these block the
# pull request until ... forever: kept rare), plain text
COMMENT_TEXTS = [
    (6, '@robot help'), (6, '@robot status'), (10, '@robot reset'), (6, '@robot force_reset'), (3, '@robot build'),
    (3, '@robot retry'), (3, '@robot clear'), (2, '/help'), (3, '/reset'), (2, '/status'), (2, '@robot: status'),
    (2, '@robot status now'), (1, '@robot build now'),
    (8, '@robot after_pull_request=%(n)d'), (3, '@robot approve'), (2, '@robot wait'), (2, '@robot unanimity'),
    (2, '@robot bypass_build_status'), (2, '@robot bypass_author_approval'), (1, '/wait'),
    (2, '@robot create_pull_requests'),
    (2, '@robot frobnicate'), (1, '@robot help me please'), (1, '@robot reset frobnicate'),
    (3, 'looks good to me'),
]


# ============================================================================ part A: primitives on stubs

class _StubComment:
    def __init__(self, author, text, k):
        self.author, self.text, self.id = author, text, k


class _StubPR:
    def __init__(self, comments):
        self.comments = [_StubComment(a, t, k) for k, (a, t) in enumerate(comments)]
        self.id = 1
        self.posted = []

    def add_comment(self, msg):
        self.posted.append(msg)
        self.comments.append(_StubComment('robot', msg, len(self.comments)))


class _Settings:
    def __init__(self, no_comment):
        self.no_comment, self.interactive, self.robot = no_comment, False, 'robot'


def esc(s):
    return s.encode('utf-8').hex()


def enc_comments(cs):
    return ' '.join('%s:%s' % (a, esc(t)) for a, t in cs)


def opt_int(v):
    return 'N' if v is None else str(int(v))


def find_line(cs, user, sw, mh):
    return ('C10 find %s %s %s %s' % ('N' if user is None else 'u:' + esc(user), 'N' if sw is None else 's:' + esc(sw),
                                      opt_int(mh), enc_comments(cs))).rstrip(' ')


def send_line(cs, robot, msg, norepeat, no_comment):
    return ('C10 send %s %d %s m:%s %s' % (robot, int(bool(no_comment)), opt_int(norepeat), esc(msg),
                                           enc_comments(cs))).rstrip(' ')


def real_find(cs, user, sw, mh):
    from bert_e.workflow.pr_utils import find_comment
    pr = _StubPR(cs)
    try:
        c = find_comment(pr, user, sw, mh)
    except Exception as e:
        return 'crash ' + type(e).__name__
    return 'none' if c is None else 'found %d' % c.id


def real_send(cs, msg, norepeat, no_comment):
    import bert_e.workflow.pr_utils as pu
    from bert_e import exceptions as exc
    pr = _StubPR(cs)
    try:
        instr_rec, instr.REC = instr.REC, None      # the recorder must not see the stub calls
        try:
            pu._send_comment(_Settings(no_comment), pr, msg, norepeat)
        finally:
            instr.REC = instr_rec
    except exc.CommentAlreadyExists:
        return 'exists'
    except Exception as e:
        return 'crash ' + type(e).__name__
    return 'posted' if pr.posted == [msg] else ('muted' if not pr.posted else 'other')


def primitive_cells(tier):
    authors = ['robot', 'alice']
    texts = ['A', 'AB', 'B', '']
    maxlen = 3 if tier == 'quick' else 4
    units = [(a, t) for a in authors for t in texts]
    for n in range(maxlen + 1):
        for cs in itertools.product(units, repeat=n):
            yield list(cs)


def part_a(ctx, res):
    lines, reals, inputs = [], [], []
    for cs in primitive_cells(ctx.tier):
        for sw in (None, '', 'A', 'AB', 'B'):
            for mh in (None, -1, 0, 1, 2, 3, 5, -2):
                for user in ('robot',) if len(cs) > 2 else ('robot', None, 'alice'):
                    lines.append(find_line(cs, user, sw, mh))
                    reals.append(real_find(cs, user, sw, mh))
                    inputs.append({'fn': 'find_comment', 'comments': cs, 'username': user, 'startswith': sw,
                                   'max_history': mh})
        for msg in ('A', 'AB', 'B', ''):
            for nr in (None, 0, -1, 1, 2, 10, -2):
                for nc in (False, True):
                    lines.append(send_line(cs, 'robot', msg, nr, nc))
                    reals.append(real_send(cs, msg, nr, nc))
                    inputs.append({'fn': '_send_comment', 'comments': cs, 'msg': msg, 'norepeat': nr, 'no_comment': nc})
                    # property oracle on the primitive: with -1, nothing is posted when the robot's latest comment
                    # starts with the message; something IS posted when it does not (or the robot never spoke)
                    if nr == -1 and not nc:
                        latest = next((t for a, t in reversed(cs) if a == 'robot'), None)
                        same = latest is not None and (latest.startswith(msg) if msg else True)
                        if (reals[-1] == 'posted') == same:
                            res.oracle_failures.append({
                                'key': 'primitive-no-twice', 'what': '_send_comment(-1): latest robot comment %r, '
                                'message %r -> %s' % (latest, msg, reals[-1]), 'input': inputs[-1],
                                'observation': reals[-1]})
    res.evaluations += len(lines)
    res.count('primitive:find_comment', sum(1 for i in inputs if i['fn'] == 'find_comment'))
    res.count('primitive:_send_comment', sum(1 for i in inputs if i['fn'] == '_send_comment'))
    for r in reals:
        res.count('primitive-outcome:' + r.split()[0])
    if ctx.model is not None:
        answers = ctx.model.ask_parallel(lines)
        res.model_compared += len(lines)
        for inp, real, ans in zip(inputs, reals, answers):
            if real != ans:
                res.disagreements.append({'input': inp, 'real': real, 'model': ans})
                if len(res.disagreements) > 20:
                    break
    return res


# ============================================================================ part B: histories

def gen(rng):
    """configuration + history with many command comments"""
    from .histories import gen_config, gen_history
    cfg, mode = gen_config(rng)
    # keep the gates closed in most histories, so that pull requests stay open and commands matter
    if 'bypass_build_status' in cfg.options and rng.random() < 0.7:
        cfg.options.remove('bypass_build_status')
    cfg.author_approval = rng.random() < 0.5
    base = gen_history(rng, cfg, length=rng.randint(5, 10), admin_jobs=rng.random() < 0.5)
    evs, nprs = [], 0
    for e in base:
        evs.append(e)
        if e['op'] == 'open':
            nprs = max(nprs, e['pr'])
            if rng.random() < 0.5:
                evs.append({'op': 'eval_pr', 'pr': e['pr']})
        if nprs and rng.random() < 0.35:
            text = rng.choices([t for _, t in COMMENT_TEXTS], [w for w, _ in COMMENT_TEXTS])[0] % {'n': rng.randint(1, 3)}
            evs.append({'op': 'comment', 'pr': rng.randint(1, nprs),
                        'user': rng.choice(['contrib', 'contrib', 'admin', 'admin', 'peer1']), 'text': text})
            if rng.random() < 0.5:
                evs.append({'op': 'eval_pr', 'pr': evs[-1]['pr']})
    return cfg, mode, evs


SHA_RE = re.compile(r'\b[0-9a-f]{7,40}\b')


def norm_text(t):
    return SHA_RE.sub('<sha>', t)


class Exec:
    """One execution of a history (long-lived or restarted-before-every-job)."""

    def __init__(self, cfg, fresh, base):
        from .histories import Run
        self.rec = instr.start()
        instr.restore_registry()          # a history starts with a newly started server
        self.fresh = fresh
        self.run = Run(cfg, base)
        self.w = self.run.w
        w = self.w
        if fresh:
            for name in ('eval_pr', 'eval_commit', 'job'):
                setattr(w, name, self._restarting(getattr(w, name)))
        self.failures = []
        self.late = []             # repetitions whose third evaluation still acted (allowed: "at most two more")
        self.stats = {}

    def _restarting(self, fn):
        def call(*a, **k):
            instr.restore_registry()
            self.w.fresh_instance()
            return fn(*a, **k)
        return call

    def close(self):
        instr.stop()
        self.run.close()

    def count(self, k, n=1):
        self.stats[k] = self.stats.get(k, 0) + n

    # ---- observations -----------------------------------------------------
    def quick_state(self):
        mock = self.w.mock
        return (tuple(sorted(self.w.refs().items())), len(mock.PullRequest.items), len(mock.Comment.items))

    def canonical(self):
        """What can be compared between two executions of the same history (commit ids differ)."""
        from .system import git
        w = self.w
        out = git(w.bare, 'for-each-ref', '--format=%(refname) %(objectname) %(tree)', 'refs/heads')
        refs, trees = {}, {}
        for line in out.splitlines():
            name, sha, tree = line.split()
            name = name[len('refs/heads/'):]
            refs[name], trees[name] = sha, tree
        tips = {}
        for n, s in refs.items():
            tips.setdefault(s, []).append(n)
        classes = sorted(sorted(v) for v in tips.values())
        parents = {}
        if refs:
            for line in git(w.bare, 'rev-list', '--parents', '--branches').splitlines():
                c, *ps = line.split()
                parents[c] = ps
        anc = []
        for b in sorted(tips):
            seen, todo = set(), [b]
            while todo:
                c = todo.pop()
                if c in seen:
                    continue
                seen.add(c)
                todo.extend(parents.get(c, ()))
            for a in tips:
                if a != b and a in seen:
                    anc.append((sorted(tips[a])[0], sorted(tips[b])[0]))
        prs = [(p['id'], p['author'], p['src'], p['dst'], p['state']) for p in w.prs()]
        comments = {}
        for c in w.mock.Comment.items:
            comments.setdefault(c.pull_request_id, []).append((c.user['username'], norm_text(c.content['raw'])))
        return {'trees': trees, 'classes': classes, 'anc': sorted(anc), 'prs': prs,
                'comments': {k: v for k, v in sorted(comments.items())}}

    def candidates(self):
        w = self.w
        refs = w.refs()
        prs = w.prs()
        out = ['pr:%d' % p['id'] for p in prs]
        srcs = {p['src'] for p in prs}
        for n in sorted(refs):
            if n in srcs or n.startswith('w/') or n.startswith('q/'):
                out.append('tip:' + n)
        return out

    def evaluate(self, target):
        kind, x = target.split(':', 1)
        if kind == 'pr':
            return self.w.eval_pr(int(x))
        refs = self.w.refs()
        if x not in refs:
            return 'gone'
        return self.w.eval_commit(refs[x])

    def triple(self, target, at):
        """repeat one evaluation; returns the record of the repetition"""
        states = [self.quick_state()]
        statuses = []
        for k in range(3):
            statuses.append(self.evaluate(target))
            states.append(self.quick_state())
        changed = [states[i] != states[i + 1] for i in range(3)]
        self.count('triple')
        self.count('triple-kind:' + target.split(':')[0] + (':' + target.split(':')[1].split('/')[0]
                                                              if target.startswith('tip:') else ''))
        self.count('triple-changes:%d%d%d' % tuple(map(int, changed)))
        for s in statuses:
            self.count('status:' + s)
        rec = {'target': target, 'statuses': statuses, 'changed': changed}
        if changed[2]:
            # the property allows "at most two more" evaluations before quiescence: one more must change nothing
            statuses.append(self.evaluate(target))
            self.count('status:' + statuses[-1])
            self.count('third-evaluation-still-acted')
            states.append(self.quick_state())
            rec['changed'].append(states[3] != states[4])
            self.late.append({'at': at, 'target': target, 'statuses': statuses,
                              'diffs': [state_diff(states[i], states[i + 1]) for i in range(4)]})
            if states[3] != states[4]:
                self.failures.append({
                    'key': 'no-convergence', 'at': at,
                    'what': 'evaluation %s repeated: the 4th consecutive evaluation still changes the state '
                            '(statuses %s)' % (target, statuses),
                    'observation': {'target': target, 'statuses': statuses,
                                    'diff': state_diff(states[3], states[4])}})
        return rec

    # ---- oracles on the whole execution -------------------------------------
    def final_oracles(self):
        rec = self.rec
        # (3) a command comment is executed at most once
        per = {}
        for x in rec.execs:
            per.setdefault((x['pr'], x['comment_id']), []).append(x)
        for (pr, cid), xs in sorted(per.items(), key=lambda kv: str(kv[0])):
            self.count('command-executions', len(xs))
            self.count('command:' + xs[0]['key'])
            if cid is not None and len(xs) > 1:
                text = next((c.content['raw'] for c in self.w.mock.Comment.items if c.id == cid), None)
                self.failures.append({
                    'key': 'command-executed-twice', 'at': xs[1]['clock'],
                    'what': 'comment #%s %r on pull request %s was executed %d times (command %s)'
                            % (cid, text, pr, len(xs), xs[0]['key']),
                    'observation': {'pr': pr, 'comment': text, 'executions': len(xs),
                                    'at': [x['clock'] for x in xs]}})
        # (2) the same message twice in a row
        by_pr = {}
        for c in self.w.mock.Comment.items:
            by_pr.setdefault(c.pull_request_id, []).append(c)
        for pr, cs in sorted(by_pr.items()):
            prev = None
            for c in cs:
                if c.user['username'] != self.w.cfg_robot:
                    continue
                if prev is not None and prev.content['raw'] == c.content['raw']:
                    cls = rec.cls_of.get(c.id)
                    self.count('same-twice:%s' % cls)
                    ok = False
                    if cls in COMMAND_ANSWERS:
                        trig = rec.trigger_of.get(c.id)
                        ok = trig is not None and prev.id < trig < c.id
                    elif cls in OCCURRENCE_MESSAGES:
                        ok = any(rec.when.get(prev.id, -1) < t <= rec.when.get(c.id, -1) for t in self.external_clocks)
                    if not ok:
                        self.failures.append({
                            'key': 'same-message-twice:%s' % cls, 'at': rec.when.get(c.id),
                            'what': 'pull request %s: %s posted twice in a row with the same text' % (pr, cls),
                            'observation': {'pr': pr, 'class': cls, 'first_line': c.content['raw'].split('\n')[0]}})
                prev = c


def state_diff(a, b):
    ra, rb = dict(a[0]), dict(b[0])
    return {'refs': {n: (ra.get(n, '-')[:8], rb.get(n, '-')[:8]) for n in sorted(set(ra) | set(rb)) if ra.get(n) != rb.get(n)},
            'new_prs': b[1] - a[1], 'new_comments': b[2] - a[2]}


def execute(cfg, events, fresh, seed_key, base, sample=1):
    """Run the history; after every event repeat `sample` of the possible evaluations three times."""
    from .system import ROBOT
    ex = Exec(cfg, fresh, base)
    ex.w.cfg_robot = ROBOT
    ex.external_clocks = []
    rng = common.rng_for(seed_key, 'triples')
    trace = []
    try:
        clock = 0
        for n, ev in enumerate(events):
            clock += 1
            ex.rec.clock = clock
            if ev['op'] == 'triple':
                kind, info = 'triple', None
                step = {'n': n, 'op': 'triple', 'rep': ex.triple(ev['target'], n)}
            else:
                if ev['op'] == 'open_backport':
                    from . import c10_backport
                    kind, info = c10_backport.open_backport(ex.run, ev)
                else:
                    kind, info = ex.run.execute(ev)
                if kind == 'skip':
                    ex.count('skipped')
                    continue
                ex.count('ev:' + ev['op'])
                # what can destroy integration data outside an evaluation: pushes of third parties, a declined
                # pull request, admin jobs (comments, approvals and build reports cannot)
                if kind == 'ext' or ev['op'] == 'decline' or \
                        (kind == 'job' and info.get('kind') not in ('pr', 'commit')):
                    ex.external_clocks.append(clock)
                status = info.get('status') if (kind == 'job' and info) else None
                if status:
                    ex.count('status:' + status)
                step = {'n': n, 'op': ev['op'], 'status': status,
                        'drained': (info or {}).get('drained') if kind == 'job' else None}
            step['obs'] = ex.canonical()
            reps = []
            if ev['op'] != 'triple' and sample:
                cands = ex.candidates()
                for target in (rng.sample(cands, min(sample, len(cands))) if cands else []):
                    clock += 1
                    ex.rec.clock = clock
                    reps.append(ex.triple(target, n))
                if reps:
                    step['obs_after_reps'] = ex.canonical()
            step['reps'] = reps
            trace.append(step)
        ex.final_oracles()
        rec = ex.rec
        return {'trace': trace, 'failures': ex.failures, 'stats': ex.stats, 'late': ex.late,
                'sends': rec.sends, 'passes': rec.passes, 'execs': len(rec.execs)}
    finally:
        ex.close()


def compare_runs(a, b):
    """(4) the execution with a long-lived instance and the one with restarts are indistinguishable"""
    if len(a['trace']) != len(b['trace']):
        return {'at': min(len(a['trace']), len(b['trace'])), 'what': 'different number of executed events'}
    for sa, sb in zip(a['trace'], b['trace']):
        for key in ('op', 'status', 'drained'):
            if sa.get(key) != sb.get(key):
                return {'at': sa['n'], 'what': '%s of event %d (%s): long-lived %r, restarted %r'
                        % (key, sa['n'], sa['op'], sa.get(key), sb.get(key))}
        ra = [(r['target'], r['statuses'], r['changed']) for r in sa.get('reps', [])] + [sa.get('rep')]
        rb = [(r['target'], r['statuses'], r['changed']) for r in sb.get('reps', [])] + [sb.get('rep')]
        if ra != rb:
            return {'at': sa['n'], 'what': 'repeated evaluations after event %d (%s): long-lived %r, restarted %r'
                    % (sa['n'], sa['op'], ra, rb)}
        for key in ('obs', 'obs_after_reps'):
            oa, ob = sa.get(key), sb.get(key)
            if oa == ob:
                continue
            for part in ('prs', 'classes', 'anc', 'trees', 'comments'):
                if oa[part] != ob[part]:
                    return {'at': sa['n'], 'what': '%s after event %d (%s)%s differ: long-lived %s, restarted %s'
                            % (part, sa['n'], sa['op'], ' and its repetitions' if key != 'obs' else '',
                               json.dumps(oa[part], default=str)[:400], json.dumps(ob[part], default=str)[:400])}
    return None


def model_lines(out):
    """every real notification / command pass of an execution as a model question with the real answer"""
    qs = []
    for s in out['sends']:
        if s['cls'] is None:
            continue
        real = s['outcome']
        qs.append((send_line(s['before'], s['robot'], s['msg'], s['norepeat'], s['no_comment']), real,
                   {'fn': 'notify_user', 'pr': s['pr'], 'class': s['cls'], 'norepeat': s['norepeat'],
                    'comments': [(a, t[:60]) for a, t in s['before']], 'msg': s['msg'][:60]}))
    for p in out['passes']:
        if p['error'] in ('UnknownCommand', 'NotEnoughCredentials', 'NotAuthor', 'IncorrectCommandSyntax') \
                and p['executed'] is None:
            # raised by the option pass or the command pass: the model says which
            real = 'error ' + p['error']
        elif p['executed'] is not None:
            real = 'command %d %s' % (p['executed'][0], p['executed'][1])
        elif p['error'] is None:
            real = 'ok'
        else:
            real = 'crash ' + p['error']
        line = ('C10 pass %s %s %s %s' % (p['robot'], ','.join(p['admins']) or '-', p['pr_author'],
                                          enc_comments(p['comments']))).rstrip(' ')
        qs.append((line, real, {'fn': 'handle_comments', 'pr': p['pr'],
                                'comments': [(a, t[:60]) for a, t in p['comments']]}))
    return qs


def _work(args):
    i, seed, base, use_model, spec = args
    try:
        if spec is None:
            rng = common.rng_for(seed, PID, i)
            if isinstance(i, str) and i.startswith('backport:'):
                from . import c10_backport
                cfg, mode, evs = c10_backport.gen(rng, int(i.split(':')[1]))
            else:
                cfg, mode, evs = gen(rng)
            sample = 1
        else:
            from .system import Config
            cfgd = dict(spec['cfg'])
            cfg = Config(cfgd.pop('dests'), **cfgd)
            mode, evs, sample = 'corpus', spec['events'], spec.get('sample', 0)
        key = '%s|%s' % (seed, i)
        a = execute(cfg, evs, False, key, base, sample)
        b = execute(cfg, evs, True, key, base, sample)
        failures = []
        for which, out in (('long-lived', a), ('restarted', b)):
            for f in out['failures']:
                f = dict(f)
                f['instance'] = which
                failures.append(f)
        d = compare_runs(a, b)
        if d:
            failures.append({'key': 'instance-dependence', 'at': d['at'], 'what': d['what'], 'observation': d})
        qs = model_lines(a) + model_lines(b)
        seen, uniq = set(), []
        for q in qs:
            if q[0] not in seen:
                seen.add(q[0])
                uniq.append(q)
        dis = []
        compared = 0
        if use_model and uniq:
            answers = common.Model().ask([q[0] for q in uniq])
            compared = len(uniq)
            for (line, real, inp), ans in zip(uniq, answers):
                if real != ans:
                    dis.append({'input': inp, 'real': real, 'model': ans})
        stats = {}
        for out in (a, b):
            for k, v in out['stats'].items():
                stats[k] = stats.get(k, 0) + v
        sends = {}
        for s in a['sends'] + b['sends']:
            k = 'send:%s:%s' % (s['cls'], s['outcome'])
            sends[k] = sends.get(k, 0) + 1
        stats.update(sends)
        return {'i': i, 'mode': mode, 'cfg': cfg.as_dict(), 'events': evs, 'sample': sample, 'failures': failures,
                'late': a['late'],
                'disagreements': dis, 'compared': compared, 'stats': stats, 'execs': a['execs'] + b['execs'],
                'evals': sum(v for k, v in stats.items() if k.startswith('status:')),
                'triples': [r for s in a['trace'] for r in (s.get('reps') or [])][:3]}
    except Exception:
        return {'i': i, 'error': traceback.format_exc()[-3000:], 'spec': spec}


def corpus_specs():
    d = os.path.join(common.CORPUS_DIR, PID)
    out = []
    if os.path.isdir(d):
        for fn in sorted(os.listdir(d)):
            if fn.endswith('.json'):
                with open(os.path.join(d, fn)) as fh:
                    h = json.load(fh)
                h['name'] = fn
                out.append(h)
    return out


RULE = ('A: find_comment/_send_comment on every comment list of length <= 3 (quick) / 4 (thorough) over 2 authors x 4 texts '
        '(with prefixes and the empty text) x startswith x max_history {None,-1,0,1,2,3,5,-2} / dont_repeat {None,0,-1,1,2,10,-2} '
        'x no_comment, against the model. B: seeded system histories (5-10 generator events of C01 plus command comments '
        'help/status/reset/force_reset/build/retry/clear/unknown words/options by author, admin, peer) over 8 cascade templates '
        'x queue modes; after EVERY event one possible evaluation of the reached state (any pull request, any source/w/q/q-w tip), '
        'chosen by the PRNG, is repeated 3 times (4 if the third still acts); every history is executed twice '
        '(long-lived instance / server restarted before every job) and compared event by event; every real notify_user and '
        'command pass is replayed on the model; plus a "backport" family (6 quick / 45 thorough histories, modes queue / '
        'queue+skip / no queue in rotation, no integration pull requests): the source branch was merged up by hand into '
        'the later development branches before the pull request is opened against an earlier one, so that the integration '
        'branches are in sync when they are created. non-trivial = a history in which a command was executed or a repetition changed the state')


def correspondence(ctx):
    res = Result()
    res.rule = RULE
    part_a(ctx, res)
    n = int(os.environ.get('VERIF_C10_HISTORIES', 60 if ctx.tier == 'quick' else 500)) * ctx.scale
    base = common.scratch()
    use_model = ctx.model is not None
    jobs = [('corpus:' + s['name'], ctx.seed, base, use_model, s) for s in corpus_specs()]
    jobs += [(i, ctx.seed, base, use_model, None) for i in range(n)]
    # the "backport" family (harness/c10_backport.py): source already contained in the later development branches
    nb = int(os.environ.get('VERIF_C10_BACKPORTS', 6 if ctx.tier == 'quick' else 45)) * ctx.scale
    jobs += [('backport:%d' % j, ctx.seed, base, use_model, None) for j in range(nb)]
    with Pool(common.NCPU) as pool:
        outs = pool.map(_work, jobs, chunksize=1)
    collect(res, outs)
    # C. the closed loop of one pull request's evaluation (Model/Conv.lean) predicts 4 consecutive real evaluations
    from . import convsys
    convsys.phase(ctx, res)
    return res


def collect(res, outs):
    errors = [o for o in outs if 'error' in o]
    if errors:
        raise RuntimeError('history harness failed on %d histories; first: %s' % (len(errors), errors[0]['error']))
    for o in outs:
        res.evaluations += o['evals']
        res.model_compared += o['compared']
        res.count('histories')
        res.count('mode:%s' % o['mode'])
        for k, v in o['stats'].items():
            res.count(k, v)
        if o['execs'] or any(k.startswith('triple-changes:') and k != 'triple-changes:000' for k in o['stats']):
            res.distinct.add(json.dumps([o['cfg'], o['events']], sort_keys=True, default=str))
        for d in o['disagreements']:
            d = dict(d)
            d['history'] = {'cfg': o['cfg'], 'events': o['events']}
            res.disagreements.append(d)
        for f in o['failures']:
            f = dict(f)
            f['input'] = {'cfg': o['cfg'], 'events': o['events'], 'sample': o['sample'], 'i': o['i']}
            res.oracle_failures.append(f)
        if len(res.samples) < 4 and o.get('triples'):
            res.samples.append({'cfg': {k: o['cfg'][k] for k in ('dests', 'use_queue', 'skip_queue')},
                                'events': o['events'][:5], 'repetitions': o['triples']})
    res.extra['notifications_and_command_passes_replayed_on_model'] = res.model_compared
    # allowed by the property text ("at most two more"), reported for information
    res.extra['third_evaluation_still_acted'] = [
        {'history': o['i'], 'cfg': o['cfg'], 'events': o['events'], 'repetition': l}
        for o in outs for l in o.get('late', [])][:10]


def replay(ctx, payload):
    from . import convsys
    if convsys.is_mine(payload):
        return convsys.replay(ctx, payload)
    f = payload['failure'] if 'failure' in payload else payload
    inp = f['input']
    res = Result()
    if 'fn' in inp:        # a primitive cell
        if inp['fn'] == 'find_comment':
            real = real_find([tuple(c) for c in inp['comments']], inp['username'], inp['startswith'], inp['max_history'])
        else:
            real = real_send([tuple(c) for c in inp['comments']], inp['msg'], inp['norepeat'], inp['no_comment'])
        res.evaluations = 1
        res.samples.append({'input': inp, 'real': real})
        return res
    spec = {'cfg': inp['cfg'], 'events': inp['events'], 'sample': inp.get('sample', 0)}
    i = inp.get('i', 'replay')
    out = _work((i, ctx.seed, common.scratch(), ctx.model is not None, spec))
    collect(res, [out])
    return res
