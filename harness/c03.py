"""C03 — with queues on, destination branches only advance to CI-validated commits: tie and oracle."""
from . import syscheck
from .histories import gen_config, gen_history, no_octopus_of

PID = 'C03'
OWN_STREAM = True
TABLES = ['Build']
LEAN_TARGETS = ['BertE.Props.C03', 'BertE.Props.Full']
ASSUMPTIONS = [
    'C03_queue: the selection of the queue evaluation has green heads; C03_queue_closed discharges this for the '
    'selection computed by the model of QueueCollection._process on the state (Model/Select.lean) under '
    'Select.Validated = pull-request ids are positive and validate() passed; the admin force merge is the stated '
    'exception. Over the closed system (Props/Full.lean) C03_full_step / C03_full_run need neither: every event of '
    'every history, queue merge and direct merge alike, exceptions = C03Exempt (force merge, create_branch, bypassed '
    'build check); hypothesis hT = the generated build-gate table is well-formed (C06_table)',
    'build statuses are keyed by commit on the git host (mock host: Repository.revisions)',
]
TRUSTED = [
    'Lean 4 kernel; axioms of every theorem audited (subset of propext, Classical.choice, Quot.sound)',
    'hand-written model lean/BertE/Model/Git.lean + Flow.lean, tied to the code by the differential run of every '
    'event of every history',
    'harness/histories.py, harness/system.py (mock git host with a build-status table, real git)',
]


def GEN(rng):
    mode = rng.choice(['queue', 'queue', 'queue-skip', 'queue-skip'])
    cfg, mode = gen_config(rng, mode)
    # the build gate is active in most histories; the bypass (a stated exception) in a few
    if rng.random() < 0.85 and 'bypass_build_status' in cfg.options:
        cfg.options.remove('bypass_build_status')
    evs = gen_history(rng, cfg)
    for e in evs:      # no per-pull-request bypass by comment (the exemption would need per-PR bookkeeping)
        if e['op'] == 'comment' and 'bypass_build_status' in e['text']:
            e['text'] = '@robot status'
    return cfg, mode, evs


def oracle_validated(run, ev, kind, info, before, after, host_before, host_after):
    if kind != 'job' or not run.cfg.use_queue:
        return []
    if 'bypass_build_status' in run.cfg.options:
        return []
    k = info.get('kind')
    if k in ('force_merge_queues', 'create_branch', 'delete_branch'):
        return []
    bad = []
    for name, sha in after.items():
        if name.split('/')[0] not in ('development', 'stabilization', 'hotfix'):
            continue
        if name in before and before[name] != sha:
            st = run.w.build_of(sha)
            if st != 'SUCCESSFUL':
                key, extra = 'unvalidated-commit', ''
                # fingerprint of one known circumstance (the verdict above does not depend on it): a direct merge
                # (queue skipped) under `no_octopus` puts the later targets on merge commits that the job itself
                # creates (`consecutive_merge`), which no build can have been reported on
                if info.get('status') == 'SuccessMessage' and sha not in before.values() and (
                        run.cfg.no_octopus or any(no_octopus_of(run, p) for p in run.prs.values())):
                    key = 'unvalidated-commit/no-octopus-direct-merge'
                    extra = '; a merge commit created by this direct merge under no_octopus'
                bad.append({'key': key,
                            'what': '%s advanced to %s whose build is %s (job %s -> %s)%s'
                                    % (name, sha[:8], st, k, info.get('status'), extra),
                            'observation': {'branch': name, 'status': st, 'job': info.get('status')}})
    return bad


ORACLES = [oracle_validated]
RULE = ('seeded histories as in C01 restricted to queue mode (with and without skip_queue_when_not_needed), build '
        'statuses {SUCCESSFUL, FAILED, INPROGRESS, STOPPED, none} reported on integration and queue commits in any order; '
        'oracle at every movement of a destination branch: the new tip is looked up in the build-status table; '
        'non-trivial = the history queued, merged or changed branches')


def correspondence(ctx):
    res = syscheck.run_histories(ctx, PID, 160, 4000, RULE)
    # end-to-end phase: direct merges (queue skipped) decided by the composed model from the host's build table
    from . import evalsys
    evalsys.phase(ctx, res, PID)
    from . import selectsys       # additional phase: the selection is computed by the model, not read from the run
    res.merge(selectsys.phase(ctx, PID))
    # the CLOSED system (Model/Full.lean, C03_full_*): whole histories predicted from webhook-level events; C03 oracle
    # on every movement of a destination (harness/fullsys.py)
    from . import fullsys
    fullsys.phase(ctx, res, PID)
    return res


def replay(ctx, payload):
    from . import evalsys, fullsys
    if fullsys.is_mine(payload):
        return fullsys.replay(ctx, payload)
    if evalsys.is_mine(payload):
        return evalsys.replay(ctx, payload)
    inp = payload['failure']['input'] if 'failure' in payload else payload.get('input', {})
    if isinstance(inp, dict) and inp.get('phase') == 'selectsys':
        from . import selectsys
        return selectsys.replay(ctx, PID, inp)
    return syscheck.replay_history(ctx, PID, payload)
