"""C15 under a transient failure of ONE read-side git command of the job that executes `reset` (helper of harness/c15.py).

The histories of harness/c15.py let every git command of Bert-E reach real git. Here ONE command of the evaluation that
executes the `reset` comment fails once with the `CommandError` that `bert_e.lib.simplecmd.cmd` raises for a command
returning non-zero (the refresh `git fetch --prune` of the mirror cache ~/.bert-e/<slug>.git, `git clone --mirror`,
`git remote update`, a checkout, a `git log`, a rev-parse ...): every command the job issues before its last
`git push`, one at a time. The wrapper is the one of harness/c08_faults.py (around `bert_e.lib.git.cmd`; it numbers the
commands of Bert-E and leaves alone what the mock git host runs in the bare repository).

Histories (`SCRIPT`, scripted, every run), in the vocabulary of harness/c15.py:
  (i)   a first evaluation of the pull request fills the mirror cache and creates the integration branches (a second
        pull request with a similar source name is a bystander / moves a destination);
  (ii)  the developer pushes a commit on an integration branch (`w_commit`), merges the moved destination into it by
        hand (`w_merge`), or starts it again from the destination tip with a merge of the source (`w_create`, forced
        push) - with and without a later evaluation (which refreshes the cache) and further work after it;
  (iii) the author comments `reset` (never force_reset here) and the pull request is evaluated with the fault.
The world is snapshotted (directory copy) before (iii); the job runs once without fault in a forked child to list its
commands, then once per selected command index k with the failure of command k injected, each time from the snapshot.
After a fault in a command that writes the mirror cache or fills the clone from it (thorough: anywhere in the clone
phase) the pull request is evaluated once more without fault: the `reset` comment is still unanswered and the cache the
faulted job left behind is the one this evaluation starts from.

Oracle = C15's own sentence, judged on the real remote after the job, independent of the model: "The reset command
refuses, deleting nothing, whenever an integration branch of the pull request holds a commit that is not the robot's
...; only force_reset discards such work". Whether manual work is held is decided as in `c15.oracle_reset`
(`c15.held_work`: ghost sets `manual` / `ever` + the real graph). If it is, then after the (non-forced) `reset`,
WHATEVER THE JOB ANSWERED (LossyResetWarning, ResetComplete, CommandError, anything else): no branch of the remote has
been deleted, every integration branch of the pull request still exists and every held commit is still reachable from
an integration branch of the pull request. Key: KEY. When the job answered ResetComplete / LossyResetWarning the other
clauses of `c15.oracle_reset` (refusal changes nothing, scope of a completed reset) are judged too, their keys
prefixed with KEY_PREFIX."""
import os
import shutil
import time
import traceback

from . import c08
from . import c08_faults as CF
from . import common

KEY_PREFIX = 'reset-under-fault/'
KEY = KEY_PREFIX + 'manual-work-discarded'
# What the UNCHANGED code shows under one of these faults (reported to the coordinator, see `judge`): `Branch.exists()`
# is `git checkout <name>` inside try/except, so ONE failed `git checkout w/X/<src>` makes `get_integration_branches`
# skip the integration branch that holds the manual work; `_reset` then sees no such work on the others, answers
# ResetComplete and deletes THEM (the skipped branch and the manual commit survive: the local head is still in the
# clone, the pruning push leaves it alone). The sentence of the property ("refuses, deleting nothing") is not met, but
# no manual work is discarded. It is kept apart from KEY: an oracle failure with the key KEY_PARTIAL is recorded only
# once that key is listed in KNOWN_FINDINGS.txt (the convention of corpus/C20/known); until then it is counted
# (`faults:observation:...`) and its witnesses are put in the evidence (`reset_fault_observations`).
KEY_PARTIAL = KEY_PREFIX + 'reset-completed-on-the-other-integration-branches'

D3 = ['development/4.3', 'development/5.1', 'development/10.0']
D4S = ['development/4.3', 'stabilization/5.1.4', 'development/5.1', 'development/10.0']
SRC = 'bugfix/TEST-0001'


def _open(dst='development/4.3', other_dst='development/4.3'):
    return [{'op': 'open', 'pr': 1, 'dst': dst, 'src': SRC},
            {'op': 'open', 'pr': 2, 'dst': other_dst, 'src': SRC + '0'}]


RESET = {'op': 'reset', 'pr': 1, 'force': False}
# WARM: one more job of the robot (a third pull request is opened and evaluated) right before the manual work. Every job
# refreshes the mirror cache when it STARTS: the integration branches that the first evaluation of pull request 1 pushed
# are in the cache only after a later job. In the 'warm' variant of a history the cache therefore holds the integration
# branches as they were before the manual work (a stale clone made from it does not see that work); in the 'cold'
# variant (WARM left out) the cache may not know these branches at all.
WARM = {'op': 'WARM'}
WARM_EVENTS = [{'op': 'open', 'pr': 3, 'dst': 'development/5.1', 'src': 'bugfix/TEST-0003'}, {'op': 'eval_pr', 'pr': 3}]
SCRIPT = [
    # label, mode, dests, tags, integration pull requests, events, the cold variant too
    ('commit-on-last', 'noqueue', D3, [], False,
     _open() + [{'op': 'eval_pr', 'pr': 2}, {'op': 'eval_pr', 'pr': 1}, WARM,
                {'op': 'w_commit', 'pr': 1, 't': 1}, RESET], True),
    ('commit-on-first+integration-prs', 'queue', D3, [], True,
     _open() + [{'op': 'eval_pr', 'pr': 1}, {'op': 'eval_pr', 'pr': 2}, WARM,
                {'op': 'w_commit', 'pr': 1, 't': 0}, RESET], False),
    ('hand-merge-of-moved-destination', 'noqueue', D3, [], False,
     _open(other_dst='development/5.1') + [{'op': 'eval_pr', 'pr': 1}, {'op': 'eval_pr', 'pr': 2},
                                           {'op': 'progress', 'pr': 2},            # merged: 5.1 and 10.0 move
                                           WARM, {'op': 'w_merge', 'pr': 1, 't': 0, 'what': 'dst'}, RESET], False),
    ('recreated-by-hand', 'queue-skip', D3, [], False,
     _open() + [{'op': 'eval_pr', 'pr': 1}, {'op': 'src_commit', 'pr': 1, 'shared': None}, WARM,
                {'op': 'w_create', 'pr': 1, 't': 0, 'what': 'src'}, RESET], True),
    ('evaluated-since+more-work', 'noqueue', D3, [], True,
     _open() + [{'op': 'eval_pr', 'pr': 1}, WARM, {'op': 'w_commit', 'pr': 1, 't': 0}, {'op': 'eval_pr', 'pr': 1},
                {'op': 'w_commit', 'pr': 1, 't': 1}, RESET], False),
    ('stabilization+commit-and-merge', 'queue', D4S, ['5.1.3'], False,
     _open('stabilization/5.1.4', 'development/5.1') + [
         {'op': 'eval_pr', 'pr': 1}, {'op': 'eval_pr', 'pr': 2}, {'op': 'progress', 'pr': 2}, {'op': 'progress', 'pr': 2},
         WARM, {'op': 'w_merge', 'pr': 1, 't': 0, 'what': 'dst'}, {'op': 'w_commit', 'pr': 1, 't': 1}, RESET], False),
]
NSHARD = 2


def scripted():
    """[(label, cfg, events)]"""
    from .system import Config
    out = []
    for label, mode, dests, tags, prs, evs, cold in SCRIPT:
        for variant in ('warm', 'cold') if cold else ('warm',):
            cfg = Config(dests, tags, use_queue=mode != 'noqueue', skip_queue=mode == 'queue-skip', no_octopus=False,
                         create_prs=prs, create_branches=True, peers=0, leaders=0, author_approval=False,
                         options=['bypass_jira_check'])
            es = []
            for e in evs:
                if e is WARM:
                    es += [dict(x) for x in WARM_EVENTS] if variant == 'warm' else []
                else:
                    es.append(dict(e))
            out.append(('%s:%s' % (label, variant), cfg, es))
    return out


# ----------------------------------------------------------------------------- the job, with and without fault

def _observe_before(run, ev):
    from . import c15
    w = run.w
    pr = run.prs[ev['pr']]
    before = w.refs()
    wnames, held = c15.held_work(run, ev['pr'], pr, before)
    return pr, before, sorted(wnames), held


def _evaluate(run, pr, k):
    """one evaluation of the pull request with the failure of command k (None: no fault)"""
    w = run.w
    CF.F.update(on=True, log=[], fail=k, raised=None, bare=os.path.realpath(w.bare), cloned=False, mismatch=[])
    try:
        try:
            status = w.eval_pr(pr['id'])
        except Exception as e:
            status = 'raised:' + type(e).__name__
    finally:
        CF.F['on'] = False
    return status, [list(x) for x in CF.F['log']], CF.F['raised']


def judge(run, pr, before, wnames, held, status, after, what):
    """the sentence of the property on the real remote after a NON-forced reset. Returns (failures with the key KEY,
    the observation KEY_PARTIAL or None)"""
    if not held:
        return [], None
    deleted = sorted(n for n in before if n not in after)
    lost = [m for m in held if not any(m['sha'] in run.reach(after[n]) for n in wnames if n in after)]
    holders = sorted({m['branch'] for m in held})
    gone_holders = [n for n in holders if n not in after]
    if not deleted and not lost:
        return [], None
    obs = {'status': status, 'held': [(m['kind'], m['branch'], m.get('how')) for m in held],
           'integration_branches': wnames, 'deleted': deleted,
           'moved': sorted(n for n in after if n in before and after[n] != before[n])}
    text = ('%s: the job answered %s; %s held %s made by hand (%s); after the job: branches deleted %s; manual '
            'commits no longer reachable from an integration branch of the pull request: %s'
            % (what, status, held[0]['branch'], 'a merge commit' if held[0]['kind'] == 'merge' else 'a commit',
               held[0]['sha'][:8], deleted or 'none', [m['sha'][:8] for m in lost] or 'none'))
    if lost or gone_holders:
        return [{'key': KEY, 'what': text, 'observation': obs}], None
    return [], {'key': KEY_PARTIAL, 'what': text + ' (the branches that hold the manual work are still there)',
                'observation': obs}


def _other_clauses(run, ev, pr, before, host_before, status, after, what):
    """the remaining clauses of c15.oracle_reset when the command was answered (keys prefixed)"""
    from . import c15
    if status not in ('ResetComplete', 'LossyResetWarning'):
        return []
    info = {'kind': 'reset', 'pr': pr, 'force': False, 'status': status, 'before': before, 'after': after,
            'host_before': host_before, 'host_after': run.w.prs()}
    fails, _, _ = c15.oracle_reset(run, ev, info)
    out = []
    for f in fails:
        if f['key'] in (c15.KEY_MERGE, c15.KEY_COMMIT, 'not-rebuilt'):
            continue              # the first two are KEY, judged above whatever the answer
        f = dict(f)
        f['key'] = KEY_PREFIX + f['key']
        f['what'] = what + ': ' + f['what']
        out.append(f)
    return out


def _child(run, ev, k, redeliver):
    """in a forked child: the comment, the evaluation with fault k, the judgement; then (redeliver) one more evaluation"""
    from .system import CONTRIB
    w = run.w
    pr, before, wnames, held = _observe_before(run, ev)
    host_before = w.prs()
    w.comment(pr['id'], CONTRIB, '@robot reset')
    status, log, raised = _evaluate(run, pr, k)
    after = w.refs()
    what = 'reset' if k is None else 'reset with one failure of `%s` (command %d)' % (CF.norm(raised or '-'), k)
    out = {'status': status, 'raised': raised, 'held': [(m['kind'], m['branch'], m.get('how')) for m in held],
           'wnames': wnames, 'changed': after != before}
    if k is None:
        out['log'] = log
        from . import c15
        info = {'kind': 'reset', 'pr': pr, 'force': False, 'status': status, 'before': before, 'after': after,
                'host_before': host_before, 'host_after': w.prs()}
        out['failures'] = c15.oracle_reset(run, ev, info)[0] if status in ('ResetComplete', 'LossyResetWarning') else []
        out['failures'] = [f for f in out['failures'] if f['key'] != 'not-rebuilt']
        return out
    out['pushes_after'] = [c for c, _ in log[k + 1:] if CF.is_push(c)][:6]
    out['failures'], out['partial'] = [], []

    def judged(*a):
        fails, partial = judge(run, pr, *a)
        if partial:
            out['partial'].append(partial)       # its consequences (scope of a completed reset) are not listed again
        return fails, not fails and not partial
    if raised:
        out['failures'], clean = judged(before, wnames, held, status, after, what)
        if clean:
            out['failures'] += _other_clauses(run, ev, pr, before, host_before, status, after, what)
    if redeliver and raised:
        before2 = after
        wn2, held2 = _observe_before(run, ev)[2:]
        host2 = w.prs()
        status2, _, _ = _evaluate(run, pr, None)
        after2 = w.refs()
        what2 = 'next evaluation (no fault) after ' + what
        out['redelivered'] = status2
        fails2, clean = judged(before2, wn2, held2, status2, after2, what2)
        out['failures'] += fails2
        if clean:
            out['failures'] += _other_clauses(run, ev, pr, before2, host2, status2, after2, what2)
    return out


def run_unit(cfg, evs, base, mode, shard=(0, 1), thorough=False, only_k=None):
    """play the history up to its last event (the reset) without fault, enumerate the faults of the resetting job"""
    from . import c15
    CF.install()
    run = c15.make_run(cfg, base)
    out = {'prefix': [], 'faults': [], 'dry': None}
    try:
        run.note_tips()
        for ev in evs[:-1]:
            kind, info = run.execute(ev)
            if kind != 'skip':
                run.note_tips()
            out['prefix'].append([ev['op'], kind, (info or {}).get('status') if isinstance(info, dict) else None])
        ev = evs[-1]
        assert ev['op'] == 'reset' and not ev.get('force'), ev
        if ev['pr'] not in run.prs:
            return out
        w = run.w
        if only_k is not None:
            x = c08._in_child(lambda: _child(run, ev, only_k, True))
            x.update(k=only_k, command=x['raised'], where='?')
            out['faults'].append(x)
            return out
        snap = w.dir.rstrip('/') + '.fsnap'
        shutil.rmtree(snap, ignore_errors=True)
        c08._copy(w.dir, snap)
        try:
            dry = c08._in_child(lambda: _child(run, ev, None, False))
            c08._restore(w, snap)
            log = dry.pop('log')
            dry['commands'] = len(log)
            out['dry'] = dry
            ks = CF.select(log, mode)
            dry['selected'] = len(ks)
            end = CF._clone_end(log)
            for k in ks[shard[0]::shard[1]]:
                redeliver = CF.leaves_state(*log[k]) or (thorough and k <= end)
                x = c08._in_child(lambda: _child(run, ev, k, redeliver))
                c08._restore(w, snap)
                x.update(k=k, command=log[k][0], where=log[k][1])
                if x['raised'] != log[k][0]:
                    x['drift'] = True
                out['faults'].append(x)
        finally:
            shutil.rmtree(snap, ignore_errors=True)
    finally:
        run.close()
    return out


# ----------------------------------------------------------------------------- pool work and collection

def units(tier):
    out = []
    for label, cfg, evs in scripted():
        for i in range(NSHARD):
            out.append((label, cfg.as_dict(), evs, 'all', (i, NSHARD), tier != 'quick'))
    return out


def work(args):
    from .system import Config
    label, cfgd, evs, mode, shard, thorough, base = args
    cfgd2 = dict(cfgd)
    cfg = Config(cfgd2.pop('dests'), **cfgd2)
    t0 = time.time()
    try:
        out = run_unit(cfg, evs, base, mode, shard, thorough)
    except Exception:
        return {'error': traceback.format_exc()[-3000:], 'label': label}
    out.update(label=label, cfg=cfgd, events=evs, shard=shard, mode=mode, seconds=round(time.time() - t0, 1))
    return out


def submit(pool, ctx, base):
    us = units(ctx.tier)
    return pool.map_async(work, [u + (base,) for u in us], chunksize=1)


def collect(res, outs):
    errors = [o for o in outs if 'error' in o]
    if errors:
        raise RuntimeError('C15 fault harness failed on %d units; first (%s): %s'
                           % (len(errors), errors[0]['label'], errors[0]['error']))
    summary = res.extra.setdefault('reset_fault_scripted', {})
    nfault = 0
    known = {k['key'] for k in common.known_findings() if k['property'] == 'C15'}
    for o in outs:
        inp = {'cfg': o['cfg'], 'events': o['events']}
        s = summary.setdefault(o['label'], {'faults': 0, 'outcomes': {}, 'seconds': 0})
        s['seconds'] = round(s['seconds'] + o.get('seconds', 0), 1)
        dry = o['dry']
        first = o.get('shard', (0, 1))[0] == 0
        if dry is not None and first:
            res.evaluations += 1
            res.count('faults:reset-without-fault:%s' % dry['status'])
            res.count('faults:held:%s' % ('+'.join(sorted({'%s/%s' % (h[0], h[2]) for h in dry['held']})) or 'NOTHING'))
            s.update(without_fault=dry['status'], commands=dry['commands'], selected=dry['selected'],
                     held=dry['held'], prefix=o['prefix'])
            for f in dry['failures']:
                f = dict(f)
                f['input'] = inp
                res.oracle_failures.append(f)
        for x in o['faults']:
            nfault += 1
            res.evaluations += 1
            res.count('faults:failed:%s [%s]' % (CF.verb(x['command'] or '?'), x['where']))
            res.count('faults:job-outcome:%s' % x['status'])
            res.count('faults:remote-after-the-job:%s' % ('changed' if x['changed'] else 'untouched'))
            if x.get('redelivered'):
                res.count('faults:next-evaluation:%s' % x['redelivered'])
            if x.get('drift'):
                res.count('faults:command-index-drift')
            res.count('faults:pushes-after-the-failure:%s' % ('some' if x['pushes_after'] else 'none')
                      if 'pushes_after' in x else 'faults:replayed')
            res.distinct.add('reset-fault|%s|%s|%s|%s' % (o['label'], CF.norm(x['command'] or '?'), x['where'], x['status']))
            s['faults'] += 1
            s['outcomes'][x['status']] = s['outcomes'].get(x['status'], 0) + 1
            finp = dict(inp, fault={'k': x['k'], 'command': CF.norm(x['command'] or '-')})
            for f in x['failures']:
                f = dict(f)
                f['input'] = finp
                res.count('faults:oracle:%s' % f['key'])
                res.oracle_failures.append(f)
            for f in x.get('partial', []):
                f = dict(f)
                f['input'] = finp
                if f['key'] in known:
                    res.count('faults:oracle:%s' % f['key'])
                    res.oracle_failures.append(f)
                else:
                    res.count('faults:observation:%s (not an oracle failure: see harness/c15_faults.py)' % f['key'])
                    res.extra.setdefault('reset_fault_observations', []).append(f)
    res.extra['reset_fault_runs'] = res.extra.get('reset_fault_runs', 0) + nfault
    return res


def replay(ctx, inp):
    """a failing input of this module: {'cfg', 'events' (the last one is the reset), 'fault': {'k', 'command'}}"""
    from .pipeline import Result
    from .system import Config
    cfgd = dict(inp['cfg'])
    cfg = Config(cfgd.pop('dests'), **cfgd)
    out = run_unit(cfg, inp['events'], common.scratch(), 'all', only_k=inp['fault']['k'])
    out.update(label='replay', cfg=cfg.as_dict(), events=inp['events'])
    return collect(Result(), [out])


def is_fault_input(inp):
    return isinstance(inp, dict) and isinstance(inp.get('fault'), dict) and 'k' in inp['fault']
