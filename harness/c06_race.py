"""C06, race phase: the build gate while a third party pushes during the evaluating job.

What is run.  The real BertE + mock host + real git (harness/system.py `World`).  A scenario drives one pull request
to the point where every integration commit (source tip and every w/ tip) has a SUCCESSFUL build under the build key
and no bypass of the build check is active, so that the next evaluation of the pull request would queue it (queue
mode), merge it directly (queue mode with skip_queue_when_not_needed and an empty queue; no-queue mode).  That next
evaluation - the *evaluating job* - is then run once undisturbed (baseline: it must enter) and once per (interleaving
point, third-party action): every command of Bert-E's git layer and of the mock host's git access goes through
`bert_e.lib.git.cmd`, every call of the host API goes through a method of `mock.Repository` /
`mock.PullRequestController`; both are wrapped here, every such call of the job is an *operation*, operation k of
the job is interleaving point k, and "inject at k" means: just before operation k executes, a third party (the
developer's own clone, World.user_commit / user_amend) pushes a new commit WITHOUT any build status on the source
branch (fast-forward commit, or amend + forced push) or on one of the w/ branches of the pull request.  Points run
from the first operation of the job up to (and including) its last push of the undisturbed run.  Every run starts
from the same on-disk snapshot of the world in a forked child.

Oracle (on the real remote and host, no model involved).  The property: "a pull request enters the queue (or is merged
directly) only if every integration commit - the source branch tip for the first target and each w/ branch tip for
the others - has a SUCCESSFUL status under the configured build key".  With a concurrent writer "the tip" must be
dated.  A job can only know a tip through an operation that tells it: the oracle therefore takes, for every
integration branch X, the tip of X on the remote AT THE LAST OPERATION OF THE JOB THAT OBSERVED X before the push with
which the pull request entered (first push after which q/w/<id>/... exists or a destination branch moved), and
demands SUCCESSFUL under the build key for exactly these commits.  The operations that observe X are defined on the
operation log alone, not on what the code does with the answer:

  (a) a fetch from the real remote: `git fetch` (mirror cache), `git remote update`, `git ls-remote`,
      `git clone <remote>`: observes every branch;
  (b) a SUCCESSFUL `git push` that pushes X (named explicitly, or `--all` when X still exists afterwards): git
      refuses it unless the remote tip of X is an ancestor of the pushed one, and afterwards the remote tip IS the
      pushed one;
  (c) a host call that returns pull-request objects whose source branch is X (`get_pull_request`,
      `get_pull_requests(src_branch=[.. X ..])` with an open pull request from X, `create_pull_request`): a git
      host reports the current source commit of the pull request in that answer (`src_commit`; the mock computes it
      lazily from the bare repository, which is why the observation is dated by the call and not by the attribute
      access).

Where the last read is in the unchanged code (bert_e/workflow/gitwaterflow/__init__.py `_handle_pull_request`):
source branch: `get_pull_requests` in create_integration_pull_requests, whose answer check_pull_request_skew compares
with the clone (only when integration pull requests exist: always_create_integration_pull_requests or
create_pull_requests), else the `git remote update` of clone_git_repo; in no-queue mode and on a direct merge also the
final `git push --all --atomic --prune`.  w/ branches: push(wbranches[1:]) right after update_integration_branches,
then the same get_pull_requests/skew check.  A commit pushed by the third party AFTER the last observing operation
cannot be known to the job and is not held against it (this is the window the property cannot close: without
integration pull requests it extends from the clone to the queue push for the source branch).

Quick tier: one injection per equivalence class of points.  A third party that pushes on branch B changes nothing but
the ref B of the remote, so consecutive points between which no operation can depend on that ref lead to the same run;
the representative of a class is the point just before the next operation that can: every git command of the job that
is not in a whitelist of purely local sub-commands (LOCAL_GIT, `git remote add/remove`, the clone from the mirror
cache), and every git command the host runs in the bare repository except `merge-base` / `rev-parse` on other
branches.  Besides the representatives, PRNG-chosen other points are run and their outcome must equal the outcome of
their representative (self-check of the reduction; a difference is a harness error).  Thorough tier: every point of
the scripted scenarios.
"""
import json
import os
import re
import shlex
import shutil
import subprocess
import tempfile
import time
import traceback
from multiprocessing import get_context

from . import common
from .system import Config, World

KEY = 'pre-merge'
FAILURE_KEY = 'race-gate'

# git sub-commands of Bert-E's git layer that never talk to a remote
LOCAL_GIT = {'checkout', 'merge', 'rev-parse', 'log', 'merge-base', 'branch', 'reset', 'config', 'diff', 'cat-file',
             'show', 'status', 'init', 'commit', 'add', 'rev-list', 'for-each-ref', 'tag'}
HOST_REPO_METHODS = ('get_pull_request', 'get_pull_requests', 'create_pull_request', 'get_build_status',
                     'get_build_url', 'get_commit_url', 'set_build_status', 'invalidate_build_status_cache')
HOST_PR_METHODS = ('add_comment', 'get_comments', 'get_approvals', 'get_participants', 'get_change_requests',
                   'merge', 'decline', 'approve', 'set_bot_status', 'get_tasks', 'request_changes', 'dismiss')

HOOK = {'on': False, 'log': [], 'inject': None, 'watch': (), 'bare': None}
_INSTALLED = False


# ----------------------------------------------------------------------------- instrumentation

def _bare_refs():
    out = subprocess.run(['git', 'for-each-ref', '--format=%(refname) %(objectname)', 'refs/heads'],
                         cwd=HOOK['bare'], stdout=subprocess.PIPE, text=True).stdout
    return {l.split()[0][len('refs/heads/'):]: l.split()[1] for l in out.splitlines()}


def _point(rec):
    """operation `rec` of the job is about to execute: interleaving point len(log)"""
    i = len(HOOK['log'])
    inj = HOOK['inject']
    if inj is not None and not inj['done'] and i == inj['k']:
        inj['done'] = True
        HOOK['on'] = False
        try:
            inj['fn'](inj)
        finally:
            HOOK['on'] = True
    rec['i'] = i
    HOOK['log'].append(rec)
    return rec


def _watched(refs):
    return {x: refs[x] for x in HOOK['watch'] if x in refs}


def classify_git(command, cwd):
    """(sub-command, where, kind) of a git command; kind in local / fetch / push / host / other"""
    try:
        argv = shlex.split(command)
    except ValueError:
        argv = command.split()
    sub = argv[1] if len(argv) > 1 and argv[0] == 'git' else '?'
    bare = HOOK['bare']
    where = 'bare' if cwd and bare and os.path.realpath(cwd) == os.path.realpath(bare) else 'job'
    if where == 'bare':
        return sub, where, 'host', argv
    if sub == 'push':
        return sub, where, 'push', argv
    if sub in ('fetch', 'ls-remote', 'pull') or (sub == 'remote' and argv[2:3] == ['update']):
        return sub, where, 'fetch', argv
    if sub == 'clone':
        srcs = [os.path.realpath(a) for a in argv[2:] if not a.startswith('-')]
        if bare and os.path.realpath(bare) in srcs:
            return sub, where, 'fetch', argv
        cache = os.path.realpath(os.path.join(os.path.expanduser('~'), '.bert-e'))
        return sub, where, ('local' if any(x.startswith(cache + os.sep) for x in srcs) else 'other'), argv
    if sub in LOCAL_GIT or (sub == 'remote' and argv[2:3] in (['add'], ['remove'])):
        return sub, where, 'local', argv
    return sub, where, 'other', argv


def insensitive_to(rec):
    """integration branches whose remote ref this operation cannot depend on: purely local commands and host calls
    that do not touch the bare repository themselves (all of them), and the host's `git merge-base` / `git rev-parse`
    in the bare repository when the branch is not among the arguments"""
    if rec['kind'] in ('local', 'hostcall'):
        return list(HOOK['watch'])
    if rec['kind'] == 'host' and rec['sub'] in ('merge-base', 'rev-parse'):
        return [x for x in HOOK['watch'] if x not in rec['argv']]
    return []


def install():
    global _INSTALLED
    if _INSTALLED:
        return
    from . import system
    system._patch()
    import bert_e.lib.git as libgit
    import bert_e.git_host.mock as mock
    orig_cmd = libgit.cmd

    def shim(command, *a, **kw):
        if not (HOOK['on'] and isinstance(command, str)):
            return orig_cmd(command, *a, **kw)
        sub, where, kind, argv = classify_git(command, kw.get('cwd'))
        rec = {'op': 'git', 'cmd': command[:160], 'sub': sub, 'where': where, 'kind': kind, 'argv': argv[2:]}
        rec['blind'] = insensitive_to(rec)
        _point(rec)
        if kind == 'fetch':
            rec['reads'] = _watched(_bare_refs())
        try:
            out = orig_cmd(command, *a, **kw)
        except Exception as e:
            rec['failed'] = type(e).__name__
            raise
        if kind == 'push':
            refs = _bare_refs()
            rec['refs_after'] = refs
            names = [x for x in argv[2:] if not x.startswith('-') and x != 'origin']
            if '--all' in argv:
                rec['reads'] = _watched(refs)
            else:
                rec['reads'] = {x: refs[x] for x in names if x in HOOK['watch'] and x in refs}
        return out

    libgit.cmd = shim

    def open_sources():
        return {it.source['branch']['name'] for it in mock.PullRequest.items if it._state == 'OPEN'}

    def wrap(cls, name):
        orig = cls.__dict__.get(name)
        if orig is None or not callable(orig):
            return

        def method(self, *a, **kw):
            if not HOOK['on']:
                return orig(self, *a, **kw)
            seen = set()
            if cls is mock.Repository and name == 'get_pull_requests':
                want = kw.get('src_branch', a[1] if len(a) > 1 else None)
                want = [want] if isinstance(want, str) else list(want or HOOK['watch'])
                seen = set(want) & open_sources()
            elif cls is mock.Repository and name == 'create_pull_request':
                seen = {kw.get('src_branch', a[1] if len(a) > 1 else None)}
            elif cls is mock.Repository and name == 'get_pull_request':
                pid = kw.get('pull_request_id', a[0] if a else None)
                seen = {it.source['branch']['name'] for it in mock.PullRequest.items if it.id == pid}
            seen &= set(HOOK['watch'])
            # an operation that observes a branch (for the oracle) is never blind to it
            rec = _point({'op': 'host', 'cmd': '%s.%s' % (cls.__name__, name), 'kind': 'hostcall',
                          'blind': [x for x in HOOK['watch'] if x not in seen]})
            if seen:
                refs = _bare_refs()
                rec['reads'] = {x: refs[x] for x in seen if x in refs}
            return orig(self, *a, **kw)
        method.__name__ = name
        setattr(cls, name, method)

    for n in HOST_REPO_METHODS:
        wrap(mock.Repository, n)
    for n in HOST_PR_METHODS:
        wrap(mock.PullRequestController, n)
    _INSTALLED = True


# ----------------------------------------------------------------------------- scenarios

D43, D51, D100 = 'development/4.3', 'development/5.1', 'development/10.0'
LAYOUTS = {
    '1': ([D43], []),
    '2': ([D43, D51], []),
    '3': ([D43, D51, D100], []),
    's': ([D43, 'stabilization/5.1.4', D51, D100], ['5.1.3']),
}
SRC = 'bugfix/TEST-0002'


def scripted_scenarios():
    """queue / queue+skip / no queue x with / without integration pull requests x 1-3 targets"""
    out = []
    for mode in ('queue', 'queue-skip', 'noqueue'):
        for create_prs in (True, False):
            for n in (1, 2, 3):
                out.append({'layout': '3', 'dst': [D100, D51, D43][n - 1], 'mode': mode, 'create_prs': create_prs,
                            'commits': 1, 'prior': False, 'no_octopus': False, 'src_action': 'commit'})
    return out


def seeded_scenario(rng):
    layout = rng.choice(['1', '2', '3', '3', 's'])
    dests = LAYOUTS[layout][0]
    mode = rng.choice(['queue', 'queue', 'queue-skip', 'noqueue'])
    return {'layout': layout, 'dst': rng.choice(dests), 'mode': mode, 'create_prs': rng.random() < 0.6,
            'commits': rng.choice([1, 2]), 'prior': mode != 'noqueue' and rng.random() < 0.5,
            'no_octopus': rng.random() < 0.3, 'src_action': rng.choice(['commit', 'amend'])}


def config_of(sc):
    dests, tags = LAYOUTS[sc['layout']]
    return Config(dests, tags, use_queue=sc['mode'] != 'noqueue', skip_queue=sc['mode'] == 'queue-skip',
                  no_octopus=sc['no_octopus'], create_prs=sc['create_prs'], create_branches=True,
                  peers=0, leaders=0, author_approval=False, options=['bypass_jira_check'])


class Prepared:
    """a world in which the next evaluation of pull request `pr_id` passes every gate"""

    def __init__(self, sc, base):
        install()
        self.sc = sc
        self.base = base
        self.w = w = World(config_of(sc), base)
        self.setup = []
        if sc['prior']:
            # another pull request is already queued: the queue is not empty (queue+skip must then queue, too)
            other = w.open_pr('feature/TEST-0001', sc['dst'])
            self.setup.append(w.eval_pr(other))
            self._green('feature/TEST-0001')
            self.setup.append(w.eval_pr(other))
        self.pr_id = w.open_pr(SRC, sc['dst'])
        for _ in range(sc['commits'] - 1):
            w.user_commit(SRC)
        self.setup.append(w.eval_pr(self.pr_id))
        self.watch = self._green(SRC)
        self.refs = w.refs()
        self.snap = tempfile.mkdtemp(prefix='snap.', dir=base)
        os.rmdir(self.snap)
        subprocess.run(['cp', '-a', w.dir, self.snap], check=True)

    def _green(self, src):
        w = self.w
        refs = w.refs()
        names = [src] + sorted(n for n in refs if re.match(r'^w/[0-9.]+/%s$' % re.escape(src), n))
        for n in names:
            w.set_build(refs[n], 'SUCCESSFUL')
        return names

    def restore(self):
        shutil.rmtree(self.w.dir, ignore_errors=True)
        subprocess.run(['cp', '-a', self.snap, self.w.dir], check=True)

    def close(self):
        shutil.rmtree(self.snap, ignore_errors=True)
        self.w.close()

    def actions(self):
        acts = [['src', self.sc['src_action']]]
        acts += [['w', j, 'commit'] for j in range(len(self.watch) - 1)]
        return acts

    # -- one run of the evaluating job in a forked child -------------------------------------------------------
    def run(self, action=None, k=None):
        out = _in_child(lambda: self._run(action, k))
        self.restore()
        return out

    def _third_party(self, action):
        w = self.w

        def fn(inj):
            name = self.watch[0] if action[0] == 'src' else self.watch[1 + action[1]]
            before = w.refs().get(name)
            if action[-1] == 'amend':
                w.user_amend(name)
            else:
                w.user_commit(name)
            inj.update(branch=name, old=before, new=w.refs().get(name))
        return fn

    def _run(self, action, k):
        w = self.w
        HOOK.update(log=[], watch=tuple(self.watch), bare=w.bare,
                    inject=None if action is None else {'k': k, 'done': False, 'fn': self._third_party(action)})
        before = w.refs()
        ncomments = len(w.mock.Comment.items)
        HOOK['on'] = True
        try:
            status = w.eval_pr(self.pr_id)
        finally:
            HOOK['on'] = False
        inj = HOOK['inject']
        after = w.refs()
        shas = set(before.values()) | set(after.values())
        for rec in HOOK['log']:
            shas |= set((rec.get('reads') or {}).values())
        if inj:
            shas |= {inj.get('old'), inj.get('new')}
        return {'status': status, 'log': HOOK['log'], 'before': before, 'after': after,
                'builds': {s: w.build_of(s, KEY) for s in shas if s},
                'bypass': 'bypass_build_status' in w.cfg.options,
                'new_comments': len(w.mock.Comment.items) - ncomments,
                'inject': None if inj is None else {x: inj.get(x) for x in ('k', 'done', 'branch', 'old', 'new')},
                'pr': self.pr_id, 'watch': list(self.watch)}


def _in_child(fn):
    r, wfd = os.pipe()
    pid = os.fork()
    if pid == 0:
        code = 0
        try:
            os.close(r)
            try:
                out = {'ok': fn()}
            except BaseException:
                out = {'error': traceback.format_exc()[-3000:]}
            with os.fdopen(wfd, 'w') as fh:
                json.dump(out, fh, default=str)
        except BaseException:
            code = 1
        finally:
            os._exit(code)
    os.close(wfd)
    with os.fdopen(r) as fh:
        data = fh.read()
    os.waitpid(pid, 0)
    if not data:
        raise RuntimeError('c06_race: child died without an answer')
    out = json.loads(data)
    if 'error' in out:
        raise RuntimeError('c06_race: child failed: %s' % out['error'])
    return out['ok']


# ----------------------------------------------------------------------------- the oracle

DEST_RE = re.compile(r'^(development|stabilization|hotfix)/[0-9.]+$')


def entered_state(before, refs, pr_id):
    new_q = sorted(n for n in refs if n.startswith('q/w/%d/' % pr_id) and n not in before)
    moved = sorted(n for n in refs if DEST_RE.match(n) and n in before and refs[n] != before[n])
    return new_q, moved


def judge(obs):
    """None, or the violation: the pull request entered although an integration commit, as the job last observed
    it before entering, has no SUCCESSFUL build."""
    before, pr_id = obs['before'], obs['pr']
    entered_at, how = None, None
    for rec in obs['log']:
        if rec.get('kind') == 'push' and 'refs_after' in rec:
            new_q, moved = entered_state(before, rec['refs_after'], pr_id)
            if new_q or moved:
                entered_at, how = rec['i'], (new_q, moved)
                break
    new_q, moved = entered_state(before, obs['after'], pr_id)
    if entered_at is None and (new_q or moved):
        entered_at, how = len(obs['log']), (new_q, moved)
    verdict = {'entered': entered_at is not None, 'entered_at': entered_at, 'bad': []}
    if entered_at is None or obs['bypass']:
        return verdict
    verdict['how'] = 'queued' if how[0] else 'merged'
    for x in obs['watch']:
        last = None
        for rec in obs['log']:
            if rec['i'] > entered_at:
                break
            if x in (rec.get('reads') or {}):
                last = rec
        if last is None:
            verdict['bad'].append({'branch': x, 'why': 'the job never observed this branch'})
            continue
        tip = last['reads'][x]
        st = obs['builds'].get(tip, 'NOTSTARTED')
        if st != 'SUCCESSFUL':
            verdict['bad'].append({'branch': x, 'commit': tip, 'build': st, 'observed_at_op': last['i'],
                                   'observed_by': last['cmd']})
    return verdict


def failure_of(sc, action, k, obs, verdict):
    b = verdict['bad'][0]
    inj = obs.get('inject') or {}
    return {'key': FAILURE_KEY,
            'what': 'pull request %s although %s is at %s (build %s) when the job last observed it (operation %s: %s); '
                    'third party pushed %s on %s before operation %s of the job; job status %s'
                    % (verdict.get('how'), b['branch'], str(b.get('commit'))[:12], b.get('build'),
                       b.get('observed_at_op'), b.get('observed_by'), str(inj.get('new'))[:12], inj.get('branch'),
                       inj.get('k'), obs['status']),
            'input': {'phase': 'race', 'scenario': sc, 'action': action, 'k': k},
            'observation': {'status': obs['status'], 'entered_at_op': verdict['entered_at'], 'bad': verdict['bad'],
                            'inject': inj,
                            'ops_around': [(r['i'], r['cmd'][:90]) for r in obs['log']
                                           if abs(r['i'] - (inj.get('k') or 0)) <= 2 or 'reads' in r][:30],
                            'new_refs': sorted(set(obs['after']) - set(obs['before']))}}


# ----------------------------------------------------------------------------- enumeration

def points_of(baseline, branch, every, rng, extra):
    """(representatives, other points to run, total): interleaving points of the evaluating job for a third party
    that pushes on `branch`"""
    log = baseline['log']
    pushes = [r['i'] for r in log if r.get('kind') == 'push']
    last = max(pushes) if pushes else len(log) - 1
    total = last + 1
    reps = [r['i'] for r in log[:total] if branch not in r['blind']]
    rest = [i for i in range(total) if i not in set(reps)]
    if every:
        return reps, rest, total
    return reps, sorted(rng.sample(rest, min(extra, len(rest)))), total


def class_rep(reps, i):
    return min((r for r in reps if r >= i), default=None)


def outcome_key(obs, verdict):
    return (obs['status'], verdict['entered'], bool(verdict['bad']))


def n_actions(sc):
    dests = LAYOUTS[sc['layout']][0]
    return 1 + sum(1 for d in dests[dests.index(sc['dst']) + 1:] if d.startswith('development/'))


def _work(args):
    idx, sc, seed, ai, base, every, extra = args
    t0 = time.time()
    try:
        prep = Prepared(sc, base)
    except Exception:
        return {'idx': idx, 'error': traceback.format_exc()[-3000:], 'sc': sc}
    try:
        out = {'idx': idx, 'sc': sc, 'ai': ai, 'setup': prep.setup, 'runs': [], 'failures': [], 'stats': {},
               'mismatch': []}
        st = out['stats']

        def count(kx, n=1):
            st[kx] = st.get(kx, 0) + n
        base_obs = prep.run()
        v0 = judge(base_obs)
        out['baseline'] = {'status': base_obs['status'], 'entered': v0['entered'], 'ops': len(base_obs['log']),
                           'reads': [(r['i'], r['cmd'][:60], sorted(r['reads'])) for r in base_obs['log']
                                     if r.get('reads')]}
        if v0['bad']:
            out['failures'].append(failure_of(sc, None, None, base_obs, v0))
        if not v0['entered']:
            return out          # the scenario is not ready: reported by the caller
        if len(prep.actions()) != n_actions(sc):
            raise RuntimeError('expected %d integration branches, found %s' % (n_actions(sc), prep.watch))
        action = prep.actions()[ai]
        branch = prep.watch[0] if action[0] == 'src' else prep.watch[1 + action[1]]
        rng = common.rng_for(seed, 'C06-race', idx, ai)
        reps, others, total = points_of(base_obs, branch, every, rng, extra)
        out['baseline'].update(points=total, classes=len(reps))
        memo = {}
        for k, is_rep in [(k, True) for k in reps] + [(k, False) for k in others]:
            obs = prep.run(action, k)
            if not obs['inject']['done']:
                count('point-not-reached')
                continue
            v = judge(obs)
            count('runs')
            count('outcome:' + obs['status'])
            count('action:' + '/'.join(map(str, action if action[0] == 'src' else ['w', action[2]])))
            count('entered-after-injection' if v['entered'] else 'blocked')
            if v['entered']:
                count('entered-%s' % v.get('how'))
            memo[k] = outcome_key(obs, v)
            out['runs'].append([action, k, obs['status'], v['entered']])
            if v['bad']:
                out['failures'].append(failure_of(sc, action, k, obs, v))
            if not is_rep:
                # self-check of the reduction: same outcome as the representative of its class
                r = class_rep(reps, k)
                if r is not None:
                    count('reduction-self-checks')
                    if memo[r] != memo[k]:
                        out['mismatch'].append({'action': action, 'k': k, 'rep': r, 'outcomes': [memo[k], memo[r]]})
        out['secs'] = round(time.time() - t0, 1)
        return out
    except Exception:
        return {'idx': idx, 'error': traceback.format_exc()[-3000:], 'sc': sc}
    finally:
        prep.close()


def scenarios_for(ctx):
    """quick: one scripted scenario per mode x integration-PR combination - 3 targets for queue mode with integration
    pull requests (the configuration with every guard: push of the w/ branches, skew check, queue), 3, 2 or 1 targets
    for the other five, rotating with the seed - and 4 seeded ones; thorough: all 18 scripted + 24 seeded"""
    quick = ctx.tier == 'quick'
    scs = []
    for j, sc in enumerate(scripted_scenarios()):
        combo, ntargets = j // 3, n_actions(sc)
        if quick:
            want = 3 if (sc['mode'] == 'queue' and sc['create_prs']) else [3, 2, 1][(combo + ctx.seed) % 3]
            if ntargets != want:
                continue
        scs.append(sc)
    n = int(os.environ.get('VERIF_C06_RACE', 4 if quick else 24)) * max(1, int(ctx.scale))
    for i in range(n):
        scs.append(seeded_scenario(common.rng_for(ctx.seed, 'C06-race-scenario', i)))
    return scs


def phase(ctx, res):
    """run the race scenarios and add what they found to `res`"""
    quick = ctx.tier == 'quick'
    scs = scenarios_for(ctx)
    nscripted = len(scs) - int(os.environ.get('VERIF_C06_RACE', 4 if quick else 24)) * max(1, int(ctx.scale))
    base = common.scratch()
    tasks = []
    for idx, sc in enumerate(scs):
        every = (not quick) and idx < nscripted
        for ai in range(n_actions(sc)):
            tasks.append((idx, sc, ctx.seed, ai, base, every, 1 if quick else 10))
    tasks.sort(key=lambda t: -n_actions(t[1]))      # the long jobs first
    with get_context('fork').Pool(common.NCPU) as pool:
        outs = pool.map(_work, tasks, chunksize=1)
    collect(res, outs)
    return outs


def collect(res, outs):
    errors = [o for o in outs if 'error' in o]
    if errors:
        raise RuntimeError('c06_race harness failed on %d scenario(s); first: %s' % (len(errors), errors[0]['error']))
    pre = 'race:'
    seen = set()
    points, classes = [], []
    for o in outs:
        sc = o['sc']
        if o['idx'] not in seen:
            seen.add(o['idx'])
            res.count(pre + 'scenarios')
            res.count(pre + 'mode:%s' % sc['mode'])
            res.count(pre + 'integration-prs:%s' % sc['create_prs'])
            res.count(pre + 'baseline:%s' % o['baseline']['status'])
            if not o['baseline']['entered']:
                raise RuntimeError('c06_race: the undisturbed evaluating job of scenario %s did not enter (%s, set-up %s)'
                                   % (sc, o['baseline']['status'], o['setup']))
            points.append(o['baseline']['points'])
            if len(res.samples) < 14 and len(seen) in (1, 6, 12):
                res.samples.append({'phase': 'race', 'scenario': sc, 'baseline': o['baseline'],
                                    'runs': o['runs'][:6]})
        classes.append(o['baseline']['classes'])
        for k, v in o['stats'].items():
            res.count(pre + k, v)
        res.evaluations += o['stats'].get('runs', 0) + 1
        for a, k, status, entered in o['runs']:
            res.distinct.add(('race', json.dumps(sc, sort_keys=True), json.dumps(a), k))
        if o['mismatch']:
            raise RuntimeError('c06_race: reduction self-check failed (a point and the representative of its class '
                               'have different outcomes): %s in scenario %s' % (o['mismatch'][0], sc))
        res.oracle_failures += o['failures']
    res.extra['race_task_seconds'] = sorted((o.get('secs', 0) for o in outs), reverse=True)[:5]
    res.extra['race_interleaving_points_per_job'] = {'min': min(points), 'max': max(points), 'sum': sum(points)}
    res.extra['race_classes_per_job_and_third_party_branch'] = {'min': min(classes), 'max': max(classes),
                                                                'sum': sum(classes)}
    res.rule += (' || RACE PHASE (harness/c06_race.py): %d scenarios (queue / queue+skip / no queue x integration pull '
                 'requests on/off x 1-3 targets, plus seeded ones: stabilization layout, two source commits, non-empty '
                 'queue, no_octopus, amend+force-push) on the real BertE + mock host + real git in which every build is '
                 'green; the evaluating job is re-run from a snapshot with a third party pushing an unbuilt commit on the '
                 'source branch or a w/ branch before operation k of the job, for one k per class of interleaving points '
                 '(quick; every k in thorough) up to the last push; oracle: entered only if the tip of every integration '
                 'branch at the job\'s last observation of it (fetch, successful push, host answer with the pull request) '
                 'is SUCCESSFUL' % len(seen))


def is_mine(payload):
    inp = payload.get('failure', payload).get('input', {})
    return isinstance(inp, dict) and inp.get('phase') == 'race'


def replay(ctx, payload):
    from .pipeline import Result
    f = payload['failure'] if 'failure' in payload else payload
    inp = f['input']
    res = Result()
    prep = Prepared(inp['scenario'], common.scratch())
    try:
        obs = prep.run(inp['action'], inp['k'])
        v = judge(obs)
        res.evaluations = 1
        res.samples.append({'input': inp, 'status': obs['status'], 'entered': v['entered'], 'inject': obs['inject']})
        if v['bad']:
            res.oracle_failures.append(failure_of(inp['scenario'], inp['action'], inp['k'], obs, v))
    finally:
        prep.close()
    return res


if __name__ == '__main__':      # python -m harness.c06_race [scenario-index]: print the operation log of one baseline
    import sys
    scs = scripted_scenarios()
    sc = scs[int(sys.argv[1]) if len(sys.argv) > 1 else 0]
    prep = Prepared(sc, common.scratch())
    try:
        obs = prep.run()
        print(sc, obs['status'], judge(obs))
        for r in obs['log']:
            print(r['i'], ''.join('-' if x in r['blind'] else '*' for x in obs['watch']), r['cmd'][:110],
                  sorted(r.get('reads', {})))
    finally:
        prep.close()
