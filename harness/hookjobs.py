"""C13, the first half of its first sentence, at the webhook layer: "every webhook ... that the server accepts is
followed by an evaluation of the corresponding pull request [or] commit". The dispatcher part (put_job / process_task:
an accepted JOB is never lost) is harness/c13.py proper; this phase covers the step before it, from an accepted
DELIVERY to the job: the real Flask app of bert_e.server (as harness/c14.py builds it) receives every handled event
of both hosts with the configured credentials and repository, with the build-status cache empty and already holding
SUCCESSFUL / FAILED / INPROGRESS for the commit of the event, and the task queue is read back.

Oracle (exactly the property, with the reading stated here): a delivery that the server answers 2xx and that reports
something to evaluate — a pull-request event other than `closed`, a comment on a pull request, a review, a commit
status or check suite that is not "build just started/queued" — leaves exactly one job for that pull request or
commit in the task queue. Deliveries the code deliberately does not evaluate (INPROGRESS notifications, closed pull
requests, comments on plain issues, event kinds it does not handle) are not counted as accepted for evaluation.
The model side is the webhook decision of Model/Http.lean (C14 line protocol), which has no cache input at all."""
from . import c14

EVALUATED = {          # event -> kind of job expected
    'bb-pr-comment': 'PullRequestJob', 'bb-pr-created': 'PullRequestJob', 'bb-pr-unknown': 'PullRequestJob',
    'bb-status-created-ok': 'CommitJob', 'bb-status-created-failed': 'CommitJob', 'bb-status-updated-ok': 'CommitJob',
    'gh-pr-opened': 'PullRequestJob', 'gh-pr-synchronize': 'PullRequestJob', 'gh-comment-pr': 'PullRequestJob',
    'gh-review': 'PullRequestJob', 'gh-status-success': 'CommitJob', 'gh-status-failure': 'CommitJob',
    'gh-check-suite-done': 'CommitJob',
}


def cells():
    out = []
    for route, host in (('/bitbucket', 'bitbucket'), ('/github', 'github')):
        for ev in c14.EVENTS:
            if ev.startswith('bb-') != (host == 'bitbucket') and not ev.startswith(('no-', 'body-')):
                continue
            for cached in (None,) + c14.CACHED_STATES:
                c = {'kind': 'hook', 'route': route, 'method': 'POST', 'creds': 'right', 'repo': 'match',
                     'host': host, 'event': ev}
                if cached:
                    c['cached'] = cached
                out.append(c)
    return out


def judge(cell, obs):
    want = EVALUATED.get(cell['event'])
    if want is None or not (200 <= obs['status'] < 300):
        return []
    target = c14.EVENTS[cell['event']][2].get('target', '')
    jobs = obs['jobs']
    if len(jobs) == 1 and jobs[0]['cls'] == want and jobs[0]['target'] == target:
        return []
    return [{'key': 'accepted-webhook-without-job', 'input': cell,
             'what': 'the %s delivery %s was answered %d with the build-status cache %s, but the task queue holds %s '
                     'instead of one %s for %s: the event is lost'
                     % (cell['host'], cell['event'], obs['status'],
                        'holding %s for that commit' % cell['cached'] if cell.get('cached') else 'empty',
                        [(j['cls'], j['target']) for j in jobs] or 'nothing', want, target),
             'observation': {'status': obs['status'], 'task_queue': jobs}}]


def phase(ctx, res):
    cs = cells()
    lines = [c14.line_of(c) for c in cs]
    answers = ctx.model.ask(lines) if ctx.model is not None else [None] * len(cs)
    with c14.NoNetwork():
        observations = c14.run_chunk(cs)
    for cell, obs, ans in zip(cs, observations, answers):
        if 'exception' in obs:
            raise RuntimeError('harness could not run %r: %s' % (cell, obs['exception']))
        res.evaluations += 1
        res.count('hook-delivery:%s:%s' % ('evaluated' if cell['event'] in EVALUATED else 'other',
                                           'job' if obs['jobs'] else 'no-job'))
        res.count('hook-cache:%s' % (cell.get('cached') or 'empty'))
        res.oracle_failures += judge(cell, obs)
        if ans is not None:
            res.model_compared += 1
            if ans != c14.canon(obs):
                res.disagreements.append({'input': cell, 'real': c14.canon(obs), 'model': ans})
        if cell['event'] in EVALUATED:
            res.distinct.add('hookjob:%s:%s' % (cell['event'], cell.get('cached')))
    return res


def replay(ctx, res, cell):
    with c14.NoNetwork():
        obs = c14.run_chunk([cell])[0]
    res.evaluations += 1
    res.oracle_failures += judge(cell, obs)
    return res
