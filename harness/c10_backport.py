"""C10, "backport" family of histories.

A source branch whose commits are ALREADY contained in the later development branches, opened against an earlier one:
bugfix cut from development/4.3, merged up by hand into development/5.1 and development/10.0 (what an earlier pull
request to 5.1 leaves behind), then opened against development/4.3.  The integration branches w/5.1/.., w/10.0/..
that the first evaluation creates are then "in sync" from the start (check_in_sync), a state the ordinary generator of
harness/histories.py never builds: a new pull request is never in sync at creation.

Only with `always_create_integration_pull_requests: false`: with integration pull requests the MOCK host reports the
empty pull request w/5.1/x -> development/5.1 as MERGED at creation and Bert-E re-creates it on every evaluation (a
mock artefact, DESIGN 12.3; a real host refuses to create an empty pull request); for the same reason no
`create_pull_requests` option comment is generated here.

The event `open_backport` is executed by `open_backport(run, ev)` (called from harness/c10.py `execute`); every other
event is one of harness/histories.py.  Variants: the source is cut from the tip of the destination or from its parent
commit (an old commit of the destination's line), and merged up into all later development branches or, skipping the
first of them, only from the second one on (the cascade stays self-contained; the skipped w/ branch is then not in
sync and gets a merge commit).
"""
from .system import CONTRIB, Config, git, version_key

MODES = ['queue', 'queue-skip', 'noqueue']
COMMENTS = [(4, '@robot status'), (3, '@robot help'), (3, '@robot reset'), (2, '@robot force_reset'),
            (3, '@robot approve'), (2, '@robot wait'), (2, '@robot bypass_build_status'),
            (2, '@robot bypass_author_approval'), (2, 'looks good to me'), (1, '@robot frobnicate')]


def later_devs(dests, dst):
    """development branches of the cascade after `dst`"""
    key = version_key(dst)
    return sorted((d for d in dests if d.startswith('development/') and version_key(d) > key), key=version_key)


def gen(rng, j):
    """configuration + history of backport history number j (the mode rotates with j)"""
    from .histories import TEMPLATES
    mode = MODES[j % 3]
    templates = [t for t in TEMPLATES if not any(d.startswith('hotfix/') for d in t[0])
                 and any(later_devs(t[0], d) for d in t[0])]
    dests, tags = rng.choice(templates)
    cands = [d for d in dests if later_devs(dests, d)]
    dst = cands[0] if rng.random() < 0.6 else rng.choice(cands)
    cfg = Config(dests, tags, use_queue=mode != 'noqueue', skip_queue=mode == 'queue-skip',
                 no_octopus=rng.random() < 0.3, create_prs=False, create_branches=True, peers=0, leaders=0,
                 author_approval=rng.random() < 0.5, options=['bypass_jira_check'])
    nlater = len(later_devs(dests, dst))
    evs = [{'op': 'open_backport', 'pr': 1, 'dst': dst, 'src': 'bugfix/TEST-0001',
            'cut': rng.choice(['tip', 'tip', 'parent']),
            'first': 0 if rng.random() < 0.75 else rng.randint(0, nlater - 1)}]
    if rng.random() < 0.5:
        evs.append({'op': 'eval_pr', 'pr': 1})
    nprs = 1
    for _ in range(rng.randint(3, 6)):
        r = rng.random()
        if r < 0.25:
            evs.append({'op': 'eval_pr', 'pr': 1})
        elif r < 0.45:
            text = rng.choices([t for _, t in COMMENTS], [w for w, _ in COMMENTS])[0]
            evs.append({'op': 'comment', 'pr': 1, 'user': rng.choice(['contrib', 'admin', 'admin', 'peer1']),
                        'text': text})
            if rng.random() < 0.5:
                evs.append({'op': 'eval_pr', 'pr': 1})
        elif r < 0.55:
            evs.append({'op': 'approve', 'pr': 1, 'user': rng.choice(['contrib', 'admin', 'peer1'])})
        elif r < 0.70:
            evs.append({'op': 'build', 'pr': 1, 'what': rng.choice(['integration', 'all']),
                        'state': rng.choice(['SUCCESSFUL', 'SUCCESSFUL', 'FAILED', 'INPROGRESS'])})
        elif r < 0.85:
            evs.append({'op': 'progress', 'pr': 1})
        elif r < 0.92 and nprs == 1:
            nprs = 2
            evs.append({'op': 'open', 'pr': 2, 'dst': rng.choice(dests), 'src': 'feature/TEST-0002'})
            evs.append({'op': 'progress', 'pr': 2})
        else:
            evs.append({'op': 'src_commit', 'pr': 1, 'shared': None})
    return cfg, 'backport-' + mode, evs


def open_backport(run, ev):
    """third parties: create the source branch, merge it up by hand, open the pull request against `dst`"""
    w = run.w
    refs = run.refs = w.refs()
    src, dst = ev['src'], ev['dst']
    if dst not in refs or src in refs:
        return 'skip', None
    later = [d for d in later_devs(w.cfg.dests, dst) if d in refs]
    if not later:
        return 'skip', None
    later = later[min(ev.get('first', 0), len(later) - 1):]
    w._fetch()
    start = 'origin/' + dst
    if ev.get('cut') == 'parent':
        start += '~1'
    git(w.work, 'checkout', '-q', '-B', src, start)
    w._commit_file(src, CONTRIB)
    git(w.work, 'push', '-q', '-f', 'origin', src)
    prev = src
    for d in later:
        git(w.work, 'checkout', '-q', '-B', 'tmpwork', 'origin/' + d)
        git(w.work, '-c', 'user.name=%s' % CONTRIB, '-c', 'user.email=c@x', 'merge', '-q', '--no-ff', '--no-edit',
            prev, env=w._env())
        git(w.work, 'push', '-q', 'origin', 'tmpwork:' + d)
        w._fetch()
        prev = 'origin/' + d
    git(w.work, 'checkout', '-q', '--detach')
    pid = w.open_pr(src, dst, create_branch=False)
    run.prs[ev['pr']] = {'id': pid, 'src': src, 'dst': dst}
    return 'ext', {'backport': (src, dst, later)}
