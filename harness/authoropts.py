"""Tie for the per-author bypass settings (`pr_author_options`): the real `PrAuthorsOptions.deserialize` of the
settings schema and the real `PullRequestJob.author_bypass`, against `Model/AuthorOptions.lean`.
Used by C04 (and, through the same settings, relevant to C06/C07/C11)."""
from . import common
from .stubs import make_job

USERS = ['author', 'alice', 'bob']


def run(ctx, res, n):
    from bert_e.settings import SettingsSchema, PrAuthorsOptions
    from bert_e.exceptions import IncorrectSettingsFile
    field = SettingsSchema().fields['pr_author_options']
    keys = list(PrAuthorsOptions.BYPASS_LIST)
    rng = common.rng_for(ctx.seed, 'authoropts')
    cases = []
    # exhaustive small part: two users, every subset of three keys each, every query
    k3 = keys[:3]
    for m1 in range(8):
        for m2 in range(8):
            raw = [('alice', [k for i, k in enumerate(k3) if m1 >> i & 1]),
                   ('author', [k for i, k in enumerate(k3) if m2 >> i & 1])]
            for who in ('author', 'alice', 'stranger'):
                for key in k3:
                    cases.append((raw, who, key))
    for _ in range(n):
        users = rng.sample(USERS, rng.randint(0, 3))
        raw = []
        for u in users:
            names = [k for k in keys if rng.random() < 0.35]
            if rng.random() < 0.05:
                names.append('bypass_everything')
            rng.shuffle(names)
            raw.append((u, names))
        cases.append((raw, rng.choice(USERS + ['stranger']), rng.choice(keys)))
    lines = []
    for raw, who, key in cases:
        enc = ';'.join('%s:%s' % (u, ','.join(ns)) for u, ns in raw) or '-'
        lines.append('C04 authors %s %s %s' % (enc, who, key))
    answers = ctx.model.ask(lines) if ctx.model else [None] * len(lines)
    for (raw, who, key), ans in zip(cases, answers):
        try:
            opts = field.deserialize(dict(raw))
            job = make_job({}, {'pr_author_options': opts}, author=who)
            real = '1' if job.author_bypass.get(key, False) else '0'
        except IncorrectSettingsFile:
            real = 'IncorrectSettingsFile'
        res.evaluations += 1
        res.count('authoropts:' + real)
        own = dict(raw).get(who)
        bad = any(n not in keys for _, ns in raw for n in ns)
        want = 'IncorrectSettingsFile' if bad else ('1' if (own is not None and key in own) else '0')
        if real != want:
            res.oracle_failures.append({
                'key': 'author-options', 'what': 'per-author bypass %s for %s: got %s, its own entry says %s'
                                                 % (key, who, real, want),
                'input': {'pr_author_options': raw, 'author': who, 'key': key}, 'observation': real})
        if ans is not None:
            res.model_compared += 1
            if ans != real:
                res.disagreements.append({'input': {'pr_author_options': raw, 'author': who, 'key': key},
                                          'real': real, 'model': ans})
        if len(raw) >= 2:
            res.distinct.add(('authoropts', str(raw), who, key))


def replay(ctx, res, inp):
    """one recorded case: {'pr_author_options': [[user, [keys]], ...], 'author', 'key'}"""
    from bert_e.settings import SettingsSchema, PrAuthorsOptions
    from bert_e.exceptions import IncorrectSettingsFile
    field = SettingsSchema().fields['pr_author_options']
    keys = list(PrAuthorsOptions.BYPASS_LIST)
    raw = [(u, list(ns)) for u, ns in inp['pr_author_options']]
    who, key = inp['author'], inp['key']
    try:
        opts = field.deserialize(dict(raw))
        real = '1' if make_job({}, {'pr_author_options': opts}, author=who).author_bypass.get(key, False) else '0'
    except IncorrectSettingsFile:
        real = 'IncorrectSettingsFile'
    res.evaluations += 1
    own = dict(raw).get(who)
    bad = any(n not in keys for _, ns in raw for n in ns)
    want = 'IncorrectSettingsFile' if bad else ('1' if (own is not None and key in own) else '0')
    if real != want:
        res.oracle_failures.append({'key': 'author-options', 'input': inp, 'observation': real,
                                    'what': 'per-author bypass %s for %s: got %s, its own entry says %s'
                                            % (key, who, real, want)})
    return res
