"""Witnesses of the known findings of C20, run on the REAL code by every C20 check (harness/c20.py `correspondence`):
the oracle failure with the finding's key is appended only when the real run shows the defect, so that a repair of
the code makes the line disappear.

  delete-hotfix-branch-deletes-the-stabilization-queue
      `delete_branch hotfix/x.y.z` looks for `q/<version>` with the three-number version of the hotfix branch - the
      queue of stabilization/x.y.z - and deletes it although a pull request is queued there (real BertE + mock host +
      real git; found while proving `C01_full_step`: `Full.AdminAnomaly`).
  rebuild-drops-queued-pr-when-hotfix-stabilization-and-development-queues-share-a-version
      hotfix/5.1.0, stabilization/5.1.2 and development/5.1 all have queues: `compare_queues` is not transitive,
      `queued_prs` reads the stabilization queue as the last non-hotfix key and omits a pull request queued on
      development/5.1 only, so `rebuild_queues` does not re-submit it (real BertE + mock host + real git; the same
      on the real QueueCollection over the in-memory repository: harness/close_witness.py)."""

KEY_HOTFIX = 'delete-hotfix-branch-deletes-the-stabilization-queue'
KEY_REBUILD = 'rebuild-drops-queued-pr-when-hotfix-stabilization-and-development-queues-share-a-version'
WHICH = {'hotfix-queue': KEY_HOTFIX, 'rebuild-queued-prs': KEY_REBUILD}


def hotfix_queue():
    from .fullsys import witness_hotfix_clobbers_queue
    obs = witness_hotfix_clobbers_queue()
    shown = (obs['delete_hotfix'] == 'JobSuccess' and obs['queue_before'] and not obs['queue_after']
             and obs['still_queued'])
    what = ('delete_branch hotfix/4.3.18 (%s) deleted q/4.3.18, the queue of stabilization/4.3.18, while pull request 1 '
            'is queued on it; the next queue evaluation ends with %s' % (obs['delete_hotfix'], obs['commit_job']))
    return shown, what, obs


def rebuild_queued_prs():
    """three pull requests queued on stabilization/5.1.2 (+ development/5.1), hotfix/5.1.0 and development/5.1 only;
    rebuild_queues; which pull requests are re-submitted?"""
    from .system import World, Config
    cfg = Config(['stabilization/5.1.2', 'development/5.1', 'hotfix/5.1.0'], ['5.1.1', '5.1.0.0'], use_queue=True,
                 create_prs=False, options=['bypass_jira_check', 'bypass_build_status'])
    w = World(cfg)
    try:
        ids = [w.open_pr('bugfix/TEST-0001', 'stabilization/5.1.2'), w.open_pr('bugfix/TEST-0002', 'hotfix/5.1.0'),
               w.open_pr('feature/TEST-0003', 'development/5.1')]
        obs = {'eval': [w.eval_pr(i) for i in ids]}
        refs = w.refs()
        obs['queued_before'] = sorted({int(n.split('/')[2]) for n in refs if n.startswith('q/w/')})
        obs['queues'] = sorted(n for n in refs if n.startswith('q/') and not n.startswith('q/w/'))
        from bert_e.job import PullRequestJob
        puts = []
        orig = w.berte.put_job

        def put_job(job):
            if isinstance(job, PullRequestJob):
                puts.append(job.pull_request.id)
            return orig(job)
        w.berte.put_job = put_job
        obs['rebuild'] = w.job('rebuild_queues')
        obs['resubmitted'] = sorted(puts)
        obs['drained'] = w.drain()
        refs = w.refs()
        obs['queued_after'] = sorted({int(n.split('/')[2]) for n in refs if n.startswith('q/w/')})
    finally:
        w.close()
    shown = obs['rebuild'] == 'JobSuccess' and obs['eval'] == ['Queued'] * 3 and \
        set(obs['resubmitted']) != set(obs['queued_before'])
    what = ('rebuild_queues (%s) re-submitted the pull requests %s although %s were queued: %s dropped from the queue'
            % (obs['rebuild'], obs['resubmitted'], obs['queued_before'],
               sorted(set(obs['queued_before']) - set(obs['resubmitted']))))
    return shown, what, obs


RUN = {'hotfix-queue': hotfix_queue, 'rebuild-queued-prs': rebuild_queued_prs}


def _one(which):
    try:
        shown, what, obs = RUN[which]()
        return which, shown, what, obs, None
    except Exception:
        import traceback
        return which, False, '', {}, traceback.format_exc()[-2000:]


def phase(res, only=None):
    """run the witnesses (each in a child process: one World at a time per process) and add what they show to `res`"""
    from multiprocessing import get_context
    names = [only] if only else sorted(RUN)
    with get_context('fork').Pool(len(names)) as pool:
        outs = pool.map(_one, names, chunksize=1)
    for which, shown, what, obs, err in outs:
        if err:
            raise RuntimeError('C20 witness %s failed: %s' % (which, err))
        res.evaluations += 1
        res.count('witness:%s:%s' % (which, 'defect-shown' if shown else 'defect-not-shown'))
        res.extra.setdefault('witnesses', {})[which] = {'shown': shown, 'observation': obs}
        if shown:
            res.oracle_failures.append({'key': WHICH[which], 'what': what,
                                        'input': {'phase': 'witness', 'which': which}, 'observation': obs})
    return res


if __name__ == '__main__':
    import json
    import sys
    for name in (sys.argv[1:] or sorted(RUN)):
        shown, what, obs = RUN[name]()
        print(json.dumps({'which': name, 'key': WHICH[name], 'shown': shown, 'what': what, 'observation': obs},
                         indent=1, default=str))
