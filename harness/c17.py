"""C17 — tie between the Lean model of the CI aggregation / status cache and the real code.

(a) `AggregatedWorkflowRuns(...).state` (and the runs it kept) on lists of workflow runs;
(l) `LRUCache` alone on random get/set sequences (sizes 0-3);
(b) the three real webhook handlers and `Repository.get_build_status` of the GitHub and Bitbucket classes,
    with a scripted HTTP session standing for the host and the module-level status cache forced to size 1-2.
    Besides the sequences over 2 commits there is a family over 3-6 commits (`gen_recency`): a commit seen
    SUCCESSFUL, other commits filling the cache, the green commit READ again (poll or status event: both call
    `LRUCache.get`), fewer / as many / more new commits than the cache has room for, the host now reporting
    FAILED, a poll - the order of USE and the order of INSERTION of the entries differ there.
The property oracle is stated here independently of the model, on the observations of the real code only:
"among the most recently used entries of the bounded status cache" is judged by the harness's own recency
bookkeeping (`Recency`: per build key the `size` commits used last, a use being every `LRUCache.set` and every
`LRUCache.get` that hits, as recorded by a spy subclass of the real class) - never by looking into the cache.
"""
import itertools
import json
import logging
import multiprocessing
import os
import warnings
from types import SimpleNamespace

from . import common
from .pipeline import Result

PID = 'C17'
TABLES = ['CI']
LEAN_TARGETS = ['BertE.Props.C17']
ASSUMPTIONS = [
    'the host answers a status request for commit c with `sha` = c (GitHub combined status), the statuses of one '
    'commit carry distinct contexts, raw GitHub states are within {pending, success, error, failure} and run '
    'conclusions are within the ranking dict or a second run of the same workflow raises KeyError (modelled as crash)',
    'one process, no concurrent access to the module-level cache (the server handles webhooks and jobs in two '
    'threads; interleavings inside one handler are not modelled)',
    'the LRU size is the default of LRUCache (extracted: 1000, obligation 1 <= size); the tie forces sizes 1-3 to '
    'exercise eviction (a spy subclass of the real LRUCache records its get / set calls for the oracle), the theorems '
    'hold for every size >= 1',
]
TRUSTED = [
    'Lean 4 kernel; axioms of every theorem audited (subset of propext, Classical.choice, Quot.sound)',
    'harness/tables/ci.py (AST extraction of conclusion_ranking, the ignored event, the state chain, '
    'Status.state translation, the workflow-run key and the LRU default size)',
    'correspondence harness harness/c17.py: fake HTTP session/client under the real github.Client / '
    'bitbucket.Client, stub bert_e object for the real webhook handler functions',
    'modelled, not verified: marshmallow schema loading, the HTTP layer (ETag query cache is not exercised), '
    'the Flask routing in front of the handlers',
]

EVENTS = ['push', 'pull_request', 'workflow_dispatch']
RUN_STATUS = ['completed', 'in_progress', 'queued', 'pending']
CONCLUSIONS = ['success', 'failure', 'cancelled', None]
WIDS = [1, 2, 3]        # three ids: with two, the runs kept are trivially consecutive (see DESIGN C17)
BRANCHES = ['x', 'y']
FULL = [(e, s, c, w, b) for e in EVENTS for s in RUN_STATUS for c in CONCLUSIONS for w in WIDS for b in BRANCHES]
# reduced alphabet: the (status, conclusion) pairs GitHub produces, two events
PAIRS = [('completed', 'success'), ('completed', 'failure'), ('completed', 'cancelled'),
         ('in_progress', None), ('queued', None), ('pending', None)]
REDUCED = [(e, s, c, w, b) for e in ('push', 'workflow_dispatch') for (s, c) in PAIRS for w in WIDS for b in BRANCHES]
PAIRS8 = PAIRS + [('completed', None), ('pending', 'success')]
MEDIUM = [(e, s, c, w, b) for e in EVENTS for (s, c) in PAIRS8 for w in WIDS for b in BRANCHES]

COMMITS = ['c0', 'c1']
COMMITS6 = ['c0', 'c1', 'c2', 'c3', 'c4', 'c5']   # the recency family: eviction at sizes 2-3 needs 3-4 commits under one key
GH_KEYS = ['k0', 'github_actions']          # the two build keys polled on GitHub
BB_KEYS = ['k0', 'k1']
UNIVERSE = ['k0', 'k1', 'github_actions']   # keys whose LRU is observed
RAW2STATE = {'success': 'SUCCESSFUL', 'failure': 'FAILED', 'error': 'FAILED', 'pending': 'INPROGRESS'}
# run lists the scripted host serves for a commit, with the state the property expects of them
MENU = {
    'N': ([], 'NOTSTARTED'),
    'S': ([('push', 'completed', 'success', 1, 'x')], 'SUCCESSFUL'),
    'F': ([('push', 'completed', 'failure', 1, 'x')], 'FAILED'),
    'I': ([('push', 'in_progress', None, 1, 'x')], 'INPROGRESS'),
    'M': ([('push', 'completed', 'success', 1, 'x'), ('push', 'completed', 'failure', 2, 'y'),
           ('pull_request', 'completed', 'failure', 3, 'x')], 'FAILED'),
}


# --------------------------------------------------------------------------- encodings

def enc_runs(runs):
    if not runs:
        return '-'
    return ','.join('%d/%s/%s/%s/%d/%s' % (i, e, s, c if c is not None else '-', w, b)
                    for i, (e, s, c, w, b) in enumerate(runs))


def enc_op(op):
    kind = op[0]
    if kind == 'gs':
        return 'gs:%s:%s:%s' % (op[1], op[2], op[3])
    if kind == 'cs':
        return 'cs:%s:%s' % (op[1], enc_runs(MENU[op[2]][0]))
    if kind == 'bs':
        return 'bs:%s:%s:%s' % (op[1], op[2], op[3])
    if kind == 'gp':
        rep = op[3]
        if rep in ('404', '404r'):
            return 'gp:%s:%s:404' % (op[1], op[2])
        sts, menu = rep
        return 'gp:%s:%s:%s:%s' % (op[1], op[2], ','.join('%s=%s' % (k, r) for k, r in sts) or '-',
                                   enc_runs(MENU[menu][0]))
    if kind == 'bp':
        return 'bp:%s:%s:%s' % (op[1], op[2], op[3])
    raise ValueError(op)


def line_agg(runs):
    return 'C17 agg ' + enc_runs(runs)


def line_sm(case):
    return 'C17 sm %d %s %s' % (case['cap'], ','.join(UNIVERSE), ';'.join(enc_op(o) for o in case['ops']))


def line_lru(case):
    return 'C17 lru %d %s' % (case['cap'], ','.join(':'.join(a) for a in case['accesses']))


# --------------------------------------------------------------------------- real side

_SETUP = {}


def _quiet():
    warnings.filterwarnings('ignore')
    logging.disable(logging.CRITICAL)


def run_dicts(runs, sha='c0'):
    return [dict(id=i, head_sha=sha, head_branch=b, status=s, conclusion=c, event=e, workflow_id=w,
                 html_url='http://host.invalid/run/%d' % i)
            for i, (e, s, c, w, b) in enumerate(runs)]


def real_agg(runs):
    """The real `AggregatedWorkflowRuns(...).state` and the ids of the runs it kept."""
    _quiet()
    from bert_e.git_host.github import AggregatedWorkflowRuns
    try:
        obj = AggregatedWorkflowRuns(None, workflow_runs=run_dicts(runs), total_count=len(runs))
        state = obj.state
        ids = ','.join(str(r['id']) for r in obj._workflow_runs) or '-'
        return '%s %s' % (state, ids)
    except Exception as e:
        return 'crash %s' % type(e).__name__


def real_lru(case):
    from bert_e.lib.lru_cache import LRUCache
    lru = LRUCache(case['cap'])
    out = []
    for a in case['accesses']:
        try:
            if a[0] == 'g':
                v = lru.get(a[1], None)
            else:
                v = lru.set(a[1], a[2])
        except Exception:
            out.append('crash')
            break
        content = ','.join('%s=%s' % kv for kv in reversed(list(lru._dict.items()))) or '-'
        out.append('%s|%s' % (v if v is not None else '-', content))
    return ';'.join(out)


class _Resp:
    """What the code uses of a `requests.Response`."""

    def __init__(self, code, payload):
        self.status_code = code
        self._payload = payload
        self.text = json.dumps(payload)
        self.headers = {}

    def json(self):
        return self._payload

    def raise_for_status(self):
        import requests
        if self.status_code >= 400:
            raise requests.HTTPError('%d' % self.status_code, response=self)


class _GhSession:
    """Scripted GitHub: answers the two requests of `get_commit_status` / `CheckSuiteEvent.status`."""

    def __init__(self):
        self.report = None

    def get(self, url, **kw):
        rep = self.report
        if url.endswith('/status'):
            if rep == '404':
                return _Resp(404, {'message': 'Not Found'})
            ref = url.split('/')[-2]
            statuses = [] if rep == '404r' else rep[0]      # '404r': the second request (runs) is the one refused
            return _Resp(200, {'sha': ref, 'state': 'pending', 'statuses': [
                {'state': raw, 'target_url': None, 'description': None, 'context': k} for k, raw in statuses]})
        if url.endswith('/actions/runs'):
            if rep == '404r':
                return _Resp(404, {'message': 'Not Found'})
            sha = kw['params']['head_sha']
            runs = MENU[rep[1]][0]
            return _Resp(200, {'total_count': len(runs), 'workflow_runs': run_dicts(runs, sha)})
        raise AssertionError('unexpected request %s' % url)


def _setup():
    if _SETUP:
        return _SETUP
    _quiet()
    from bert_e.git_host import github, bitbucket, cache
    from bert_e.lib.lru_cache import LRUCache
    from bert_e.server import webhook
    gclient = github.Client('login', 'password', 'mail@example.invalid', base_url='http://host.invalid')
    gsess = _GhSession()
    gclient.session = gsess
    grepo = github.Repository(client=gclient, _validate=False, name='slug', owner={'login': 'owner'},
                              full_name='owner/slug')
    gbe = SimpleNamespace(client=gclient, settings={}, project_repo=grepo, git_repo=object())
    bclient = bitbucket.Client('login', 'password', 'mail@example.invalid')
    bstate = {'report': None}

    def bget(url, **kw):
        if bstate['report'] == '404':
            return _Resp(404, {})
        return _Resp(200, {'state': bstate['report'], 'key': url.split('/')[-1], 'url': 'http://host.invalid/b',
                           'description': ''})
    bclient.get = bget
    brepo = bitbucket.Repository(bclient, owner='owner', repo_slug='slug')
    bbe = SimpleNamespace(client=bclient, settings={}, project_repo=brepo, git_repo=object())
    _SETUP.update(cache=cache, LRUCache=LRUCache, webhook=webhook, gsess=gsess, grepo=grepo, gbe=gbe,
                  bstate=bstate, brepo=brepo, bbe=bbe)
    return _SETUP


def _store_obs(cache):
    parts = []
    for k in UNIVERSE:
        lru = cache.BUILD_STATUS_CACHE.get(k)        # .get: do not create the entry of the defaultdict
        items = [] if lru is None else ['%s=%s' % (c, o.state) for c, o in reversed(list(lru._dict.items()))]
        parts.append('%s=[%s]' % (k, ','.join(items)))
    return '&'.join(parts)


_USES = []          # (id of the LRUCache instance, 'g' | 's', commit) in call order: the spy's record of one op


def _spy_class(LRUCache):
    """The real LRUCache with its two entry points recorded (nothing else is changed: both call the real method)."""
    if 'spy' not in _SETUP:
        class SpyLRU(LRUCache):
            def get(self, key, default=None):
                _USES.append((id(self), 'g', key))
                return LRUCache.get(self, key, default)

            def set(self, key, val):
                _USES.append((id(self), 's', key))
                return LRUCache.set(self, key, val)
        _SETUP['spy'] = SpyLRU
    return _SETUP['spy']


def real_sm(case):
    """Run the real handlers / get_build_status on one sequence. Observation per op: answer|cache content.
    Second result: per op, the `LRUCache.get` / `.set` calls the real code made, as `key:g|s:commit` in call order
    (the input of the oracle's recency bookkeeping)."""
    s = _setup()
    cache, webhook = s['cache'], s['webhook']
    cap = case['cap']
    Spy = _spy_class(s['LRUCache'])
    # the module-level cache: same defaultdict object (webhook.py holds a reference), forced size, emptied
    cache.BUILD_STATUS_CACHE.default_factory = lambda: Spy(cap)
    cache.BUILD_STATUS_CACHE.clear()
    out = []
    uses = []
    for op in case['ops']:
        kind = op[0]
        del _USES[:]
        try:
            if kind == 'gs':
                job = webhook.handle_github_status_event(s['gbe'], {
                    'sha': op[1], 'state': op[3], 'context': op[2], 'description': None, 'target_url': None})
                ans = 'nojob' if job is None else 'job'
                assert job is None or job.commit == op[1]
            elif kind == 'cs':
                s['gsess'].report = ([], op[2])
                job = webhook.handle_github_check_suite_event(s['gbe'], {
                    'action': 'completed', 'check_suite': {'head_sha': op[1]},
                    'repository': {'name': 'slug', 'owner': {'login': 'owner', 'id': 1}, 'full_name': 'owner/slug'}})
                ans = 'nojob' if job is None else 'job'
            elif kind == 'bs':
                job = webhook.handle_bitbucket_repo_event(s['bbe'], 'commit_status_updated', {'commit_status': {
                    'state': op[3], 'key': op[2], 'url': 'http://host.invalid/b', 'description': '',
                    'links': {'commit': {'href': 'https://api.bitbucket.org/2.0/repositories/owner/slug/commit/'
                                         + op[1]}}}})
                ans = 'nojob' if job is None else 'job'
            elif kind == 'gp':
                s['gsess'].report = op[3] if isinstance(op[3], str) else (list(op[3][0]), op[3][1])
                ans = s['grepo'].get_build_status(op[1], op[2])
            elif kind == 'bp':
                s['bstate']['report'] = op[3]
                ans = s['brepo'].get_build_status(op[1], op[2])
            else:
                raise ValueError(op)
        except Exception as e:
            out.append('crash %s' % type(e).__name__)
            break
        out.append('%s|%s' % (ans, _store_obs(cache)))
        names = {id(lru): k for k, lru in cache.BUILD_STATUS_CACHE.items()}
        uses.append(','.join('%s:%s:%s' % (names.get(i, '?'), a, c) for i, a, c in _USES))
    cache.BUILD_STATUS_CACHE.clear()
    cache.BUILD_STATUS_CACHE.default_factory = s['LRUCache']
    return ';'.join(out), ';'.join(uses)


# --------------------------------------------------------------------------- the property, independently

BEST_FIRST = ['success', None, 'failure', 'cancelled']


def oracle_agg(runs, obs):
    """SUCCESSFUL only if on some branch every considered workflow concluded with success; never on no run."""
    if not obs.startswith('SUCCESSFUL'):
        return None
    kept = [r for r in runs if r[0] != 'workflow_dispatch']
    if not kept:
        return ('agg-empty', 'SUCCESSFUL although there is no run to consider')
    best = {}
    for r in kept:                      # best run of each workflow, the first one among equals
        w = r[3]
        rank = BEST_FIRST.index(r[2]) if r[2] in BEST_FIRST else len(BEST_FIRST)
        if w not in best or rank < best[w][0]:
            best[w] = (rank, r)
    considered = [r for _, r in best.values()]
    for b in {r[4] for r in considered}:
        if all(r[2] == 'success' for r in considered if r[4] == b):
            return None
    return ('agg-unsound', 'SUCCESSFUL although on every branch a considered workflow did not succeed')


def host_state(op):
    """What the scripted host currently reports for the polled (commit, key), in Bert-E terms;
    and everything it reports for the commit (GitHub answers for all keys at once)."""
    if op[0] == 'bp':
        return ('NOTSTARTED' if op[3] == '404' else op[3]), ({} if op[3] == '404' else {op[2]: op[3]})
    rep = op[3]
    if rep in ('404', '404r'):
        return 'NOTSTARTED', {}
    allk = {k: RAW2STATE[raw] for k, raw in rep[0]}
    allk['github_actions'] = MENU[rep[1]][1]
    return allk.get(op[2], 'NOTSTARTED'), allk


class Recency:
    """The harness's own statement of "the most recently used entries of the bounded status cache": per build key
    the `size` commits that were used last, most recent first.  A use is every `set` and every `get` that hits
    (a `get` of a commit that is not among them is a miss and uses nothing).  Fed with the calls recorded by the
    spy; it never looks at what the real cache holds."""

    def __init__(self, size):
        self.size = size
        self.last = {}

    def use(self, key, action, commit):
        l = self.last.setdefault(key, [])
        if action == 's' or commit in l:
            if commit in l:
                l.remove(commit)
            l.insert(0, commit)
            del l[self.size:]

    def among(self, key, commit):
        return commit in self.last.get(key, ())


def parse_uses(txt):
    return [tuple(u.split(':')) for u in txt.split(',') if u]


def oracle_sm(case, obs, uses):
    """Once (commit, key) was seen SUCCESSFUL and as long as the commit stays among the most recently used entries
    of the cache of that key (`Recency`), every poll answers SUCCESSFUL; any other poll answers what the host
    currently reports."""
    fails = []
    green = set()                      # (commit, key) seen SUCCESSFUL and among the most recently used ever since
    rec = Recency(case['cap'])
    steps = obs.split(';') if obs else []
    used = uses.split(';') if obs else []
    for i, op in enumerate(case['ops']):
        if i >= len(steps) or steps[i].startswith('crash'):
            break
        ans = steps[i].partition('|')[0]
        kind, c = op[0], op[1]
        seen = []
        if kind in ('gs', 'bs'):
            st = RAW2STATE[op[3]] if kind == 'gs' else op[3]
            if st == 'SUCCESSFUL':
                seen.append((c, op[2]))
        elif kind == 'cs':
            if MENU[op[2]][1] == 'SUCCESSFUL':
                seen.append((c, 'github_actions'))
        else:
            k = op[2]
            mine, allk = host_state(op)
            if (c, k) in green:
                if ans != 'SUCCESSFUL':
                    fails.append(('sticky', 'op %d: (%s, %s) was seen SUCCESSFUL and has been among the %d most '
                                  'recently used commits of that key ever since (%s), yet the answer is %s'
                                  % (i, c, k, rec.size, ','.join(rec.last.get(k, [])), ans)))
            else:
                if ans != mine:
                    fails.append(('fresh', 'op %d: (%s, %s) has no retained SUCCESSFUL, the host reports %s, yet '
                                  'the answer is %s' % (i, c, k, mine, ans)))
                # the host was asked: Bert-E has seen everything it reported for this commit
                seen += [(c, k2) for k2, s2 in allk.items() if s2 == 'SUCCESSFUL']
            if ans == 'SUCCESSFUL':
                seen.append((c, k))
        for k2, action, c2 in parse_uses(used[i] if i < len(used) else ''):
            rec.use(k2, action, c2)
            green = {(c3, k3) for (c3, k3) in green if rec.among(k3, c3)}
        green |= set(seen)
        green = {(c2, k2) for (c2, k2) in green if rec.among(k2, c2)}
    return fails


# --------------------------------------------------------------------------- generators

def gen_agg(ctx):
    """Yield (tag, runs). Exhaustive parts first, then the random ones (only fresh random ones when searching:
    the exhaustive parts were run just before)."""
    if not ctx.searching:
        yield 'n=0', ()
        for n in (1, 2):
            for runs in itertools.product(FULL, repeat=n):
                yield 'n=%d full' % n, runs
        alpha3 = MEDIUM if ctx.tier == 'thorough' else REDUCED
        for runs in itertools.product(alpha3, repeat=3):
            yield 'n=3 reduced', runs
    rng = common.rng_for(ctx.seed, 'C17', 'agg', 'search' if ctx.searching else '')
    n4 = (1500000 if ctx.tier == 'thorough' else 45000) * ctx.scale
    odd = FULL + [(e, s, 'skipped', w, b) for (e, s, c, w, b) in FULL[::16]]   # a conclusion outside the ranking
    for _ in range(n4):
        pool = odd if rng.random() < 0.05 else FULL
        yield 'n=4 random', tuple(rng.choice(pool) for _ in range(4))
    for _ in range(5000 * ctx.scale):
        n = rng.choice((5, 6))
        yield 'n=5-6 random', tuple(rng.choice(REDUCED) for _ in range(n))


def reduced_ops(host):
    keys = GH_KEYS if host == 'github' else BB_KEYS
    ops = []
    for c in COMMITS:
        for k in keys:
            if host == 'github':
                if k == 'github_actions':
                    ops += [('cs', c, 'S'), ('cs', c, 'F')]
                else:
                    ops += [('gs', c, k, 'success'), ('gs', c, k, 'failure')]
                ops += [('gp', c, k, ((('k0', 'success'),), 'S')), ('gp', c, k, ((('k0', 'failure'),), 'F'))]
            else:
                ops += [('bs', c, k, 'SUCCESSFUL'), ('bs', c, k, 'FAILED'),
                        ('bp', c, k, 'SUCCESSFUL'), ('bp', c, k, 'FAILED')]
    return ops


def random_op(rng, host, commits=COMMITS, one_key=False):
    """one operation of the full alphabet; `one_key`: 3 of 4 status events / polls are about k0 (eviction needs
    several commits under ONE key)"""
    c = rng.choice(commits)
    if one_key and rng.random() < 0.75:
        if host == 'github':
            if rng.random() < 0.4:
                return ('gs', c, 'k0', rng.choice(['success', 'success', 'failure', 'pending', 'error']))
            sts = (('k0', rng.choice(['success', 'failure', 'failure', 'pending'])),)
            return ('gp', c, 'k0', (sts, rng.choice('NSF')))
        states = ['SUCCESSFUL', 'SUCCESSFUL', 'FAILED', 'FAILED', 'INPROGRESS']
        return ('bs' if rng.random() < 0.4 else 'bp', c, 'k0', rng.choice(states))
    if host == 'github':
        r = rng.random()
        if r < 0.3:
            return ('gs', c, rng.choice(['k0', 'k0', 'k1']), rng.choice(['success', 'failure', 'pending', 'error']))
        if r < 0.45:
            return ('cs', c, rng.choice('NSFIM'))
        k = rng.choice(['k0', 'github_actions', 'k1'] if rng.random() < 0.2 else GH_KEYS)
        r = rng.random()
        if r < 0.1:
            return ('gp', c, k, rng.choice(['404', '404r']))
        sts = tuple((kk, rng.choice(['success', 'failure', 'pending', 'error']))
                    for kk in ('k0', 'k1') if rng.random() < 0.6)
        return ('gp', c, k, (sts, rng.choice('NSFIM')))
    k = rng.choice(BB_KEYS)
    states = ['SUCCESSFUL', 'FAILED', 'INPROGRESS', 'STOPPED']
    if rng.random() < 0.45:
        return ('bs', c, k, rng.choice(states))
    return ('bp', c, k, rng.choice(states + ['404']))


_REDUCED_SET = {h: set(reduced_ops(h)) for h in ('github', 'bitbucket')}


def exhaustive_len(ctx, cap):
    """Length of the exhaustively enumerated sequences: with two commits only size 1 evicts, so size 1 gets
    the full length in the thorough tier (16^5 sequences per host) and size 2 one operation less."""
    if ctx.tier == 'thorough':
        return 5 if cap == 1 else 4
    return 3


def _insert_op(rng, host, c, k, state=None):
    """an operation that makes the code store (c, k): a status event or a poll the host answers"""
    if host == 'github':
        raw = state or rng.choice(['failure', 'pending', 'error', 'success'])
        if k == 'github_actions':
            menu = {'success': 'S', 'failure': 'F', 'error': 'F', 'pending': 'I'}[raw]
            if rng.random() < 0.5:
                return ('cs', c, menu)
            return ('gp', c, k, ((), menu))
        if rng.random() < 0.5:
            return ('gs', c, k, raw)
        return ('gp', c, k, (((k, raw),), rng.choice('NF')))
    st = {'success': 'SUCCESSFUL', 'failure': 'FAILED', None: None}[state] or \
        rng.choice(['FAILED', 'INPROGRESS', 'STOPPED', 'SUCCESSFUL'])
    return ('bs' if rng.random() < 0.5 else 'bp', c, k, st)


def _poll_op(host, c, k, state):
    """a poll of (c, k) while the host reports `state` (success | failure) for it"""
    if host == 'github':
        if k == 'github_actions':
            return ('gp', c, k, ((), 'S' if state == 'success' else 'F'))
        return ('gp', c, k, (((k, state),), 'N'))
    return ('bp', c, k, 'SUCCESSFUL' if state == 'success' else 'FAILED')


def gen_recency(rng, host):
    """One sequence in which the order of use differs from the order of insertion: the commit g is seen SUCCESSFUL
    under key k; `size - 1` other commits fill the cache of k; g is READ (a poll, or a status event - the handlers
    call `get` first; or not at all: 1 in 6); `new` other commits are stored (new < size: g is still among the
    `size` most recently used; new >= size: it no longer is); the host now reports FAILED for g and g is polled.
    A third of the sequences get one random operation inserted somewhere."""
    cap = rng.choice((2, 2, 2, 3))
    k = rng.choice(GH_KEYS if host == 'github' else BB_KEYS)
    commits = COMMITS6[:]
    rng.shuffle(commits)
    g, others = commits[0], commits[1:]
    ops = [_insert_op(rng, host, g, k, 'success')]
    fill = others[:cap - 1]
    for c in fill:
        ops.append(_insert_op(rng, host, c, k))
    r = rng.random()
    if r < 1 / 6:
        read = 'noread'
    elif r < 0.6:
        read = 'poll'
        ops.append(_poll_op(host, g, k, rng.choice(['success', 'failure'])))
    else:
        read = 'event'
        if host == 'github':
            ops.append(('cs', g, rng.choice('FIS')) if k == 'github_actions'
                       else ('gs', g, k, rng.choice(['failure', 'pending', 'success'])))
        else:
            ops.append(('bs', g, k, rng.choice(['FAILED', 'INPROGRESS', 'SUCCESSFUL'])))
    new = rng.randint(1, cap)
    for c in others[len(fill):len(fill) + new]:
        ops.append(_insert_op(rng, host, c, k))
    ops.append(_poll_op(host, g, k, 'failure'))
    if rng.random() < 1 / 3:
        ops.insert(rng.randrange(1, len(ops)), random_op(rng, host, COMMITS6))
    shape = 'size=%d %s then %d new (%s)' % (cap, read, new, 'still recent' if new < cap and read != 'noread'
                                             else 'no longer recent')
    return {'host': host, 'cap': cap, 'ops': tuple(ops), 'shape': shape}


def gen_sm(ctx):
    """Yield (tag, case). A sequence of length n also covers each of its prefixes (one observation per op)."""
    for host in (() if ctx.searching else ('github', 'bitbucket')):
        alpha = reduced_ops(host)
        for cap in (1, 2):
            n_exh = exhaustive_len(ctx, cap)
            for ops in itertools.product(alpha, repeat=n_exh):
                yield 'exhaustive-%d %s cap=%d' % (n_exh, host, cap), {'host': host, 'cap': cap, 'ops': ops}
    rng = common.rng_for(ctx.seed, 'C17', 'sm', 'search' if ctx.searching else '')
    for _ in range((400000 if ctx.tier == 'thorough' else 40000) * ctx.scale):
        host = rng.choice(('github', 'bitbucket'))
        n = 5 if rng.random() < 0.9 else rng.choice((6, 8))
        yield 'random %s' % host, {'host': host, 'cap': rng.choice((1, 1, 2, 2, 3)),
                                    'ops': tuple(random_op(rng, host) for _ in range(n))}
    # use order against insertion order (3-6 commits); and random sequences over 3 commits, where size 2 evicts
    rng = common.rng_for(ctx.seed, 'C17', 'sm-recency', 'search' if ctx.searching else '')
    for _ in range((60000 if ctx.tier == 'thorough' else 6000) * ctx.scale):
        host = rng.choice(('github', 'bitbucket'))
        yield 'recency %s' % host, gen_recency(rng, host)
    for _ in range((60000 if ctx.tier == 'thorough' else 6000) * ctx.scale):
        host = rng.choice(('github', 'bitbucket'))
        n = rng.choice((5, 5, 6, 8))
        yield 'random3 %s' % host, {'host': host, 'cap': rng.choice((1, 2, 2, 2, 3)),
                                     'ops': tuple(random_op(rng, host, COMMITS6[:3], one_key=True)
                                                  for _ in range(n))}


def gen_lru(ctx):
    rng = common.rng_for(ctx.seed, 'C17', 'lru', 'search' if ctx.searching else '')
    for _ in range((20000 if ctx.tier == 'thorough' else 3000) * ctx.scale):
        cap = rng.choice((0, 1, 1, 2, 2, 3))
        acc = []
        for _ in range(rng.randrange(1, 13)):
            k = rng.choice('abcd')
            acc.append(('g', k) if rng.random() < 0.45 else ('s', k, rng.choice('uvw')))
        yield 'lru cap=%d' % cap, {'cap': cap, 'accesses': tuple(acc)}


# --------------------------------------------------------------------------- workers

def _work_agg(chunk):
    out = []
    for runs in chunk:
        obs = real_agg(runs)
        out.append((obs, oracle_agg(runs, obs)))
    return out


def _work_sm(chunk):
    out = []
    for case in chunk:
        obs, uses = real_sm(case)
        out.append((obs, [(key, what, uses) for key, what in oracle_sm(case, obs, uses)]))
    return out


def _pmap(fn, items, chunk=500):
    chunks = [items[i:i + chunk] for i in range(0, len(items), chunk)]
    if len(items) < 2000 or common.NCPU <= 1:
        return [r for ch in chunks for r in fn(ch)]
    with multiprocessing.get_context('fork').Pool(common.NCPU) as pool:
        return [r for part in pool.imap(fn, chunks) for r in part]


def jsonable_case(kind, case):
    if kind == 'agg':
        return {'kind': 'agg', 'runs': [list(r) for r in case]}
    if kind == 'lru':
        return {'kind': 'lru', 'cap': case['cap'], 'accesses': [list(a) for a in case['accesses']]}
    d = {'kind': 'sm', 'host': case['host'], 'cap': case['cap'], 'ops': json.loads(json.dumps(case['ops']))}
    if 'shape' in case:
        d['shape'] = case['shape']
    return d


def from_json(d):
    """Inverse of jsonable_case (corpus entries and replay payloads)."""
    if d['kind'] == 'agg':
        return 'agg', tuple(tuple(r) for r in d['runs'])
    if d['kind'] == 'lru':
        return 'lru', {'cap': d['cap'], 'accesses': tuple(tuple(a) for a in d['accesses'])}

    def tup(op):
        op = list(op)
        if op[0] == 'gp' and not isinstance(op[3], str):
            op[3] = (tuple(tuple(s) for s in op[3][0]), op[3][1])
        return tuple(op)
    case = {'host': d['host'], 'cap': d['cap'], 'ops': tuple(tup(o) for o in d['ops'])}
    if 'shape' in d:
        case['shape'] = d['shape']
    return 'sm', case


def corpus_cases():
    d = os.path.join(common.CORPUS_DIR, PID)
    res = []
    if os.path.isdir(d):
        for name in sorted(os.listdir(d)):
            if name.endswith('.json'):
                with open(os.path.join(d, name)) as fh:
                    payload = json.load(fh)
                res.append((name, from_json(payload.get('input', payload))))
    return res


# --------------------------------------------------------------------------- the check

class CountedSet(set):
    """The distinct non-trivial cases: the cases of the exhaustive parts are distinct by construction and are only
    counted (`extra`), the sampled ones are kept as hashes (those that fall in an exhaustive family are skipped)."""
    extra = 0

    def __len__(self):
        return set.__len__(self) + self.extra


def _in_exhaustive_family(ctx, kind, case):
    if ctx.searching:
        return False
    if kind == 'sm':
        return (case['cap'] in (1, 2) and len(case['ops']) == exhaustive_len(ctx, case['cap'])
                and all(op in _REDUCED_SET[case['host']] for op in case['ops']))
    return False        # sampled run lists have 4-6 runs, the exhaustive ones at most 3



def _evaluate(res, ctx, kind, tagged, real_results, model_answers):
    """Compare and record. tagged: [(tag, case)], real_results: [(obs, oracle)], model_answers: [str|None]."""
    for (tag, case), (obs, orc), ans in zip(tagged, real_results, model_answers):
        res.evaluations += 1
        res.count(tag)
        if kind == 'agg':
            res.count('agg:' + obs.split(' ')[0] + (' KeyError' if obs.startswith('crash') else ''))
            if any(r[0] != 'workflow_dispatch' for r in case):
                if tag.startswith('n=') and 'random' not in tag:
                    res.distinct.extra += 1
                else:
                    res.distinct.add(hash(('agg', case)))
            fails = [orc] if orc else []
        elif kind == 'sm':
            for step in obs.split(';'):
                res.count('answer:' + step.split('|')[0])
            if 'shape' in case:
                res.count('recency:' + case['shape'])
            if len(case['ops']) > 1:
                if tag.startswith('exhaustive'):
                    res.distinct.extra += 1
                elif not _in_exhaustive_family(ctx, kind, case):
                    res.distinct.add(hash(('sm', case['host'], case['cap'], case['ops'])))
            fails = orc
        else:
            res.distinct.add(hash(('lru', case['cap'], case['accesses'])))
            fails = []
        for f in fails:
            key, what = f[0], f[1]
            res.oracle_failures.append({'key': key, 'what': what, 'input': jsonable_case(kind, case),
                                        'observation': obs if len(f) < 3 else {'answers|cache': obs,
                                                                                 'cache calls': f[2]}})
        if ans is not None:
            res.model_compared += 1
            if ans != obs:
                res.disagreements.append({'input': jsonable_case(kind, case), 'real': obs, 'model': ans})
        if len(res.samples) < 9 and res.evaluations % 49999 == 7:
            res.samples.append({'input': jsonable_case(kind, case), 'real': obs, 'model': ans})


def _run_part(res, ctx, kind, tagged):
    if not tagged:
        return
    cases = [c for _, c in tagged]
    if kind == 'agg':
        real = _pmap(_work_agg, cases, 2000)
        lines = [line_agg(c) for c in cases]
    elif kind == 'sm':
        real = _pmap(_work_sm, cases, 250)
        lines = [line_sm(c) for c in cases]
    else:
        real = [(real_lru(c), None) for c in cases]
        lines = [line_lru(c) for c in cases]
    answers = ctx.model.ask_parallel(lines) if ctx.model else [None] * len(lines)
    _evaluate(res, ctx, kind, tagged, real, answers)


def correspondence(ctx):
    res = Result()
    res.distinct = CountedSet()
    res.rule = ('(a) every list of <= 2 runs over 3 events x 4 statuses x {success, failure, cancelled, None} x 3 '
                'workflow ids x 2 branches and every list of 3 runs over a reduced alphabet (each order is a '
                'distinct list), random lists of 4-6 runs (5% with a conclusion outside the ranking); '
                '(l) random get/set sequences on LRUCache of size 0-3; '
                '(b) sequences of webhook events and polls over 2 commits x 2 build keys on both host classes, '
                'cache size 1-3: every sequence of a 16-operation alphabet (length 3 quick; thorough: length 5 '
                'at size 1, length 4 at size 2; prefixes observed) and random sequences of 5-8 operations of the full alphabet (404, partial '
                'reports, check-suite events, INPROGRESS/STOPPED); sequences over 3-6 commits under one key at size 2-3 '
                'in which use order and insertion order differ (green commit, size-1 fillers, the green commit read '
                'again by a poll / a status event / not at all, 1..size new commits, host now FAILED, poll; a third '
                'with one random operation inserted) and random sequences of 5-8 operations over 3 commits, 3 in 4 on one '
                'key; the oracle judges "most recently used" by its own bookkeeping of the get hits and sets the real code '
                'made. distinct = distinct input with at least one considered run / two operations')
    # corpus first
    for name, (kind, case) in corpus_cases():
        _run_part(res, ctx, kind, [('corpus ' + name, case)])
    res.extra['corpus_replayed'] = len(corpus_cases())
    # in slices, to bound memory in the thorough tier
    import time
    for kind, gen in (('agg', gen_agg), ('lru', gen_lru), ('sm', gen_sm)):
        t0 = time.time()
        batch = []
        for item in gen(ctx):
            batch.append(item)
            if len(batch) >= 400000:
                _run_part(res, ctx, kind, batch)
                batch = []
        _run_part(res, ctx, kind, batch)
        res.extra.setdefault('wall_s_by_part', {})[kind] = round(time.time() - t0, 1)
    res.exhaustive = False      # the exhaustive parts are complemented by sampled ones
    if not res.samples:
        res.samples.append({'input': 'agg []', 'real': real_agg(())})
    return res


def replay(ctx, payload):
    f = payload['failure']['input'] if 'failure' in payload else payload.get('input', payload)
    kind, case = from_json(f)
    res = Result()
    res.distinct = CountedSet()
    _run_part(res, ctx, kind, [('replay', case)])
    res.samples.append({'input': f})
    return res
