"""C12 — held-back, finished and foreign pull requests are left alone: tie and oracle.

Two ties of the Lean model (`Model/Early.lean`: the pre-clone part of `handle_pull_request`) to the code:

 (a) system histories on the real BertE + mock host + real git: a fully approved, green pull request is
     combined with each hold (wait; after_pull_request on an open / declined / merged / unknown / non-numeric
     id; several dependencies; wait + dependency; decline; foreign source / destination), the hold being added
     and removed at every position; every Bert-E job is traced (was `clone_git_repo` reached, which classes went
     to `notify_user`, which pull request was handled) and compared with the model's decision; the property
     oracle is evaluated on the refs, pull requests and comments of the host before / after every job;
 (b) stub jobs: the real `handle_pull_request` with `clone_git_repo` replaced by a marker, on (source,
     destination) name pairs of the C18 grammar x status x dependencies x wait x greeting already posted.

Known finding D6 (key `hold-after-queued`): a hold or a decline placed after the pull request entered the
queue does not stop the queue merge."""
import json
import os
import re
from multiprocessing import Pool
from types import SimpleNamespace

from . import common
from .pipeline import Result

PID = 'C12'
TABLES = ['Early', 'Names', 'Messages', 'Reactor']
LEAN_TARGETS = ['BertE.Props.C12']
ASSUMPTIONS = [
    'the comment list, the status of the pull request and of its dependencies are those the git host returns at '
    'evaluation time; the mock host re-reads the comment list on every access (the greeting just posted is seen by '
    'handle_comments)',
    'D6 (known finding, key hold-after-queued): a wait / dependency / decline placed after the pull request entered '
    'the queue is not honoured by handle_merge_queues; C12_queue_partial covers pull requests never queued while held',
    'what a command comment (reset, help, ...) does once its handler runs belongs to C10/C15; here: it never creates '
    'or moves a branch (reset only deletes integration branches: theorem C12_held_refs on Flow.planReset)',
    'branch names are ASCII and do not end in a newline (domain of the C18 model)',
]
TRUSTED = [
    'Lean 4 kernel; axioms of every theorem audited (subset of propext, Classical.choice, Quot.sound)',
    'harness/tables/early.py: AST walk of _handle_pull_request / early_checks / send_greetings / check_dependencies; '
    'its EFFECTS classification of the callees (who can touch refs / create pull requests) is hand-written',
    'hand-written models lean/BertE/Model/Early.lean (decision), Model/Reactor.lean (C07), Model/Names.lean (C18), '
    'Model/Flow.lean (C01), each tied to the code by a differential run',
    'harness/c12.py: tracer around clone_git_repo / notify_user / _handle_pull_request of the real workflow module, '
    'stub job for the name pairs, mock git host, real git',
]

ROBOT, ADMIN, CONTRIB, PEER1 = 'robot', 'admin', 'contrib', 'peer1'
COMMAND_ANSWERS = {'help': {'HelpMessage'}, 'status': {'StatusReport'},
                   'build': {'CommandNotImplemented'}, 'retry': {'CommandNotImplemented'},
                   'clear': {'CommandNotImplemented'},
                   'reset': {'ResetComplete', 'LossyResetWarning'},
                   'force_reset': {'ResetComplete', 'LossyResetWarning'}}
ALL_COMMAND_ANSWERS = set().union(*COMMAND_ANSWERS.values())


def hexs(s):
    return ''.join('%02x' % ord(c) for c in s)


def exc_kind(name):
    """'silent' | 'message' | 'crash' for an exception class name, from the real class hierarchy"""
    import bert_e.exceptions as exc
    cls = getattr(exc, name, None)
    if cls is None:
        return 'crash'
    if issubclass(cls, exc.SilentException):
        return 'silent'
    if issubclass(cls, exc.TemplateException):
        return 'message'
    return 'crash'


def model_line(status, robot_author, src, dst, dst_exists, prs, cmdline, pr_author, comments, refetch=True,
               admins=(ADMIN,)):
    return 'C12 pr %s %d %s %s %d %s %s %s %s %s %d%s' % (
        status, 1 if robot_author else 0, hexs(src) or '', hexs(dst) or '', 1 if dst_exists else 0,
        ','.join('%d=%s' % (k, v) for k, v in sorted(prs.items())) or '-',
        ','.join(sorted(cmdline)) or '-', ','.join(admins) or '-', pr_author, ROBOT, 1 if refetch else 0,
        ''.join(' %s:%s' % (a, hexs(t)) for a, t in comments))


def parse_answer(a):
    parts = a.split(' ')
    d = {'decision': parts[0]}
    for p in parts[1:]:
        k, v = p.split('=', 1)
        d[k] = v
    return d


# =========================================================================== oracle's own reading of names
# Property text: destination not development/stabilization/hotfix; source user/*, hotfix/* or unrecognised.

_DST_OK = re.compile(r'^(development/\d+(\.\d+)?|stabilization/\d+\.\d+\.\d+|hotfix/\d+\.\d+\.\d+)$')
_SRC_FOREIGN = re.compile(r'^(user/|hotfix/)')


def feature_prefixes():
    import bert_e.workflow.gitwaterflow.branches as br
    return tuple(br.FeatureBranch.all_prefixes)


def clearly_handled(src, dst):
    """names the property text leaves no doubt about: a feature-prefixed or development / stabilization source
    and a development / stabilization / hotfix destination"""
    pfx = '|'.join(re.escape(p) for p in feature_prefixes())
    return bool(_DST_OK.match(dst)) and '\n' not in src + dst and bool(
        re.match(r'^((%s)/[^\n]+|development/\d+(\.\d+)?|stabilization/\d+\.\d+\.\d+)$' % pfx, src))


def oracle_foreign(src, dst, recognised_src):
    """the pair is one the property says Bert-E does not handle; `recognised_src`: some class of the
    factory accepts the source name (asked from the real `branch_factory`, not from the model)"""
    if not _DST_OK.match(dst) or '\n' in dst:
        return True
    if _SRC_FOREIGN.match(src) or not recognised_src:
        return True
    return False


# =========================================================================== (b) stub jobs

class Proceed(Exception):
    """marker: `clone_git_repo` was reached"""


class Redirect(Exception):
    """marker: `handle_parent_pull_request` was called"""


class CommandRan(Exception):
    def __init__(self, name):
        super().__init__(name)
        self.name = name


_STUB = {}


def stub_setup():
    """markers in the real workflow module, once per (worker) process — never in the process that runs Worlds"""
    if _STUB:
        return _STUB
    from . import stubs  # noqa
    import inspect
    import bert_e.workflow.gitwaterflow as gwf
    from bert_e.reactor import Reactor
    gwf.setup({})

    def clone(job):
        raise Proceed()

    def parent(job, child, is_child=True):
        raise Redirect()
    gwf.clone_git_repo = clone
    gwf.handle_parent_pull_request = parent
    for key, cmd in list(Reactor.get_commands().items()):
        sig = inspect.signature(cmd.handler)

        def marker(job, *args, _sig=sig, _key=key):
            _sig.bind(job, *args)
            raise CommandRan(_key)
        Reactor.set_callback(key, cmd._replace(handler=marker))
    _STUB['gwf'] = gwf
    return _STUB


class StubPr:
    def __init__(self, case):
        self.id = 1
        self.author = ROBOT if case['robot_author'] else CONTRIB
        self.author_display_name = self.author
        self.status = case['status']
        self.src_branch = case['src']
        self.dst_branch = case['dst']
        self._comments = [SimpleNamespace(author=a, text=t) for a, t in case['comments']]
        self.posted = []
        self.bot_status = []
        self.description = ''

    @property
    def comments(self):          # like the mock host: read again on every access
        return list(self._comments)

    def add_comment(self, msg):
        self.posted.append(msg)
        self._comments.append(SimpleNamespace(author=ROBOT, text=msg))

    def set_bot_status(self, *a, **k):
        self.bot_status.append(a)


def run_stub(case):
    """the real `handle_pull_request` on a stub job. Returns the observation dict."""
    from .stubs import make_job
    S = stub_setup()
    gwf = S['gwf']
    import bert_e.exceptions as exc
    pr = StubPr(case)
    prs = {int(k): v for k, v in case['prs'].items()}

    def get_pull_request(n):
        assert type(n) is int
        if n not in prs:
            raise Exception('Did not find this pr')
        return SimpleNamespace(id=n, status=prs[n])
    repo = SimpleNamespace(get_pull_request=get_pull_request, full_name='owner/slug')
    job = make_job({}, {'admins': [ADMIN], 'robot': ROBOT, 'no_comment': False, 'interactive': False,
                        'send_bot_status': False}, author=pr.author, repo=repo, pr=pr)
    job.bert_e.client = SimpleNamespace(login=ROBOT)
    job.git.repo = SimpleNamespace(remote_branch_exists=lambda name: case['dst_exists'])
    notified = []
    orig_notify = gwf.notify_user

    def notify(settings, pull_request, comment):
        notified.append(type(comment).__name__)
        return orig_notify(settings, pull_request, comment)
    gwf.notify_user = notify
    try:
        try:
            gwf.handle_pull_request(job)
            decision = 'returned'
        except Proceed:
            decision = 'proceed'
        except Redirect:
            decision = 'redirect'
        except CommandRan as e:
            decision = 'command:' + e.name
        except exc.SilentException as e:
            decision = 'silent:' + type(e).__name__
        except exc.TemplateException as e:
            decision = 'message:' + type(e).__name__
        except Exception as e:
            decision = 'crash:' + type(e).__name__
    finally:
        gwf.notify_user = orig_notify
    return {'decision': decision, 'greet': 1 if 'InitMessage' in notified else 0, 'notified': notified,
            'posted': len(pr.posted), 'greeting_first': bool(pr.posted) and pr.posted[0].lstrip().startswith('# Hello')}


def recognised(name):
    import bert_e.workflow.gitwaterflow.branches as br
    try:
        br.branch_factory(None, name)
        return True
    except Exception:
        return False


def stub_line(case):
    return model_line(case['status'], case['robot_author'], case['src'], case['dst'], case['dst_exists'],
                      {int(k): v for k, v in case['prs'].items()}, [], ROBOT if case['robot_author'] else CONTRIB,
                      case['comments'])


def stub_oracle(case, obs):
    """exactly the property, on one stub evaluation. Returns a list of failures."""
    fails = []
    st = case['status']
    foreign = oracle_foreign(case['src'], case['dst'], recognised(case['src']))
    finished = st not in ('OPEN', 'DECLINED')
    texts = [t for a, t in case['comments'] if a != ROBOT]
    wait = any(re.match(r'^@robot wait$', t) for t in texts)
    ids = [m.group(1) for t in texts for m in [re.match(r'^@robot after_pull_request=(\d+)$', t)] if m]
    unmet = any(case['prs'].get(str(int(i))) != 'MERGED' for i in ids)
    held = foreign or finished or wait or unmet
    if case['robot_author']:
        return fails            # the job is about the parent pull request
    if held and obs['decision'] == 'proceed':
        # on a stub job the marker in place of clone_git_repo stands for everything that follows it (integration
        # branches, queue, merge): reaching it is "the evaluation goes on"
        fails.append({'key': 'held-proceeds', 'what': 'the evaluation of a held pull request goes on to the clone and '
                      'what follows it (foreign=%s finished=%s wait=%s deps=%s)' % (foreign, finished, wait, unmet)})
    if (foreign or finished) and obs['decision'] not in ('silent:NotMyJob', 'silent:NothingToDo',
                                                          'crash:UnrecognizedBranchPattern'):
        fails.append({'key': 'foreign-outcome', 'what': 'a pull request Bert-E does not handle ends with %s'
                      % obs['decision']})
    if (foreign or finished) and obs['posted']:
        fails.append({'key': 'foreign-comment', 'what': 'a pull request Bert-E does not handle gets a comment: %s'
                      % obs['notified']})
    if not held and not case['has_command'] and case['dst_exists'] and clearly_handled(case['src'], case['dst']) \
            and obs['decision'] != 'proceed':
        fails.append({'key': 'free-stopped', 'what': 'no hold, yet the evaluation stops before the clone: %s'
                      % obs['decision']})
    for f in fails:
        f['observation'] = obs
    return fails


# --- generation of the stub cases

HAND_NAMES = [
    'feature/TEST-1', 'bugfix/TEST-2', 'improvement/x', 'project/p', 'documentation/d', 'design/x', 'dependabot/npm/x',
    'epic/E-1', 'bug/b', 'feature/', 'feature', 'Feature/x', 'features/x', 'user/jo/x', 'user/', 'hotfix/4.3.18',
    'hotfix/foo', 'hotfix/4.3', 'hotfix/4.3.18.1', 'release/4.3', 'release/4', 'w/4.3/feature/x', 'w/4/bugfix/y',
    'q/4.3', 'q/4', 'q/w/1/4.3/feature/x', 'q/w/x', 'development/4.3', 'development/4', 'development/10.0',
    'development/4.3.1', 'development/', 'development', 'stabilization/4.3.18', 'stabilization/4.3',
    'stabilization/4', 'master', 'main', 'foo/bar', '', ' development/4.3', 'development/4.3 ', 'dev/4.3',
    'DEVELOPMENT/4.3', 'development/x.y', 'feature/a b', 'ug/x', 'wip', 'w/feature/x', 'tmp/octopus/w',
]
DST_HANDLED = ['development/4.3', 'development/4', 'development/10.0', 'stabilization/4.3.18', 'hotfix/4.3.18']
SRC_HANDLED = ['feature/TEST-1', 'bugfix/TEST-2', 'improvement/x', 'epic/E-1', 'development/4.3',
               'stabilization/4.3.18', 'dependabot/npm/x']
STATUSES = ['OPEN', 'OPEN', 'OPEN', 'DECLINED', 'MERGED', 'SUPERSEDED', 'open', '']
HOLD_TEXTS = ['@robot wait', '@robot after_pull_request=2', '@robot after_pull_request=3',
              '@robot after_pull_request=4', '@robot after_pull_request=999', '@robot after_pull_request=abc',
              '@robot after_pull_request=2 after_pull_request=3', '@robot after_pull_request=02',
              '@robot wait after_pull_request=2', '/wait', '/after_pull_request=3', '@robot wait=',
              '@robot wait=no', '@robot unanimity', 'hello', '@robot after_pull_request', '@robot wat',
              '@robot reset', '@robot help', '@robot status', '@robot bypass_build_status']
HOLD_ORACLE_TEXTS = {'@robot wait', '@robot after_pull_request=2', '@robot after_pull_request=3',
                     '@robot after_pull_request=4', '@robot after_pull_request=999', '@robot after_pull_request=abc',
                     '@robot unanimity', 'hello', '@robot reset', '@robot help', '@robot status'}
HOST_PRS = {'2': 'OPEN', '3': 'MERGED', '4': 'DECLINED'}


def name_pool(rng, n):
    """names of the C18 grammar (its bounded enumeration, sampled) plus the hand list"""
    from . import c18
    pool = []
    prefixes = feature_prefixes()
    for batch in c18.gen_names('quick', 1, prefixes):
        pool += [s for s in batch if not s.endswith('\n') and all(ord(c) < 128 for c in s)]
        if len(pool) > 400000:
            break
    return [rng.choice(pool) for _ in range(n)]


def gen_stub_cases(rng, n_pairs, n_combo):
    cases = []

    def case(src, dst, status='OPEN', robot_author=False, dst_exists=True, comments=(), prs=None, oracle=True):
        texts = [t for a, t in comments]
        return {'src': src, 'dst': dst, 'status': status, 'robot_author': robot_author, 'dst_exists': dst_exists,
                'comments': [list(c) for c in comments], 'prs': dict(HOST_PRS if prs is None else prs),
                'has_command': any(re.match(r'^@robot (reset|help|status|build|retry|clear|force_reset)', t)
                                   for t in texts),
                'oracle': oracle and all(t in HOLD_ORACLE_TEXTS for a, t in comments if a != ROBOT)}
    # every hand name x every hand name: the full matrix
    for s in HAND_NAMES:
        for d in HAND_NAMES:
            cases.append(case(s, d))
    # sampled grammar names against handled / sampled counterparts
    pool = name_pool(rng, 2 * n_pairs)
    for k in range(n_pairs):
        a, b = pool[2 * k], pool[2 * k + 1]
        r = rng.random()
        if r < 0.35:
            cases.append(case(a, rng.choice(DST_HANDLED)))
        elif r < 0.7:
            cases.append(case(rng.choice(SRC_HANDLED), b))
        else:
            cases.append(case(a, b))
    # holds x status x greeting x destination present, on handled and foreign pairs
    for _ in range(n_combo):
        src = rng.choice(SRC_HANDLED if rng.random() < 0.9 else HAND_NAMES)
        dst = rng.choice(DST_HANDLED if rng.random() < 0.9 else HAND_NAMES)
        comments = []
        if rng.random() < 0.5:
            comments.append((ROBOT, '# Hello contrib'))
        for _k in range(rng.choice([0, 1, 1, 2, 3])):
            comments.append((rng.choice([CONTRIB, CONTRIB, ADMIN, PEER1]), rng.choice(HOLD_TEXTS)))
        if rng.random() < 0.15:
            comments.append((ROBOT, '# Waiting for other pull request(s)'))
        if rng.random() < 0.2:
            rng.shuffle(comments)
        cases.append(case(src, dst, status=rng.choice(STATUSES), robot_author=rng.random() < 0.05,
                          dst_exists=rng.random() < 0.9, comments=comments))
    return cases


def _stub_work(chunk):
    out = []
    for c in chunk:
        obs = run_stub(c)
        out.append((obs, stub_oracle(c, obs) if c['oracle'] else []))
    return out


def compare_stub(case, obs, ans):
    """None or a description of the difference"""
    m = parse_answer(ans)
    if m['decision'] != obs['decision']:
        return 'decision: real %s, model %s' % (obs['decision'], m['decision'])
    if int(m['greet']) != obs['greet']:
        return 'greeting: real %d, model %s' % (obs['greet'], m['greet'])
    want = (['InitMessage'] if m['greet'] == '1' else []) + \
        ([m['decision'].split(':')[1]] if m['decision'].startswith('message:') else [])
    if obs['notified'] != want:
        return 'notified: real %s, model %s' % (obs['notified'], want)
    return None


def check_stubs(ctx, res, cases, tag):
    n = common.NCPU
    size = max(1, (len(cases) + 4 * n - 1) // (4 * n))
    chunks = [cases[i:i + size] for i in range(0, len(cases), size)]
    with Pool(n) as pool:
        outs = [o for part in pool.map(_stub_work, chunks) for o in part]
    answers = ctx.model.ask_parallel([stub_line(c) for c in cases]) if ctx.model is not None else None
    for k, (c, (obs, fails)) in enumerate(zip(cases, outs)):
        res.evaluations += 1
        res.count('stub:%s:%s' % (tag, obs['decision'].split(':')[0]))
        if obs['decision'] not in ('proceed',):
            res.count('stub-class:' + obs['decision'])
        res.distinct.add(('stub', c['src'], c['dst'], c['status'], obs['decision'], obs['greet'],
                          tuple(t for a, t in c['comments'])))
        for f in fails:
            f = dict(f)
            f['input'] = {'stub': c}
            res.oracle_failures.append(f)
        if answers is not None:
            res.model_compared += 1
            why = compare_stub(c, obs, answers[k])
            if why:
                res.disagreements.append({'input': {'stub': c}, 'real': obs, 'model': answers[k], 'why': why})
        if len(res.samples) < 4 and obs['decision'] not in ('silent:NotMyJob', 'proceed') and k % 97 == 0:
            res.samples.append({'stub': c, 'real': obs})


# =========================================================================== (a) system histories

TRACE = {'cloned': 0, 'notified': [], 'handled': [], 'redirect': []}


def trace_reset():
    TRACE.update(cloned=0, notified=[], handled=[], redirect=[])


def install_tracers():
    import bert_e.workflow.gitwaterflow as gwf
    if getattr(gwf, '_c12_traced', False):
        return
    o_clone, o_notify, o_inner, o_parent = (gwf.clone_git_repo, gwf.notify_user, gwf._handle_pull_request,
                                            gwf.handle_parent_pull_request)

    def clone(job):
        TRACE['cloned'] += 1
        return o_clone(job)

    def notify(settings, pull_request, comment):
        TRACE['notified'].append((pull_request.id, type(comment).__name__))
        return o_notify(settings, pull_request, comment)

    def inner(job):
        TRACE['handled'].append(job.pull_request.id)
        return o_inner(job)

    def parent(job, child_pr, is_child=True):
        TRACE['redirect'].append(child_pr.id)
        return o_parent(job, child_pr, is_child)
    gwf.clone_git_repo, gwf.notify_user, gwf._handle_pull_request, gwf.handle_parent_pull_request = \
        clone, notify, inner, parent
    gwf._c12_traced = True


TEMPLATES = [
    (['development/4.3'], []),
    (['development/4.3', 'development/5.1'], []),
    (['development/4.3', 'development/5.1', 'development/10.0'], []),
    (['stabilization/4.3.18', 'development/4.3', 'development/5.1'], ['4.3.17']),
    (['development/4.3', 'development/5.1', 'hotfix/4.2.17'], ['4.2.17.0']),
]
HOLDS = ['wait', 'after-open', 'after-declined', 'after-merged', 'after-unknown', 'after-nonnumeric',
         'several', 'wait+after', 'decline', 'foreign-src', 'foreign-dst', 'wait-admin', 'after-open-delete']
FOREIGN_SRC = ['user/jo/TEST-0001', 'hotfix/fix-it', 'wip-TEST-0001', 'release/4.3']
FOREIGN_DST = ['release/4.3', 'feature/base', 'user/base', 'master']


def gen_history(i, rng, d6=None):
    """History number `i`: hold kind, positions of its addition and removal enumerated by `i`, the rest random.
    Returns (cfg, mode, events, meta)."""
    from .system import Config
    hold = d6 or HOLDS[i % len(HOLDS)]
    k = i // len(HOLDS)
    mode = ['queue', 'noqueue', 'queue', 'queue-skip'][k % 4] if not d6 else 'queue'
    j = k // 4 + k + i % len(HOLDS)        # walks through every (addition, removal) pair for each hold and mode
    dests, tags = rng.choice(TEMPLATES)
    author_approval = rng.random() < 0.3
    peers = rng.choice([0, 0, 1])
    cfg = Config(dests, tags, use_queue=mode != 'noqueue', skip_queue=mode == 'queue-skip',
                 no_octopus=rng.random() < 0.3, create_prs=rng.random() < 0.5, create_branches=True,
                 peers=peers, leaders=0, author_approval=author_approval, options=['bypass_jira_check'])
    dst = rng.choice(dests)
    src = 'feature/TEST-0001'
    if hold == 'foreign-src':
        src = rng.choice(FOREIGN_SRC)
    evs = []
    if hold == 'foreign-dst':
        dst = rng.choice(FOREIGN_DST)
        evs.append({'op': 'mkbranch', 'name': dst, 'from': dests[0]})
    evs.append({'op': 'open', 'pr': 1, 'dst': dst, 'src': src})
    ndeps = {'after-open': 1, 'after-declined': 1, 'after-merged': 1, 'several': 2, 'wait+after': 1,
             'after-open-delete': 1}.get(hold, 0)
    real_dests = [d for d in dests]
    for k in range(ndeps):
        evs.append({'op': 'open', 'pr': 2 + k, 'dst': rng.choice(real_dests),
                    'src': '%s/TEST-%04d' % (rng.choice(['bugfix', 'improvement']), 2 + k)})
    for p in range(1, 2 + ndeps):
        if author_approval:
            evs.append({'op': 'approve', 'pr': p, 'user': CONTRIB})
        if peers:
            evs.append({'op': 'approve', 'pr': p, 'user': PEER1})
    if hold == 'after-merged' or (hold == 'several'):
        evs += [{'op': 'progress', 'pr': 2}] * 3            # dependency 2 is merged first
    if hold == 'after-declined':
        evs.append({'op': 'decline', 'pr': 2})
    # number of `progress` steps that take a free pull request to the merge
    if dst.startswith('hotfix/') or dst not in dests:
        ntargets = 1
    else:
        ntargets = 1 + sum(1 for d in dests[dests.index(dst) + 1:] if d.startswith('development/'))
    nsteps = (1 if ntargets == 1 else 2) + (0 if mode == 'noqueue' else 1)
    base = [{'op': 'progress', 'pr': 1} for _ in range(nsteps)] + [{'op': 'eval_pr', 'pr': 1}]
    # positions: the hold is added before base step `a` (0..nsteps) and removed before base step `b` (a..nsteps+1;
    # nsteps+1 = never)
    if d6:
        a, b = nsteps - 1, nsteps + 1                        # after `Queued`, never removed
    else:
        pairs = [(a, b) for a in range(nsteps + 1) for b in range(a, nsteps + 2)]
        a, b = pairs[j % len(pairs)]
    add, lift = hold_events(hold, rng)
    probes = [{'op': 'eval_pr', 'pr': 1}, {'op': 'eval_commit', 'pr': 1, 'ref': 'src'},
              {'op': 'eval_commit', 'pr': 1, 'ref': 'w'}]
    if rng.random() < 0.15 and hold not in ('foreign-src', 'foreign-dst'):
        probes.append({'op': 'comment', 'pr': 1, 'user': CONTRIB, 'text': '@robot reset'})
        probes.append({'op': 'eval_pr', 'pr': 1})
    body = []
    for k, st in enumerate(base + [None]):
        if k == a:
            body += add
            body += [rng.choice(probes[:2])] if not d6 else [probes[0]]
            if len(probes) > 3 and rng.random() < 0.5:
                body += probes[3:]
        if k == b:
            body += lift
        if st is not None:
            body.append(st)
            if a <= k < b and rng.random() < 0.4:
                body.append(rng.choice(probes[:3]))
    evs += body
    # completion: enough steps for a free pull request to be merged
    evs += [{'op': 'progress', 'pr': 1, 'completion': True}] * (nsteps + 1) + [{'op': 'eval_pr', 'pr': 1}]
    meta = {'hold': hold, 'a': a, 'b': b, 'mode': mode, 'd6': bool(d6)}
    return cfg, mode, evs, meta


def hold_events(hold, rng):
    """(events that place the hold, events that lift it)"""
    def c(text, user=CONTRIB, tag=None):
        return {'op': 'comment', 'pr': 1, 'user': user, 'text': text, 'tag': tag or text}

    def rm(tag):
        return {'op': 'delete_comment', 'pr': 1, 'tag': tag}
    merge2 = [{'op': 'progress', 'pr': 2}] * 4
    merge3 = [{'op': 'progress', 'pr': 3}] * 4
    if hold == 'wait':
        return [c('@robot wait')], [rm('@robot wait')]
    if hold == 'wait-admin':
        return [c('/wait', ADMIN)], [rm('/wait')]
    if hold == 'after-open':
        return [c('@robot after_pull_request={2}')], merge2
    if hold == 'after-open-delete':
        return [c('@robot after_pull_request={2}')], [rm('@robot after_pull_request={2}')]
    if hold == 'after-declined':
        return [c('@robot after_pull_request={2}')], [rm('@robot after_pull_request={2}')]
    if hold == 'after-merged':
        return [c('@robot after_pull_request={2}')], []
    if hold == 'after-unknown':
        return [c('@robot after_pull_request=999')], [rm('@robot after_pull_request=999')]
    if hold == 'after-nonnumeric':
        return [c('@robot after_pull_request=abc')], []
    if hold == 'several':
        if rng.random() < 0.5:
            return [c('@robot after_pull_request={2} after_pull_request={3}')], merge3
        return [c('@robot after_pull_request={2}'), c('@robot after_pull_request={3}', ADMIN)], merge3
    if hold == 'wait+after':
        return [c('@robot wait'), c('@robot after_pull_request={2}')], [rm('@robot wait')] + merge2
    if hold == 'decline':
        return [{'op': 'decline', 'pr': 1}], []
    if hold in ('foreign-src', 'foreign-dst'):
        return [], []
    raise ValueError(hold)


def state_of(host, pid):
    for p in host:
        if p['id'] == pid:
            return p['state']
    return None


class Run12:
    """Executes a C12 history on a World: the events of `histories.Run` plus `delete_comment` and `mkbranch`;
    every Bert-E job is traced, compared with the model and judged by the oracle."""

    def __init__(self, cfg, model, base_dir=None):
        from .histories import Run
        self.run = Run(cfg, base_dir)
        install_tracers()
        self.w = self.run.w
        self.cfg = cfg
        self.model = model
        self.failures = []
        self.disagreements = []
        self.compared = 0
        self.stats = {}
        self.statuses = []
        self.hold_comments = {}      # pr index -> list of {'tag', 'text'}  (the oracle's own bookkeeping)

    def close(self):
        self.run.close()

    def count(self, k, n=1):
        self.stats[k] = self.stats.get(k, 0) + n

    # -- the host as the oracle and the model line see it -------------------------------------------------
    def snapshot(self):
        w = self.w
        host = w.prs()
        return {'refs': w.refs(), 'host': host,
                'comments': {p['id']: w.comments(p['id']) for p in host}}

    def subst(self, text):
        def f(m):
            pr = self.run.prs.get(int(m.group(1)))
            return str(pr['id']) if pr else '998'
        return re.sub(r'\{(\d+)\}', f, text)

    # -- the oracle's own idea of the holds ------------------------------------------------------------------
    def holds_of(self, idx, snap):
        """(set of hold names, detail) for pull request index `idx` in snapshot `snap`"""
        pr = self.run.prs[idx]
        holds = set()
        st = state_of(snap['host'], pr['id'])
        if st not in ('OPEN', 'DECLINED'):
            holds.add('finished')
        if st == 'DECLINED':
            holds.add('declined')
        if oracle_foreign(pr['src'], pr['dst'], recognised(pr['src'])):
            holds.add('foreign')
        present = [t for a, t in snap['comments'].get(pr['id'], [])]
        for h in self.hold_comments.get(idx, []):
            if h['text'] not in present:
                continue
            t = h['text']
            if re.search(r'(^|[ /])wait$', t) or ' wait ' in t:
                holds.add('wait')
            for m in re.finditer(r'after_pull_request=(\w+)', t):
                v = m.group(1)
                if v.isdigit() and state_of(snap['host'], int(v)) != 'MERGED':
                    holds.add('deps')
        return holds

    # -- one event --------------------------------------------------------------------------------------------
    def execute(self, n, ev):
        op = ev['op']
        w = self.w
        self.count('ev:' + op)
        if op == 'mkbranch':
            w.user_branch(ev['name'], ev['from'], author='dev')
            return
        if op == 'delete_comment':
            pr = self.run.prs.get(ev['pr'])
            hs = self.hold_comments.get(ev['pr'], [])
            for h in list(hs):
                if h['tag'] == ev['tag']:
                    for c in list(w.mock.Comment.items):
                        if c.pull_request_id == pr['id'] and c.content['raw'] == h['text']:
                            w.mock.Comment.items.remove(c)
                    hs.remove(h)
            return
        if op == 'comment':
            ev = dict(ev)
            ev['text'] = self.subst(ev['text'])
            if ev['pr'] in self.run.prs:
                self.hold_comments.setdefault(ev['pr'], []).append({'tag': ev.get('tag', ev['text']), 'text': ev['text']})
        if op in ('open',) and ev['dst'] not in w.refs():
            return
        is_job = op in ('progress', 'eval_pr', 'eval_commit')
        if ev.get('completion') and ev['pr'] in self.run.prs and \
                state_of(w.prs(), self.run.prs[ev['pr']]['id']) == 'MERGED':
            return                     # completion step of a pull request that is merged already
        if not is_job:
            self.run.execute(ev)
            return
        before = self.snapshot()
        held_before = {idx: self.holds_of(idx, before) for idx in self.run.prs}
        trace_reset()
        kind, info = self.run.execute(ev)
        if kind != 'job':
            return
        tr = {k: (list(v) if isinstance(v, list) else v) for k, v in TRACE.items()}
        after = self.snapshot()
        status = info.get('status')
        self.statuses.append(status)
        self.count('status:%s' % status)
        self.compare_model(n, ev, before, after, tr, status)
        self.oracle(n, ev, before, after, tr, status, held_before)

    # -- model comparison ------------------------------------------------------------------------------------
    def compare_model(self, n, ev, before, after, tr, status):
        if self.model is None:
            return
        by_id = {p['id']: p for p in before['host']}
        lines, wants = [], []
        for pid in tr['redirect']:
            p = by_id.get(pid)
            if p is None:
                continue
            lines.append(self.line_for(p, before))
            wants.append({'decision': 'redirect', 'greet': 0, 'notified': []})
        for k, pid in enumerate(tr['handled']):
            p = by_id.get(pid)
            if p is None or k != len(tr['handled']) - 1:
                continue
            notified = [c for i, c in tr['notified'] if i == pid]
            if tr['cloned']:
                dec = 'proceed'
            elif status in ALL_COMMAND_ANSWERS:
                dec = 'command'
            else:
                dec = '%s:%s' % (exc_kind(status), status)
            lines.append(self.line_for(p, before))
            wants.append({'decision': dec, 'greet': 1 if 'InitMessage' in notified else 0, 'notified': notified,
                          'status': status})
        if not lines:
            return
        for line, want, ans in zip(lines, wants, self.model.ask(lines)):
            self.compared += 1
            m = parse_answer(ans)
            why = None
            md = m['decision']
            if want['decision'] == 'command':
                name = md.split(':', 1)[1] if md.startswith('command:') else None
                if name is None or want['status'] not in COMMAND_ANSWERS.get(name, ()):
                    why = 'decision: real command answer %s, model %s' % (want['status'], md)
            elif md != want['decision']:
                why = 'decision: real %s, model %s' % (want['decision'], md)
            if why is None and int(m['greet']) != want['greet']:
                why = 'greeting: real %d, model %s' % (want['greet'], m['greet'])
            if why is None and want['decision'] not in ('proceed', 'command', 'redirect'):
                exp = (['InitMessage'] if m['greet'] == '1' else []) + \
                    ([md.split(':')[1]] if md.startswith('message:') else [])
                if want['notified'] != exp:
                    why = 'notified: real %s, model %s' % (want['notified'], exp)
            self.count('model:' + md.split(':')[0])
            if why:
                self.disagreements.append({'at': n, 'event': ev, 'why': why, 'line': line, 'model': ans,
                                           'real': want})

    def line_for(self, p, before):
        comments = before['comments'].get(p['id'], [])
        prs = {q['id']: q['state'] for q in before['host']}
        return model_line(p['state'], p['author'] == ROBOT, p['src'], p['dst'], p['dst'] in before['refs'], prs,
                          self.cfg.options, p['author'], comments)

    # -- the property oracle ---------------------------------------------------------------------------------
    def oracle(self, n, ev, before, after, tr, status, held_before):
        w = self.w
        rb, ra = before['refs'], after['refs']
        for idx, holds in held_before.items():
            pr = self.run.prs[idx]
            pid = pr['id']
            if not holds:
                # no hold: an evaluation of this open pull request goes on to the clone
                if pid in tr['handled'] and state_of(before['host'], pid) == 'OPEN' and not tr['cloned'] \
                        and clearly_handled(pr['src'], pr['dst']) and pr['dst'] in rb \
                        and status not in ALL_COMMAND_ANSWERS:
                    self.fail(n, 'free-stopped', 'no hold on pull request %d, yet its evaluation stops before the '
                              'clone with %s' % (pid, status), ev, status)
                continue
            if idx == 1:
                self.count('held-job:' + '+'.join(sorted(holds)))
            esc = re.escape(pr['src'])
            mine = lambda name: re.match(r'^w/[0-9.]+/%s$' % esc, name) or name.startswith('q/w/%d/' % pid)  # noqa
            queued_before = any(name.startswith('q/w/%d/' % pid) for name in rb)
            # (1) no integration branch, no queue entry
            for name, sha in ra.items():
                if mine(name) and rb.get(name) != sha:
                    what = 'created' if name not in rb else 'moved'
                    self.fail(n, 'held-branch', 'pull request %d is held (%s) and %s was %s by %s -> %s'
                              % (pid, ','.join(sorted(holds)), name, what, ev['op'], status), ev, status)
            # (2) no merge
            was = self.merged_into(pr, rb)
            now = self.merged_into(pr, ra)
            if now - was:
                if queued_before:
                    self.fail(n, 'hold-after-queued', 'pull request %d was queued, then held (%s); %s -> %s merged it '
                              'into %s' % (pid, ','.join(sorted(holds)), ev['op'], status, sorted(now - was)), ev, status)
                else:
                    self.fail(n, 'held-merged', 'pull request %d is held (%s) and was never queued, yet %s -> %s merged '
                              'it into %s' % (pid, ','.join(sorted(holds)), ev['op'], status, sorted(now - was)),
                              ev, status)
            if pid not in tr['handled']:
                continue
            # (3) an evaluation of the held pull request itself: nothing is created or moved, no pull request appears
            if holds != {'declined'}:
                changed = sorted(name for name, sha in ra.items() if rb.get(name) != sha)
                if changed:
                    self.fail(n, 'held-refs', 'evaluation of held pull request %d (%s) created or moved %s'
                              % (pid, ','.join(sorted(holds)), changed), ev, status)
            if len(after['host']) != len(before['host']):
                self.fail(n, 'held-new-pr', 'evaluation of held pull request %d created a pull request' % pid, ev, status)
            # (4) comments
            new = after['comments'].get(pid, [])[len(before['comments'].get(pid, [])):]
            new_robot = [t for a, t in new if a == ROBOT]
            classes = [c for i, c in tr['notified'] if i == pid]
            if holds & {'foreign', 'finished'}:
                if new_robot:
                    self.fail(n, 'foreign-comment', 'pull request %d is not handled (%s) and got a comment (%s)'
                              % (pid, ','.join(sorted(holds)), classes), ev, status)

    def merged_into(self, pr, refs):
        """destination branches that contain the tip of the pull request's source"""
        from .system import git
        src = refs.get(pr['src'])
        if not src:
            return set()
        dests = {name: sha for name, sha in refs.items() if name != pr['src'] and _DST_OK.match(name)}
        key = (src, tuple(sorted(dests.items())))
        cache = self.__dict__.setdefault('_merged_cache', {})
        if key not in cache:
            out = git(self.w.bare, 'for-each-ref', '--contains', src, '--format=%(refname)', 'refs/heads')
            names = {l[len('refs/heads/'):] for l in out.split()}
            cache[key] = {n for n in dests if n in names}
        return set(cache[key])

    def fail(self, n, key, what, ev, status):
        self.failures.append({'key': key, 'what': what, 'at': n, 'observation': {'event': ev, 'status': status}})

    # -- end of the history ----------------------------------------------------------------------------------
    def final_check(self, meta, n):
        snap = self.snapshot()
        if 1 not in self.run.prs:
            return
        holds = self.holds_of(1, snap)
        pr = self.run.prs[1]
        st = state_of(snap['host'], pr['id'])
        if not (holds - {'finished'}) and st != 'MERGED' and not meta.get('no_completion') \
                and clearly_handled(pr['src'], pr['dst']):
            self.failures.append({'key': 'lifted-not-merged', 'at': n,
                                  'what': 'no hold is left on pull request %d, it is approved and green, yet after the '
                                          'completion steps its state is %s (%s)' % (pr['id'], st, self.statuses[-4:]),
                                  'observation': {'statuses': self.statuses}})
        self.count('final:%s' % ('merged' if st == 'MERGED' else 'held' if holds else 'open'))


def play12(cfg, events, meta, model, base_dir=None):
    r = Run12(cfg, model, base_dir)
    try:
        for n, ev in enumerate(events):
            r.execute(n, ev)
        r.final_check(meta, len(events))
        return {'stats': r.stats, 'failures': r.failures, 'disagreements': r.disagreements,
                'compared': r.compared, 'statuses': r.statuses}
    finally:
        r.close()


def _hist_work(args):
    seed, i, use_model, base, d6 = args
    rng = common.rng_for(seed, PID, 'hist', i, d6 or '')
    cfg, mode, evs, meta = gen_history(i, rng, d6)
    model = common.Model() if use_model else None
    try:
        out = play12(cfg, evs, meta, model, base)
    except Exception:
        import traceback
        return {'i': i, 'cfg': cfg.as_dict(), 'events': evs, 'meta': meta, 'error': traceback.format_exc()[-3000:]}
    out.update(i=i, cfg=cfg.as_dict(), events=evs, meta=meta)
    return out


def _corpus_work(args):
    fn, use_model, base = args
    from .system import Config
    with open(fn) as fh:
        h = json.load(fh)
    cfgd = dict(h['cfg'])
    cfg = Config(cfgd.pop('dests'), **cfgd)
    out = play12(cfg, h['events'], h.get('meta', {}), common.Model() if use_model else None, base)
    out.update(i='corpus:' + os.path.basename(fn), cfg=cfg.as_dict(), events=h['events'], meta=h.get('meta', {}))
    return out


RULE = ('(a) histories on the real BertE + mock host + real git: one pull request made fully approved (author / peer '
        'approvals as configured) and green (SUCCESSFUL reported on source, integration and queue commits before every '
        'step), 5 cascade templates x {queue, queue+skip, no queue} x octopus x integration PRs; 13 hold kinds (wait by '
        'author, /wait by admin, after_pull_request on an open / declined / merged / unknown (999) / non-numeric id, two '
        'dependencies in one or two comments, wait + dependency, decline, foreign source, foreign destination, '
        'dependency removed by deleting the comment) x every (addition, removal) position pair of the 2-3 step base '
        'history (enumerated by the history index) with PR and commit evaluations (source tip, integration tip) while '
        'held, reset commands on held pull requests, completion steps; 3 deliberate D6 shapes (queue, then wait / decline '
        '/ unknown dependency, then a commit event); every job traced and compared with the model. '
        '(b) stub jobs: real handle_pull_request with clone_git_repo as a marker on the full matrix of 50 hand names '
        '(every class of the factory, near misses, unknown, malformed) and on names sampled from the bounded C18 grammar, '
        'x status x greeting posted x destination present x up to 3 comments of 21 texts; '
        'non-trivial = distinct (names, status, comments, decision) stub cases / histories in which a job ran while the pull request was held')


def correspondence(ctx):
    res = Result()
    res.rule = RULE
    quick = ctx.tier == 'quick'
    use_model = ctx.model is not None
    base = common.scratch()
    # ---- (b) stubs
    rng = common.rng_for(ctx.seed, PID, 'stubs')
    n_pairs = (4000 if quick else 40000) * ctx.scale
    n_combo = (8000 if quick else 80000) * ctx.scale
    cases = []
    d = os.path.join(common.CORPUS_DIR, PID)
    corpus_hist = []
    if os.path.isdir(d):
        for fn in sorted(os.listdir(d)):
            if not fn.endswith('.json'):
                continue
            with open(os.path.join(d, fn)) as fh:
                h = json.load(fh)
            if 'stub' in h:
                cases.append(h['stub'])
            else:
                corpus_hist.append(os.path.join(d, fn))
    import time
    t0 = time.time()
    cases += gen_stub_cases(rng, n_pairs, n_combo)
    t1 = time.time()
    check_stubs(ctx, res, cases, 'all')
    common.log('C12 stubs: %d cases, generation %.1fs, run+model %.1fs' % (len(cases), t1 - t0, time.time() - t1))
    t0 = time.time()
    res.extra['stub_cases'] = len(cases)
    # ---- (a) histories
    n = (104 if quick else 2080) * ctx.scale
    jobs = [('corpus', fn) for fn in corpus_hist]
    work = [(ctx.seed, i, use_model, base, None) for i in range(n)]
    work += [(ctx.seed, k, use_model, base, h) for k, h in enumerate(['wait', 'decline', 'after-unknown'])]
    with Pool(common.NCPU) as pool:
        outs = pool.map(_corpus_work, [(fn, use_model, base) for _, fn in jobs], chunksize=1) if jobs else []
        outs += pool.map(_hist_work, work, chunksize=1)
    common.log('C12 histories: %d in %.1fs' % (len(outs), time.time() - t0))
    errors = [o for o in outs if 'error' in o]
    if errors:
        raise RuntimeError('history harness failed on %d histories; first: %s' % (len(errors), errors[0]['error']))
    for o in outs:
        res.evaluations += 1
        res.model_compared += o['compared']
        for k, v in o['stats'].items():
            res.count(k, v)
        meta = o.get('meta', {})
        res.count('hold:%s' % meta.get('hold'))
        res.count('mode:%s' % meta.get('mode'))
        if any(k.startswith('held-job:') for k in o['stats']):
            res.distinct.add(json.dumps([o['cfg'], o['events']], sort_keys=True, default=str))
        inp = {'cfg': o['cfg'], 'events': o['events'], 'meta': meta}
        for dd in o['disagreements']:
            res.disagreements.append({'input': dict(inp, events=o['events'][:dd['at'] + 1]), 'real': dd['real'],
                                      'model': dd['model'], 'why': dd['why'], 'line': dd['line']})
        for f in o['failures']:
            f = dict(f)
            f['input'] = dict(inp, events=o['events'][:f.get('at', len(o['events'])) + 1])
            res.oracle_failures.append(f)
        if len(res.samples) < 8 and o['statuses'] and meta.get('hold') and (o['i'] if isinstance(o['i'], int) else 0) % 13 == 0:
            res.samples.append({'hold': meta, 'dests': o['cfg']['dests'],
                                'events': [e['op'] + (':' + e.get('text', '') if e['op'] == 'comment' else '')
                                           for e in o['events']][:24],
                                'statuses': o['statuses'][:16]})
    # failures seen on whole histories first (the replay written by the pipeline is the first one)
    res.oracle_failures.sort(key=lambda f: 0 if 'events' in f.get('input', {}) else 1)
    res.disagreements.sort(key=lambda f: 0 if 'events' in f.get('input', {}) else 1)
    res.extra['histories'] = len(outs)
    res.extra['jobs_compared_with_model'] = res.model_compared
    return res


def replay(ctx, payload):
    from .system import Config
    inp = payload['failure']['input'] if 'failure' in payload else payload['input']
    res = Result()
    res.evaluations = 1
    if 'stub' in inp:
        c = inp['stub']
        obs = run_stub(c)
        for f in stub_oracle(c, obs):
            f = dict(f)
            f['input'] = inp
            res.oracle_failures.append(f)
        if ctx.model is not None:
            ans = ctx.model.ask([stub_line(c)])[0]
            why = compare_stub(c, obs, ans)
            if why:
                res.disagreements.append({'input': inp, 'real': obs, 'model': ans, 'why': why})
        res.samples.append({'real': obs})
        return res
    cfgd = dict(inp['cfg'])
    cfg = Config(cfgd.pop('dests'), **cfgd)
    out = play12(cfg, inp['events'], dict(inp.get('meta', {}), no_completion=True), ctx.model)
    for f in out['failures']:
        f = dict(f)
        f['input'] = inp
        res.oracle_failures.append(f)
    for dd in out['disagreements']:
        res.disagreements.append({'input': inp, 'real': dd['real'], 'model': dd['model'], 'why': dd['why']})
    res.samples.append({'statuses': out['statuses']})
    return res
