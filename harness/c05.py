"""C05 — tie between the Lean model of the queue evaluation (`QueueCollection._process`,
`_recursive_lookup`, `_extract_pr_ids`, `_remove_unmergeable`) and the real classes.

The real `BranchCascade` and `QueueCollection` (with the real `QueueBranch` /
`QueueIntegrationBranch` objects, `build()`, `finalize()`, `validate()`) run over the in-memory
commit graph of harness/fakegit.py on queues built as `add_to_queue` builds them
(harness/c05_cases.py). What the real collection holds (`_queues` in its order, the merge paths of the
real cascade) is read back and handed, with the status matrix, to the model; `mergeable_prs` and the
head of every `mergeable_queues` entry are compared. The property oracle is evaluated on every real
observation."""
import glob
import hashlib
import itertools
import json
import logging
import os
import warnings
from multiprocessing import get_context

from . import common
from .pipeline import Result

warnings.filterwarnings('ignore')
logging.disable(logging.CRITICAL)

from . import c05_cases as cc  # noqa: E402

PID = 'C05'
TABLES = ['QueueSrc']
LEAN_TARGETS = ['BertE.Props.C05']
ASSUMPTIONS = [
    'the queue collection is one that add_to_queue produced and validate() accepted (predicate WFQ: one entry per '
    'version, per version the entries in order of entry, along every merge path each pull request occupies all '
    'versions from its destination up to the greatest development version, hotfix queues hold only their own '
    'pull requests); WFQ is checked by the model on every collection read back from the real class',
    'the build status of a queue commit is a function of (pull request, version) during one evaluation '
    '(get_build_status is called on the tip of q/w/<pr>/<version>/...); statuses that change between two '
    'evaluations are the business of C03',
    'pull request ids are positive (0 is the "none" value of _recursive_lookup)',
    'the merge itself (merge_queues fast-forwarding the destinations to the heads computed here, deletion of the '
    'queue branches) is covered by C03/C08; here a destination "moves" to the head of its mergeable queue',
]
TRUSTED = [
    'Lean 4 kernel; axioms of every theorem audited (subset of propext, Classical.choice, Quot.sound)',
    'correspondence harness harness/c05.py + harness/c05_cases.py (queues built as add_to_queue builds them) + '
    'harness/fakegit.py (in-memory commit graph answering merge-base --is-ancestor, rev-parse, branch -r --list, '
    'branch -a --list, tag; the same shapes are sampled on real git by the system-level checks)',
    'harness/tables/queue.py (AST extraction of the comparisons of _recursive_lookup/_extract_pr_ids/_process)',
    'modelled, not verified: the git host get_build_status call (a function from commit and key to status)',
]

LETTER = {'SUCCESSFUL': 'S', 'FAILED': 'F', 'INPROGRESS': 'I', 'NOTSTARTED': 'N', 'STOPPED': 'T'}
STATE_OF = {v: k for k, v in LETTER.items()}
SF = ['SUCCESSFUL', 'FAILED']
FOUR = ['SUCCESSFUL', 'FAILED', 'INPROGRESS', 'NOTSTARTED']
FIVE = FOUR + ['STOPPED']
KEY = 'queue-selection'


# --------------------------------------------------------------------------- the property, in its own words

def _green(case, entries, statuses):
    """every version targeted by `entries` has, as newest entry targeting it, a SUCCESSFUL queue commit"""
    newest = {}
    for p, d in entries:
        for t in cc.targets_of(case.shape, d):
            newest[t] = p
    return all(statuses.get((p, t)) == 'SUCCESSFUL' for t, p in newest.items())


def oracle(case, statuses, force, obs):
    """None, or why the observation contradicts the property text."""
    if 'error' in obs:
        return 'queues built by add_to_queue are rejected by validate(): %s' % obs['error']
    hot = [(i + 1, d) for i, d in enumerate(case.dsts) if d.startswith('hotfix/')]
    main = [(i + 1, d) for i, d in enumerate(case.dsts) if not d.startswith('hotfix/')]
    sel = list(obs['prs'])
    hot_ids = [p for p, _ in hot]
    main_ids = [p for p, _ in main]
    if len(set(sel)) != len(sel) or not set(sel) <= set(hot_ids + main_ids):
        return 'selected pull requests are not distinct queued pull requests: %s' % sel
    hsel = [p for p in sel if p in hot_ids]
    msel = [p for p in sel if p in main_ids]
    # a prefix of the queue, in order of entry (each hotfix queue apart)
    if hsel != hot_ids[:len(hsel)]:
        return 'hotfix selection %s is not a prefix of the hotfix queue %s' % (hsel, hot_ids)
    if msel != main_ids[:len(msel)]:
        return 'selection %s is not a prefix of the queue %s in order of entry' % (msel, main_ids)
    chosen = hot[:len(hsel)] + main[:len(msel)]
    # every destination moves to the queue commit of the newest selected pull request that targets it
    newest = {}
    for p, d in chosen:
        for t in cc.targets_of(case.shape, d):
            newest[cc.version_of(t)] = (p, t)
    for (version, _), head in zip(obs['queues'], obs['heads']):
        want = newest.get(version, (None, None))[0]
        if head != want:
            return 'destination of q/%s moves to the queue commit of %s, newest selected pull request ' \
                   'targeting it is %s' % (version, head, want)
    if force:
        if len(hsel) != len(hot) or len(msel) != len(main):
            return 'force merge does not select the whole queue: %s' % sel
        return None
    # every one of those commits is SUCCESSFUL
    for version, (p, t) in newest.items():
        if statuses.get((p, t)) != 'SUCCESSFUL':
            return 'q/%s would move to the queue commit of pull request %d whose build is %s' % (
                version, p, statuses.get((p, t)))
    # no longer prefix has that property
    for n in range(len(hsel) + 1, len(hot) + 1):
        if _green(case, hot[:n], statuses):
            return 'the longer hotfix prefix %s is all green' % hot_ids[:n]
    for n in range(len(msel) + 1, len(main) + 1):
        if _green(case, main[:n], statuses):
            return 'the longer prefix %s is all green but only %s is selected' % (main_ids[:n], msel)
    return None


# --------------------------------------------------------------------------- encoding

def ids(l):
    return ','.join(str(x) for x in l)


def heads_str(heads):
    return ','.join('-' if h is None else str(h) for h in heads)


def model_line(case, obs, statuses, force):
    """what the real collection holds + the status matrix, as a line for the model"""
    queues = obs['queues']
    name_of = {cc.version_of(d): d for d in cc.dest_names(case.shape)}
    qs = ';'.join('%s=%s' % (v, ids(l)) for v, l in queues) or '-'
    ps = '|'.join(','.join(p) for p in obs['paths']) or '-'
    ss = ';'.join(''.join(LETTER[statuses.get((p, name_of[v]), 'NOTSTARTED')] for p in l)
                  for v, l in queues) if queues else '-'
    return 'C05 %d %s %s %s' % (1 if force else 0, qs, ps, ss)


def input_of(case, statuses, force):
    return {'shape': [list(map(list, case.shape[0])), list(case.shape[1]), case.shape[2]],
            'dsts': list(case.dsts), 'stale': case.stale,
            'statuses': [[p, d, s] for (p, d), s in sorted(statuses.items())],
            'force': bool(force)}


def case_of_input(inp):
    devs, stabs, hotfix = inp['shape']
    shape = (tuple(tuple(x) for x in devs), tuple(bool(x) for x in stabs), bool(hotfix))
    case = cc.Case(shape, tuple(inp['dsts']), stale=bool(inp.get('stale')))
    statuses = {(p, d): s for p, d, s in inp['statuses']}
    return case, statuses, bool(inp.get('force'))


def parse_answer(ans):
    d = {}
    for part in ans.split(' '):
        k, _, v = part.partition('=')
        d[k] = v
    return d


# --------------------------------------------------------------------------- one evaluation

class Acc:
    """what a worker sends back"""

    def __init__(self):
        self.n = 0
        self.compared = 0
        self.dist = {}
        self.distinct = set()
        self.disagreements = []
        self.failures = []
        self.samples = []
        self.structs = {}          # model search line -> (shape, dsts)

    def count(self, k, n=1):
        self.dist[k] = self.dist.get(k, 0) + n


USE_MODEL = False


def evaluate(case, matrices, acc, kind):
    """Run the real class on every (statuses, force) of `matrices`, the oracle on every observation,
    then the model on the same inputs."""
    pending = []
    for statuses, force in matrices:
        obs = case.observe(statuses, force)
        acc.n += 1
        acc.count('prs=%d' % len(case.dsts))
        acc.count('kind:' + kind)
        if force:
            acc.count('force')
        why = oracle(case, statuses, force, obs)
        if why:
            if len(acc.failures) < 5:
                acc.failures.append({'key': KEY, 'what': why, 'input': input_of(case, statuses, force),
                                     'observation': obs})
            acc.count('oracle-failure')
        if 'error' in obs:
            acc.count('error:' + obs['error'])
            continue
        acc.count('selected=%d' % len(obs['prs']))
        # the validated python specification of the design round, as a second opinion
        sp, sh = case.spec(statuses, force)
        real_heads = {v: h for (v, _), h in zip(obs['queues'], obs['heads']) if h is not None}
        if (sp, sh) != (obs['prs'], real_heads) and not why:
            acc.failures.append({'key': KEY, 'what': 'longest-green-prefix specification gives %s %s' % (sp, sh),
                                 'input': input_of(case, statuses, force), 'observation': obs})
        line = model_line(case, obs, statuses, force)
        if case.dsts and not force:
            acc.distinct.add(int.from_bytes(hashlib.blake2b(line.encode(), digest_size=8).digest(), 'big'))
        if len(acc.samples) < 1 and acc.n % 211 == 1 and len(case.dsts) >= 2:
            acc.samples.append({'line': line, 'real': 'prs=%s heads=%s' % (ids(obs['prs']), heads_str(obs['heads']))})
        pending.append((line, obs, statuses, force))
    if not USE_MODEL or not pending:
        return
    answers = common.Model().ask([p[0] for p in pending])
    for (line, obs, statuses, force), ans in zip(pending, answers):
        acc.compared += 1
        a = parse_answer(ans)
        real = 'prs=%s heads=%s' % (ids(obs['prs']), heads_str(obs['heads']))
        model = 'prs=%s heads=%s' % (a.get('prs'), a.get('heads'))
        spec = 'prs=%s heads=%s' % (a.get('spec'), a.get('sheads'))
        bad = None
        if real != model:
            bad = 'model'
        elif a.get('wf') != '1':
            bad = 'WFQ does not hold of a collection built by add_to_queue'
        elif real != spec:
            bad = 'Lean specification Spec.select differs'
        if bad and len(acc.disagreements) < 5:
            acc.disagreements.append({'input': dict(input_of(case, statuses, force), line=line),
                                      'real': real, 'model': ans, 'what': bad})
        if bad:
            acc.count('disagreement')


# --------------------------------------------------------------------------- enumeration

def all_jobs(nprs):
    return [(sh, d) for sh in cc.shapes() for d in itertools.product(cc.dest_names(sh), repeat=nprs)]


def matrices_sf(case, states=SF):
    cells = case.cells
    for vec in itertools.product(states, repeat=len(cells)):
        yield dict(zip(cells, vec))


def random_matrix(case, rng):
    # SUCCESSFUL is frequent enough for long prefixes to be green
    return {c: ('SUCCESSFUL' if rng.random() < 0.62 else rng.choice(FIVE[1:])) for c in case.cells}


def work(job):
    shape, dsts, mode, param, seed = job
    acc = Acc()
    stale = mode.endswith('-stale')
    mode = mode.split('-')[0]
    case = cc.Case(shape, dsts, stale=stale)
    ncells = len(case.cells)
    rng = common.rng_for(seed, 'C05', shape, dsts, mode)
    mats = []
    kind = mode + ('-stale' if stale else '')
    if mode == 'sf':
        if ncells <= 12 and dsts:
            obs = case.observe({c: 'SUCCESSFUL' for c in case.cells}, False)
            if 'error' not in obs:
                line = model_line(case, obs, {}, False).split(' ')
                acc.structs['C05 search 0 %s %s' % (line[2], line[3])] = (shape, dsts, stale)
        if ncells <= 11:
            mats = [(m, False) for m in matrices_sf(case)]
        # force merge: the statuses do not matter; take the two constant matrices and a random one
        mats += [({c: 'FAILED' for c in case.cells}, True), ({c: 'SUCCESSFUL' for c in case.cells}, True),
                 (random_matrix(case, rng), True)]
    elif mode == '4v':
        if 4 ** ncells <= param:
            mats = [(m, False) for m in matrices_sf(case, FOUR)]
        else:
            mats = [(random_matrix(case, rng), False) for _ in range(param // 4)]
    elif mode == 'sample':
        mats = [(random_matrix(case, rng), rng.random() < 0.05) for _ in range(param)]
    elif mode == 'pingpong':
        # dsts were built as [g_X, (g_Y, F_Y), (g_X, F_X), ..., g_X] oldest first (see plan): the own-destination
        # cell of every second pull request of a pair fails; param = the non-SUCCESSFUL state used
        bad = set(param[1])
        mats = [({c: (param[0] if (c[0] in bad and c[1] == dsts[c[0] - 1]) else 'SUCCESSFUL')
                  for c in case.cells}, False)]
    elif mode == 'long':
        # long queues over several merge paths where only "own destination" cells fail: the rejection of a pull
        # request on one path uncovers a failed tip on another path, again and again (the selection needs as
        # many rounds as there are alternations, not as many as there are paths)
        for _ in range(param):
            pfail = rng.choice([0.25, 0.4, 0.55])
            mats.append(({c: ('FAILED' if (c[1] == dsts[c[0] - 1] and rng.random() < pfail) else 'SUCCESSFUL')
                          for c in case.cells}, False))
    evaluate(case, mats, acc, kind)
    return acc


def plan(ctx):
    """the list of jobs of this run"""
    seed, scale = ctx.seed, ctx.scale
    thorough = ctx.tier == 'thorough' or scale > 1
    rng = common.rng_for(seed, 'C05', 'plan')
    jobs = []
    note = {}
    # {SUCCESSFUL, FAILED} matrices: exhaustive on <= 2 pull requests, and on 3 pull requests either
    # everything (thorough) or a 1-in-k shard chosen by the seed (quick)
    for n in (0, 1, 2):
        jobs += [(sh, d, 'sf', 0, seed) for sh, d in all_jobs(n)]
    three = all_jobs(3)
    k = 1 if thorough else 8
    r = rng.randrange(k)
    note['three_pr_shard'] = '%d/%d' % (r, k)
    jobs += [(sh, d, 'sf', 0, seed) for i, (sh, d) in enumerate(three) if i % k == r]
    # the same on top of stale queues (every q/<version> exists, some with no entry)
    for n in (0, 1, 2):
        jobs += [(sh, d, 'sf-stale', 0, seed) for sh, d in all_jobs(n)]
    if thorough:
        r2 = rng.randrange(4)
        jobs += [(sh, d, 'sf-stale', 0, seed) for i, (sh, d) in enumerate(three) if i % 4 == r2]
    # 4-valued matrices (INPROGRESS / NOTSTARTED are "not SUCCESSFUL" too)
    for n in (1, 2):
        jobs += [(sh, d, '4v', 4096 if thorough else 256, seed) for sh, d in all_jobs(n)]
    if thorough:
        jobs += [(sh, d, '4v', 512, seed) for sh, d in three]
    # 4 pull requests: sampled
    four = all_jobs(4)
    take = len(four) if thorough else max(1, len(four) // 24)
    per = 32 if thorough else 12
    picked = rng.sample(range(len(four)), take)
    jobs += [(four[i][0], four[i][1], 'sample', per, seed) for i in sorted(picked)]
    note['four_pr_jobs'] = '%d of %d, %d matrices each' % (take, len(four), per)
    # long queues (6-10 pull requests) entering at the lowest branches of cascades with several merge paths
    multi = [sh for sh in cc.shapes() if sum(sh[1]) + (1 if sh[2] else 0) >= 1 and len(sh[0]) >= 2]
    nlong = 240 if thorough else 64
    for i in range(nlong):
        sh = multi[rng.randrange(len(multi))]
        names = cc.dest_names(sh)
        entries = [n for n in names if n.startswith('stabilization/')] + \
                  [n for n in names if n.startswith('development/')][:1] + \
                  [n for n in names if n.startswith('hotfix/')]
        d = tuple(rng.choice(entries) for _ in range(rng.randint(6, 10)))
        jobs.append((sh, d, 'long', 16 if thorough else 8, seed))
    note['long_queue_jobs'] = nlong
    # ping-pong chains: a failed tip on one path, hidden behind a later green pull request of the same entry
    # branch, is uncovered only when a failure on ANOTHER path removed that green one - k times in a row
    npp = 0
    for sh in multi:
        names = cc.dest_names(sh)
        entries = [n for n in names if n.startswith('stabilization/')] + \
                  [n for n in names if n.startswith('development/')][:1]
        for x in entries:
            for y in entries:
                if x == y:
                    continue
                for k in (2, 3, 4, 5):
                    d, bad = [x], []
                    for i in range(k):
                        e = y if (k - i) % 2 == 1 else x          # newest pair is on the other entry, y
                        d += [e, e]
                        bad.append(len(d))                         # oldest first: g_e, then the failing F_e
                    d.append(x)
                    for state in ('FAILED', 'INPROGRESS'):
                        jobs.append((sh, tuple(d), 'pingpong', (state, tuple(bad)), seed))
                        npp += 1
    note['pingpong_jobs'] = npp
    return jobs, note


def model_search(ctx, structs, res):
    """Model-side enumeration: on every collection structure seen, the model evaluates every {S,F} matrix and
    compares `process` with the decidable `Spec.select` (what theorem C05 states). A difference is a candidate
    that is handed to the real class and judged by the property oracle."""
    if not (ctx.model and ctx.model.available()) or not structs:
        return
    lines = sorted(structs)
    answers = ctx.model.ask_parallel(lines)
    checked = bad = 0
    for line, ans in zip(lines, answers):
        a = parse_answer(ans)
        checked += int(a.get('checked', 0) or 0)
        nbad = int(a.get('bad', 0) or 0)
        bad += nbad
        if nbad:
            shape, dsts, stale = structs[line]
            case = cc.Case(shape, dsts, stale=stale)
            obs = case.observe({c: 'SUCCESSFUL' for c in case.cells}, False)
            name_of = {cc.version_of(d): d for d in cc.dest_names(shape)}
            statuses = {}
            for (v, l), letters in zip(obs['queues'], a['first'].split(';')):
                for p, ch in zip(l, letters):
                    statuses[(p, name_of[v])] = STATE_OF[ch]
            acc = Acc()
            evaluate(case, [(statuses, False)], acc, 'model-search-candidate')
            res.oracle_failures += acc.failures
            res.disagreements.append({'input': dict(input_of(case, statuses, False), line=line),
                                      'real': 'n/a', 'model': ans,
                                      'what': 'in the model, process and Spec.select differ (theorem C05 would be false)'})
    res.extra['model_search'] = {'structures': len(lines), 'matrices': checked, 'process_vs_spec_differences': bad}


def load_corpus():
    out = []
    for f in sorted(glob.glob(os.path.join(common.CORPUS_DIR, PID, '*.json'))):
        with open(f) as fh:
            out.append((os.path.basename(f), json.load(fh)))
    return out


def replay_input(inp, acc, kind='corpus'):
    case, statuses, force = case_of_input(inp)
    evaluate(case, [(statuses, force)], acc, kind)


def correspondence(ctx):
    global USE_MODEL
    USE_MODEL = bool(ctx.model and ctx.model.available())
    res = Result()
    res.rule = ('real BranchCascade + QueueCollection (build, finalize, validate, mergeable_prs, mergeable_queues) over '
                'the in-memory commit graph, queues built as add_to_queue builds them: 26 cascade shapes (1-3 development '
                'versions, 0-2 stabilization branches, optional hotfix) x every destination choice for 0-3 pull requests x '
                'every {SUCCESSFUL, FAILED} matrix (<= 11 cells) [quick: a seed-chosen 1-in-8 shard of the 3-PR jobs, all '
                'smaller ones]; every 4-valued matrix where 4^cells is small, sampled 5-valued ones otherwise; 4-PR queues '
                'sampled; force merge on three matrices per queue; the <= 2-PR space (thorough: and a quarter of the 3-PR space) '
                'again on top of stale queues (every q/<version> present, some empty). non-trivial = at least one queued pull request, no '
                'force; distinct = distinct (collection, paths, matrix) line handed to the model')
    acc0 = Acc()
    for name, payload in load_corpus():
        replay_input(payload['input'], acc0, 'corpus')
    jobs, note = plan(ctx)
    thorough_space = ctx.tier == 'thorough' or ctx.scale > 1
    with get_context('fork').Pool(common.NCPU) as pool:
        accs = pool.map(work, jobs, chunksize=8)
    accs = [acc0] + accs
    for a in accs:
        res.evaluations += a.n
        res.model_compared += a.compared
        res.distinct |= a.distinct
        for k, v in a.dist.items():
            res.count(k, v)
        res.disagreements += a.disagreements
        res.oracle_failures += a.failures
        for smp in a.samples:
            if len(res.samples) < 10 and smp not in res.samples:
                res.samples.append(smp)
    structs = {}
    for a in accs:
        structs.update(a.structs)
    model_search(ctx, structs, res)
    res.exhaustive = thorough_space      # the <= 3 pull request {S,F} space is covered completely
    res.extra['plan'] = dict(note, jobs=len(jobs))
    # keep the smallest failing inputs first
    res.oracle_failures.sort(key=lambda f: (len(f['input']['dsts']), len(f['input']['statuses'])))
    res.disagreements.sort(key=lambda f: (len(f['input']['dsts']), len(f['input']['statuses'])))
    res.oracle_failures = res.oracle_failures[:40]
    res.disagreements = res.disagreements[:40]
    # additional phase: C05 at system level (real BertE + mock host + real git, selection computed by the model)
    from . import selectsys
    ex = res.exhaustive
    res.merge(selectsys.phase(ctx, PID))
    res.exhaustive = ex
    res.oracle_failures += equal_queue_commits_witness()
    return res


EQUAL_COMMITS_KEY = 'incoherent-queues-when-two-queued-prs-share-a-queue-commit'


def equal_queue_commits_witness():
    """The witness of the known finding EQUAL_COMMITS_KEY on the real BertE + mock host + real git (see
    selectsys.witness_equal_queue_commits): two pull requests whose changes are the same commit (stacked pull
    requests queued in the other order behave alike), both queued by the robot, every queue build SUCCESSFUL. The
    property wants the whole queue merged (it is the longest all-green prefix); reported when nothing is."""
    from . import selectsys
    out = []
    for order in ('ab', 'ba'):
        status, records, ids = selectsys.witness_equal_queue_commits(order)
        if status != 'Merged':
            out.append({'key': EQUAL_COMMITS_KEY,
                        'what': 'two pull requests on the same commit queued one after the other (ids in order %s), every '
                                'queue build SUCCESSFUL: the queue evaluation answers %s and merges nothing, although the '
                                'whole queue is an all-green prefix' % (order, status),
                        'input': {'phase': 'equal-queue-commits', 'order': order, 'ids': ids},
                        'observation': {'status': status, 'process_calls': len(records)}})
    return out


def search(ctx):
    """failing-input search: the complete <= 3 pull request space and more samples (ctx.scale = 4)"""
    return correspondence(ctx)


def replay(ctx, payload):
    global USE_MODEL
    if payload.get('failure', {}).get('input', {}).get('phase') == 'equal-queue-commits':
        res = Result()
        res.evaluations = 2
        res.oracle_failures += equal_queue_commits_witness()
        return res
    if payload.get('failure', {}).get('input', {}).get('phase') == 'selectsys':
        from . import selectsys
        return selectsys.replay(ctx, PID, payload['failure']['input'])
    USE_MODEL = bool(ctx.model and ctx.model.available())
    acc = Acc()
    replay_input(payload['failure']['input'], acc, 'replay')
    res = Result()
    res.evaluations = acc.n
    res.model_compared = acc.compared
    res.oracle_failures = acc.failures
    res.disagreements = acc.disagreements
    case, statuses, force = case_of_input(payload['failure']['input'])
    res.samples.append({'input': payload['failure']['input'], 'real': case.observe(statuses, force)})
    return res
