"""Histories for the system-level properties: generator, executor on the real system (World),
translation of every executed event into the model's line protocol, comparison of the
observations, and the oracles that are evaluated on every real run.

A history is a list of events (dicts). Events refer to pull requests by index and to branches
by name, so that a history can be replayed from its JSON form."""
import itertools
import os
import re
import subprocess

from . import common
from .system import (ADMIN, CONTRIB, PEER1, PEER2, ROBOT, Config, World, git, version_key)

TEMPLATES = [
    (['development/4.3'], []),
    (['development/4.3', 'development/5.1'], []),
    (['development/4.3', 'development/5.1', 'development/10.0'], []),
    (['development/4.3', 'stabilization/5.1.4', 'development/5.1', 'development/10.0'], ['5.1.3']),
    (['development/4.3', 'development/4', 'development/5.1'], []),
    (['stabilization/4.3.18', 'development/4.3', 'development/5.1'], ['4.3.17']),
    (['development/4.3', 'development/5.1', 'hotfix/4.2.17'], ['4.2.17.0']),
    (['stabilization/5.1.4', 'development/5.1', 'development/5', 'development/10.0'], ['5.1.3']),
]

INTEGRATION_STATUS = {'ApprovalRequired', 'BuildFailed', 'BuildNotStarted', 'BuildInProgress',
                      'PullRequestSkewDetected'}
FINAL_STATUS = {'Queued', 'SuccessMessage', 'QueueConflict', 'QueueOutOfOrder', 'Merged',
                'QueueBuildFailed', 'Conflict', 'NothingToDo', 'PullRequestDeclined', 'ResetComplete'}


# ----------------------------------------------------------------------------- names

def dest_code(name):
    kind, v = name.split('/', 1)
    return {'development': 'd', 'stabilization': 's', 'hotfix': 'h'}[kind] + v


def version_dest_code(v):
    n = v.count('.') + 1
    if n <= 2:
        return 'd' + v
    if n == 3:
        return 's' + v
    return 'h' + '.'.join(v.split('.')[:3])


def ref_code(name):
    """real ref name -> the model's structured name"""
    if re.match(r'^(development|stabilization|hotfix)/[0-9.]+$', name):
        return 'D:' + dest_code(name)
    m = re.match(r'^w/([0-9.]+)/(.+)$', name)
    if m:
        return 'W:%s:%s' % (version_dest_code(m.group(1)), m.group(2))
    m = re.match(r'^q/w/(\d+)/([0-9.]+)/(.+)$', name)
    if m:
        return 'QW:%s:%s:%s' % (m.group(1), version_dest_code(m.group(2)), m.group(3))
    m = re.match(r'^q/([0-9.]+)$', name)
    if m:
        return 'Q:' + version_dest_code(m.group(1))
    return 'O:' + name


# ----------------------------------------------------------------------------- generator

def gen_config(rng, mode=None):
    dests, tags = rng.choice(TEMPLATES)
    mode = mode or rng.choice(['queue', 'queue', 'queue-skip', 'noqueue'])
    options = ['bypass_jira_check']
    if rng.random() < 0.5:
        options.append('bypass_build_status')
    return Config(dests, tags, use_queue=mode != 'noqueue', skip_queue=mode == 'queue-skip',
                  no_octopus=rng.random() < 0.3, create_prs=rng.random() < 0.5,
                  create_branches=True, peers=0, leaders=0, author_approval=rng.random() < 0.3,
                  options=options), mode


def scripted_prefix(rng, cfg):
    """Multi-step situations that a uniform event stream rarely builds: several pull requests driven to the merge
    one after the other or in one batch, entering the cascade at the same or at different branches."""
    kind = rng.choice(['same-base', 'batch', 'second-entry-lower', 'w-stale', 'w-manual', 'w-revert', 'none', 'none'])
    if kind == 'none' or len(cfg.dests) < 1:
        return [], 0
    devs = [d for d in cfg.dests if not d.startswith('hotfix/')]
    if not devs:
        return [], 0
    evs = []

    def open_(i, dst):
        evs.append({'op': 'open', 'pr': i, 'dst': dst,
                    'src': '%s/TEST-%04d' % (rng.choice(['feature', 'bugfix', 'improvement']), i)})
    if kind in ('w-stale', 'w-manual', 'w-revert'):
        # somebody works on an integration branch by hand between two evaluations:
        #  w-stale   a commit on the FIRST integration branch after the later ones were built green (the later ones are
        #            no longer in sync with their predecessor although they still contain the source branch)
        #  w-manual  a commit on any integration branch (a conflict resolution), then the pull request is driven to the merge
        #  w-revert  a commit that takes an integration branch back to the content of its destination branch
        open_(1, devs[0] if kind == 'w-stale' else rng.choice(devs))
        evs.append({'op': 'eval_pr', 'pr': 1})
        if kind == 'w-stale':
            evs += [{'op': 'build', 'pr': 1, 'what': 'integration', 'state': 'SUCCESSFUL'},
                    {'op': 'w_commit', 'pr': 1, 'which': 0}]
        elif kind == 'w-manual':
            evs.append({'op': 'w_commit', 'pr': 1, 'which': rng.randint(0, 2)})
        else:
            evs.append({'op': 'w_commit', 'pr': 1, 'which': rng.randint(0, 2), 'revert': True})
        evs += [{'op': 'progress', 'pr': 1}, {'op': 'progress', 'pr': 1}, {'op': 'progress', 'pr': 1}]
        return evs, 1
    if kind == 'same-base':
        # two pull requests branched from the same commit, merged one after the other (the second one is not rebased)
        d = rng.choice(devs)
        open_(1, d)
        open_(2, d)
        evs += [{'op': 'progress', 'pr': 1}] * 3 + [{'op': 'progress', 'pr': 2}] * 3
    elif kind == 'batch':
        # several pull requests queued, builds reported, one evaluation merges the batch
        d1, d2 = rng.choice(devs), rng.choice(devs)
        open_(1, d1)
        open_(2, d2)
        evs += [{'op': 'progress', 'pr': 1}, {'op': 'progress', 'pr': 2}, {'op': 'progress', 'pr': 1},
                {'op': 'progress', 'pr': 2}, {'op': 'build', 'pr': 1, 'what': 'queue', 'state': 'SUCCESSFUL'},
                {'op': 'progress', 'pr': 2}]
    else:
        # the second pull request enters the cascade below the first one
        open_(1, devs[-1])
        open_(2, devs[0])
        evs += [{'op': 'progress', 'pr': 1}, {'op': 'progress', 'pr': 1}, {'op': 'progress', 'pr': 2},
                {'op': 'progress', 'pr': 2}, {'op': 'build', 'pr': 1, 'what': 'queue', 'state': 'SUCCESSFUL'},
                {'op': 'progress', 'pr': 2}]
    return evs, 2


def gen_history(rng, cfg, length=None, admin_jobs=True):
    """A list of abstract events; concrete branch/sha choices are resolved at execution."""
    n = length or rng.randint(8, 18)
    evs, nprs = scripted_prefix(rng, cfg)
    evs = [dict(e) for e in evs]      # every event its own object: C02 and C08 find an event's record by identity
    n = max(4, n - len(evs) // 2)
    for _ in range(n):
        r = rng.random()
        if nprs == 0 or (nprs < 3 and r < 0.15):
            dst = rng.choice(cfg.dests)
            nprs += 1
            evs.append({'op': 'open', 'pr': nprs, 'dst': dst,
                        'src': '%s/TEST-%04d' % (rng.choice(['feature', 'bugfix', 'improvement']), nprs)})
            continue
        pr = rng.randint(1, nprs)
        if r < 0.25:
            evs.append({'op': 'progress', 'pr': pr})
        elif r < 0.45:
            evs.append({'op': 'eval_pr', 'pr': pr})
        elif r < 0.60:
            evs.append({'op': 'build', 'pr': pr, 'what': rng.choice(['integration', 'queue', 'queue', 'all']),
                        'state': rng.choice(['SUCCESSFUL', 'SUCCESSFUL', 'SUCCESSFUL', 'FAILED', 'INPROGRESS', 'STOPPED'])})
        elif r < 0.70:
            evs.append({'op': 'eval_commit', 'pr': pr, 'ref': rng.choice(['src', 'w', 'q', 'qw'])})
        elif r < 0.76:
            evs.append({'op': 'src_commit', 'pr': pr, 'shared': rng.choice([None, None, 'shared_a', 'shared_b'])})
        elif r < 0.79:
            evs.append({'op': 'src_amend', 'pr': pr})
        elif r < 0.82:
            evs.append({'op': 'src_rebase', 'pr': pr})
        elif r < 0.85:
            evs.append({'op': 'w_commit', 'pr': pr})
        elif r < 0.88:
            evs.append({'op': 'approve', 'pr': pr, 'user': rng.choice([CONTRIB, ADMIN, PEER1])})
        elif r < 0.90:
            evs.append({'op': 'decline', 'pr': pr})
        elif r < 0.92:
            evs.append({'op': 'comment', 'pr': pr, 'user': rng.choice([CONTRIB, ADMIN]),
                        'text': '@robot ' + rng.choice(['reset', 'force_reset', 'wait', 'approve', 'help',
                                                         'bypass_build_status', 'unanimity', 'no_octopus'])})
        elif admin_jobs and r < 0.96:
            evs.append({'op': 'job', 'kind': rng.choice(['rebuild_queues', 'delete_queues', 'force_merge_queues'])})
        elif admin_jobs and r < 0.98:
            ev = {'op': 'job', 'kind': 'create_branch', 'branch': rng.choice(
                ['development/4.4', 'development/5.2', 'development/11.0', 'stabilization/4.3.0',
                 'development/3.0', 'development/6'])}
            if rng.random() < 0.4:
                # an explicit branching point: the tip of one of the development branches (often one the cascade
                # rules must refuse: the new branch would not contain its predecessors)
                ev['from'] = rng.choice(['lowest', 'highest', 'middle'])
            evs.append(ev)
        elif admin_jobs:
            evs.append({'op': 'job', 'kind': 'delete_branch', 'branch': rng.choice(cfg.dests)})
        else:
            evs.append({'op': 'eval_pr', 'pr': pr})
    return evs


# ----------------------------------------------------------------------------- executor

class Run:
    """Executes events on a World, keeps what the model translation and the oracles need."""

    def __init__(self, cfg, base_dir=None):
        self.cfg = cfg
        self.w = World(cfg, base_dir)
        self.prs = {}            # index -> {'id', 'src', 'dst'}
        self.items = ['init %d %d %s' % (cfg.use_queue, cfg.skip_queue,
                                         ' '.join(dest_code(d) for d in cfg.dests))]
        self.sha2id = {}
        self.trace = []          # executed events with their real observation
        self.refs = self.w.refs()

    def close(self):
        self.w.close()

    # -- helpers -------------------------------------------------------------
    def pr_ids(self, sha2id=None):
        return self.prs

    def _targets_w(self, pr):
        return sorted(n for n in self.refs if re.match(r'^w/[0-9.]+/%s$' % re.escape(pr['src']), n))

    def _parents(self, sha):
        out = git(self.w.bare, 'rev-parse', sha + '^@', check=False)
        return out.split()

    # -- one event -----------------------------------------------------------
    def execute(self, ev):
        """Run one abstract event on the real system.
        Returns (kind, info) where kind in {'skip', 'ext', 'job'} and info describes the model side."""
        w = self.w
        op = ev['op']
        refs = self.refs = w.refs()
        pr = self.prs.get(ev.get('pr'))
        if op == 'open':
            if ev['dst'] not in refs:
                return 'skip', None
            pid = w.open_pr(ev['src'], ev['dst'])
            self.prs[ev['pr']] = {'id': pid, 'src': ev['src'], 'dst': ev['dst']}
            return 'ext', {'x': (ev['src'], 0, [refs[ev['dst']]])}
        if pr is None and op not in ('job',):
            return 'skip', None
        if op == 'src_commit':
            if pr['src'] not in refs:
                return 'skip', None
            w.user_commit(pr['src'], shared=ev.get('shared'))
            return 'ext', {'x': (pr['src'], 1, [])}
        if op == 'progress':
            # the next step that moves this pull request forward: report green builds, then evaluate
            names = [pr['src']] + self._targets_w(pr) + [n for n in refs if n.startswith('q/w/%d/' % pr['id'])]
            if self.cfg.author_approval:
                w.approve(pr['id'], CONTRIB)
            for n in names:
                if n in refs:
                    w.set_build(refs[n], 'SUCCESSFUL')
            qtips = sorted(n for n in refs if n.startswith('q/w/%d/' % pr['id']))
            before = self.snapshot_host(pr)
            if qtips:
                sha = refs[qtips[-1]]
                status = w.eval_commit(sha)
                return 'job', {'kind': 'commit', 'sha': sha, 'status': status, 'before': before}
            status = w.eval_pr(pr['id'])
            return 'job', {'kind': 'pr', 'pr': pr, 'status': status, 'before': before}
        if op == 'src_amend':
            if pr['src'] not in refs:
                return 'skip', None
            parents = self._parents(refs[pr['src']])
            if any(p not in self.sha2id for p in parents) or len(parents) != 1:
                return 'skip', None
            w.user_amend(pr['src'])
            return 'ext', {'x': (pr['src'], 0, parents)}
        if op == 'src_rebase':
            if pr['src'] not in refs or pr['dst'] not in refs:
                return 'skip', None
            if w.is_ancestor(refs[pr['dst']], refs[pr['src']]) or \
                    w.is_ancestor(refs[pr['src']], refs[pr['dst']]):
                return 'skip', None       # nothing to rebase (onto)
            if not w.user_rebase(pr['src'], pr['dst']):
                return 'skip', None
            new = w.refs()[pr['src']]
            if new in self.sha2id:      # every commit was already applied: the branch now points to a known commit
                return 'ext', {'xpoint': (pr['src'], new)}
            return 'ext', {'x': (pr['src'], 0, [refs[pr['dst']]])}
        if op == 'w_commit':
            ws = self._targets_w(pr)
            if not ws:
                return 'skip', None
            name = ws[ev.get('k', 0) % len(ws)]
            if ev.get('which') is not None:
                # the integration branch of the n-th target after the first, in cascade order (not in name order)
                by_version = sorted(ws, key=lambda n: version_key('development/' + n.split('/')[1]))
                name = by_version[min(ev['which'], len(by_version) - 1)]
            if ev.get('revert'):
                # a commit that takes the integration branch back to the content of its destination branch
                dst = [d for d in refs if not d.startswith('hotfix/') and '/' in d
                       and d.split('/', 1)[1] == name.split('/')[1] and d.startswith(('development/', 'stabilization/'))]
                if not dst:
                    return 'skip', None
                w.user_revert(name, dst[0])
            else:
                w.user_commit(name, author=CONTRIB)
            m = re.match(r'^w/([0-9.]+)/(.+)$', name)
            return 'ext', {'xw': ('d' + m.group(1), m.group(2))}
        if op == 'approve':
            w.approve(pr['id'], ev['user'])
            return 'host', None
        if op == 'decline':
            w.decline(pr['id'])
            return 'host', None
        if op == 'comment':
            w.comment(pr['id'], ev['user'], ev['text'])
            return 'host', None
        if op == 'build':
            names = []
            if ev['what'] in ('integration', 'all'):
                names += [pr['src']] + self._targets_w(pr)
            if ev['what'] in ('queue', 'all'):
                names += [n for n in refs if n.startswith('q/w/%d/' % pr['id'])]
            for n in names:
                if n in refs:
                    w.set_build(refs[n], ev['state'])
            return 'host', None
        if op == 'eval_pr':
            before = self.snapshot_host(pr)
            status = w.eval_pr(pr['id'])
            return 'job', {'kind': 'pr', 'pr': pr, 'status': status, 'before': before}
        if op == 'eval_commit':
            cands = {'src': [pr['src']], 'w': self._targets_w(pr),
                     'q': sorted(n for n in refs if re.match(r'^q/[0-9.]+$', n)),
                     'qw': sorted(n for n in refs if n.startswith('q/w/%d/' % pr['id']))}[ev['ref']]
            cands = [c for c in cands if c in refs]
            if not cands:
                return 'skip', None
            sha = refs[cands[-1]]
            before = self.snapshot_host(pr)
            status = w.eval_commit(sha)
            return 'job', {'kind': 'commit', 'sha': sha, 'status': status, 'before': before}
        if op == 'job':
            kind = ev['kind']
            settings = {}
            if kind in ('create_branch', 'delete_branch'):
                settings['branch'] = ev['branch']
            if kind == 'create_branch' and ev.get('from'):
                devs = sorted((n for n in refs if n.startswith('development/')), key=version_key)
                if devs:
                    pick = {'lowest': devs[0], 'highest': devs[-1], 'middle': devs[len(devs) // 2]}[ev['from']]
                    settings['branch_from'] = refs[pick]
            status = w.job(kind, **settings)
            drained = w.drain() if kind in ('rebuild_queues', 'create_branch') else []
            return 'job', {'kind': kind, 'status': status, 'branch': ev.get('branch'), 'drained': drained}
        raise ValueError(op)

    def snapshot_host(self, pr):
        return {'prs': self.w.prs()}

    # -- observation ------------------------------------------------------------
    def observe(self):
        refs = self.w.refs()
        tips = sorted(set(refs.values()))
        anc = {}
        for t in tips:
            revs = set(git(self.w.bare, 'rev-list', t).split())
            anc[t] = sorted(a for a in tips if a != t and a in revs)
        return refs, anc


def parse_model_obs(s):
    outcome, refs, queue, anc = s.split('|')
    r = {}
    if refs:
        for kv in refs.split(','):
            k, v = kv.rsplit('=', 1)
            r[k] = int(v)
    a = {}
    if anc:
        for part in anc.split(','):
            t, l = part.split(':')
            a[int(t)] = sorted(int(x) for x in l.split('.') if x)
    q = [int(x) for x in queue.split(',') if x]
    return outcome, r, q, a


def compare(real_refs, real_anc, mobs, sha2id):
    """Compare a real observation with a model observation. Returns None or a reason.
    Extends sha2id with the new tips when the observation is consistent."""
    outcome, mrefs, mqueue, manc = mobs
    rcodes = {ref_code(n): s for n, s in real_refs.items()}
    if set(rcodes) != set(mrefs):
        return 'refs differ: only real %s, only model %s' % (sorted(set(rcodes) - set(mrefs)),
                                                             sorted(set(mrefs) - set(rcodes)))
    new = dict(sha2id)
    id2sha = {v: k for k, v in new.items()}
    for code, sha in sorted(rcodes.items()):
        mid = mrefs[code]
        if sha in new:
            if new[sha] != mid:
                return 'tip of %s: real commit is model commit %d, model says %d' % (code, new[sha], mid)
        elif mid in id2sha:
            return 'tip of %s: model commit %d is already another real commit' % (code, mid)
        else:
            new[sha] = mid
            id2sha[mid] = sha
    for sha, ancs in real_anc.items():
        want = sorted(new[a] for a in ancs)
        if manc.get(new[sha], []) != want:
            return 'ancestry of tip %d: real %s model %s' % (new[sha], want, manc.get(new[sha]))
    return new


# ----------------------------------------------------------------------------- model translation

def stage_of(status):
    if status in INTEGRATION_STATUS:
        return ['i']
    if status == 'NothingToDo':
        return ['f', 'e']
    if status in FINAL_STATUS:
        return ['f']
    return ['e']


# Answer lists of git's content merges tried for an evaluation that ended in a conflict: k successes, then the
# failure. With the octopus strategy one failing answer ends the evaluation. With `no_octopus` every 3-way merge is
# `consecutive_merge`: two 2-way merges and, after a MergeFailedException, a retry in the opposite order from where
# the branch then is - a conflict takes a failing answer in BOTH attempts: `00` (the retry fails at once) or `010`
# (the first merge of the retry goes through, the second fails). The first question of an evaluation (check_conflict)
# is a single 2-way merge under both strategies.
ORC_CANDIDATES = ['-', '0', '10', '110', '1110', '11110', '111110']
ORC_CANDIDATES_NO_OCTOPUS = ['-', '0'] + ['1' * k + tail for k in range(0, 10) for tail in ('00', '010')]


def orc_candidates(no_oct):
    return ORC_CANDIDATES_NO_OCTOPUS if no_oct else ORC_CANDIDATES


OPTION_WORD = re.compile(r'(?:^|\s)no_octopus(?:\s|$)')


def no_octopus_of(run, pr):
    """`job.settings.no_octopus` of an evaluation of this pull request: the command-line option of the robot, or a
    comment `@robot no_octopus` on the pull request (the option is not privileged: anybody's comment counts, the
    robot's own do not)."""
    if run.cfg.no_octopus or 'no_octopus' in run.cfg.options:
        return True
    for user, text in run.w.comments(pr['id']):
        if user != ROBOT and text.strip().startswith('@' + ROBOT) and OPTION_WORD.search(text):
            return True
    return False


def gone_prs(before, after):
    """pull requests whose queue-integration branches all disappeared"""
    def ids(refs):
        return {int(m.group(1)) for n in refs for m in [re.match(r'^q/w/(\d+)/', n)] if m}
    return sorted(ids(before) - ids(after))


def pr_item(pr, stage, orc, sel, no_oct=False):
    return 'pr %d %s %s %s %s %s %d' % (pr['id'], pr['src'], dest_code(pr['dst']), stage, orc,
                                        ','.join(map(str, sel)) or '-', 1 if no_oct else 0)


def candidates_for(run, info, before, after, host_before, host_after):
    """Model items (lists of alternatives, each a list of items) for an executed Bert-E job."""
    kind = info['kind']
    status = info['status']
    sel = gone_prs(before, after)
    by_id = {p['id']: p for p in run.prs.values()}

    def pr_alts(pr, status):
        no_oct = no_octopus_of(run, pr)
        st_before = {p['id']: p['state'] for p in host_before}
        st_after = {p['id']: p['state'] for p in host_after}
        if status == 'ResetComplete':      # the command runs before the DECLINED state is looked at
            return [['reset %d %s %s' % (pr['id'], pr['src'], dest_code(pr['dst']))]]
        if st_before.get(pr['id']) == 'DECLINED':
            if status in ('PullRequestDeclined', 'NothingToDo'):
                child = any(st_before.get(i) == 'OPEN' and st_after.get(i) == 'DECLINED'
                            for i in st_after if i != pr['id'])
                alts = [['declined %d %s %s %d' % (pr['id'], pr['src'], dest_code(pr['dst']), child)]]
                if status == 'NothingToDo':      # also what a `wait` option gives, before the clone
                    alts.append([pr_item(pr, 'e', '-', [], no_oct)])
                return alts
            return [[pr_item(pr, 'e', '-', [], no_oct)]]
        if status == 'ResetComplete':
            return [['reset %d %s %s' % (pr['id'], pr['src'], dest_code(pr['dst']))]]
        alts = []
        for stage in stage_of(status):
            orcs = orc_candidates(no_oct) if status in ('Conflict', 'QueueConflict') else ['-']
            for orc in orcs:
                alts.append([pr_item(pr, stage, orc, sel, no_oct)])
        return alts

    if kind == 'pr':
        return pr_alts(info['pr'], status)
    if kind == 'commit':
        names = [n for n, s in before.items() if s == info['sha']]
        if run.cfg.use_queue and any(re.match(r'^q/[0-9.]+$', n) for n in names):
            return [['queues %s' % (','.join(map(str, sel)) or '-')]]
        parents = []
        for n in names:
            m = re.match(r'^w/[0-9.]+/(.+)$', n)
            parents.append(m.group(1) if m else n)
        open_ids = [p['id'] for p in host_before if p['state'] == 'OPEN' and p['src'] in parents]
        if not open_ids:
            return [[]]
        pid = min(open_ids)
        if pid not in by_id:
            # an integration pull request: handled as its parent
            child = [p for p in host_before if p['id'] == pid][0]
            m = re.findall(r'\d+', child['description'])
            pid = int(m[0]) if m else pid
        if pid not in by_id:
            return [[]]
        return pr_alts(by_id[pid], status)
    if kind in ('rebuild_queues', 'delete_queues'):
        if status != 'JobSuccess':
            return [[]]
        items = ['dropq']
        alts = [items]
        for pid, st in info.get('drained', []):
            if pid in by_id:
                alts = [a + b for a in alts for b in pr_alts(by_id[pid], st)]
        return alts
    if kind == 'force_merge_queues':
        if status not in ('Merged',):
            return [[]]
        return [['queues %s' % (','.join(map(str, sel)) or '-')]]
    if kind == 'create_branch':
        if status != 'JobSuccess':
            return [[]]
        name = info['branch']
        sha = after.get(name)
        cid = run.sha2id.get(sha)
        if cid is None:
            return [['bad-op unknown branching point']]
        items = ['mkbranch %s %d' % (dest_code(name), cid)]
        alts = [items]
        if run.cfg.use_queue and name.startswith('development/'):
            for pid, st in info.get('drained', []):
                if pid in by_id:
                    alts = [a + b for a in alts for b in pr_alts(by_id[pid], st)]
        return alts
    if kind == 'delete_branch':
        if status != 'JobSuccess':
            return [[]]
        return [['rmbranch %s' % dest_code(info['branch'])]]
    return [[]]


def ext_items(run, info):
    if 'x' in info:
        name, on_top, parents = info['x']
        ids = [run.sha2id[p] for p in parents]
        return ['x %s %d %s' % (name, on_top, ','.join(map(str, ids)) or '-')]
    if 'xw' in info:
        return ['xw %s %s' % info['xw']]
    if 'xpoint' in info:
        return ['xpoint %s %d' % (info['xpoint'][0], run.sha2id[info['xpoint'][1]])]
    return []


def play(cfg, events, model, oracles=(), base_dir=None, stop_on_disagreement=True):
    """Execute a history on the real system and, event by event, on the model.
    Returns dict(trace, disagreement, failures, stats)."""
    run = Run(cfg, base_dir)
    out = {'trace': [], 'disagreement': None, 'failures': [], 'stats': {}, 'compared': 0}
    stats = out['stats']
    try:
        refs, anc = run.observe()
        host = run.w.prs()
        model_ok = model is not None
        if model_ok:
            ans = model.ask(['C01 ' + ';'.join(run.items)])[0].split(';')
            r = compare(refs, anc, parse_model_obs(ans[-1]), run.sha2id)
            if isinstance(r, str):
                out['disagreement'] = {'event': 'init', 'why': r, 'items': list(run.items)}
                model_ok = False
            else:
                run.sha2id = r
        for n, ev in enumerate(events):
            before, host_before = refs, host
            kind, info = run.execute(ev)
            stats['ev:' + ev['op']] = stats.get('ev:' + ev['op'], 0) + 1
            if kind == 'skip':
                stats['skipped'] = stats.get('skipped', 0) + 1
                continue
            refs, anc = run.observe()
            host = run.w.prs()
            status = info.get('status') if (kind == 'job' and info) else None
            if status:
                stats['status:' + status] = stats.get('status:' + status, 0) + 1
            rec = {'n': n, 'event': ev, 'kind': kind, 'status': status}
            out['trace'].append(rec)
            for orc in oracles:
                for f in orc(run, ev, kind, info, before, refs, host_before, host) or []:
                    f = dict(f)
                    f['at'] = n
                    out['failures'].append(f)
            if not model_ok or kind == 'host':
                continue
            if kind == 'ext':
                alts = [ext_items(run, info)]
            else:
                alts = candidates_for(run, info, before, refs, host_before, host)
            lines = ['C01 ' + ';'.join(run.items + alt) for alt in alts]
            answers = model.ask(lines)
            chosen, why0 = None, None
            for alt, a in zip(alts, answers):
                last = a.split(';')[-1]
                if last.startswith('bad-op'):
                    why = last
                else:
                    mobs = parse_model_obs(last)
                    why = compare(refs, anc, mobs, run.sha2id)
                    if not isinstance(why, str) and status and mobs[0] not in ('gate', 'external', 'init') \
                            and len(alt) == 1 and mobs[0] != status and not (mobs[0] == 'nothing-selected'):
                        why = 'outcome: real %s, model %s' % (status, mobs[0])
                if not isinstance(why, str):
                    chosen = (alt, why)
                    break
                if why0 is None:
                    why0 = why
            out['compared'] += 1
            if chosen is None:
                out['disagreement'] = {'event': ev, 'at': n, 'why': why0, 'status': status,
                                       'items': run.items + alts[0],
                                       'real_refs': {ref_code(k): v[:8] for k, v in refs.items()}}
                model_ok = False
                if stop_on_disagreement:
                    break
            else:
                run.items += chosen[0]
                run.sha2id = chosen[1]
                rec['items'] = chosen[0]
        out['items'] = run.items
    finally:
        run.close()
    return out
