"""C11 — tie between the Lean model of the ticket gate and the real `jira_checks`
(bert_e/workflow/gitwaterflow/jira.py), plus the property oracle.

Real side: the real `jira_checks` on a stub job (real PullRequestJob / SettingsDict), with
`bert_e.lib.jira.JiraIssue` replaced by a fake exactly as the upstream tests do
(bert_e/tests/mocks/jira.py), `job.git.src_branch` a real FeatureBranch built by `branch_factory`,
`job.git.cascade` a stub holding real destination branch objects and the target versions that the
real BranchCascade computed. Any use of the git repository or of the git host by the gate is recorded
(the gate must not touch either).
"""
import itertools
import json
import multiprocessing
import os
import re
from types import SimpleNamespace as NS

from . import common
from .pipeline import Result
from .stubs import make_job

PID = 'C11'
TABLES = ['Jira', 'Messages']
LEAN_TARGETS = ['BertE.Props.C11']
ASSUMPTIONS = [
    'the source branch is a feature branch (FeatureBranch grammar); a development branch used as a source has no '
    '`prefix` attribute and is outside the quantifier of the property',
    'version names (Jira fixVersions, cascade target versions) are single-line ASCII strings: Python `\\d` also '
    'matches non-ASCII digits and `$` also matches before a final newline, the model does neither',
    'the ticket\'s project is the project part of the key named by the branch: Jira answers a lookup with the issue of '
    'that key (the project recorded inside the issue is never read by the code)',
    'a Jira issue has `fields.issuetype.name` and `fields.fixVersions[*].name`',
    'repository-untouched clause: `jira_checks(job)` is called in `_handle_pull_request` before '
    'check_integration_branches / create_integration_branches / push / queueing.* / merge_integration_branches '
    '(order obligation C11_no_effect on the regenerated call table) and nothing is pushed before that point '
    '(validated by the system-level history checks of C01/C12)',
]
TRUSTED = [
    'Lean 4 kernel; axioms of every theorem audited (subset of propext, Classical.choice, Quot.sound)',
    'harness/tables/jira.py (introspection of allow_ticketless_pr, AST extraction of the regex literals, of the classes '
    'raised in jira.py and of the ordered calls of _handle_pull_request)',
    'correspondence harness harness/c11.py (stub job around the real jira_checks, fake JiraIssue as in the upstream tests, '
    'real FeatureBranch / destination branch objects, target lists computed by the real BranchCascade)',
    'the harness keeps one jinja Environment for rendering the messages (bert_e.exceptions.render re-creates it per message)',
    'modelled, not verified: the Jira server (a function from issue key to issue / 404 / error)',
]

# --------------------------------------------------------------------------- input space

PREFIXES = ['bugfix', 'feature', 'improvement', 'bug', 'epic', 'dependabot', 'documentation', 'project', 'design']
LABELS_WITH = ['PROJ-12-fix-it', 'PROJ-12', 'proj-12-fix', 'Proj-7_x', 'OTHER-5-x', 'other-5', 'A_B1-3x',
               'PROJ2-1', '12-34-num', 'PROJ-12PROJ-13', 'PROJ-1/sub', '_-0']
LABELS_WITHOUT = ['fix-something', 'x', 'PROJ-x', '-12', 'x-PROJ-12', 'PROJ_12', 'PROJ', 'some/PROJ-1',
                  'PROJ--1', 'PROJ.1-2', 'proj-', 'fix PROJ-3'.replace(' ', '+')]
LABEL_ALPHABET = 'PROJprojAZaz019_--/.+x'

UNIVERSE = ['4.3.18', '5.1.4', '10.0.0', '4.3.18_rc1', '4.2.17.3', '5.1.4.0']
EXTRA_VERSIONS = ['5.1.5', '10.1.0', '4.3', '4.3.18.', '04.3.18', '4.3.18.00', '4.2.17.-1', '4.3.18-rc1',
                  'v4.3.18', '4.3.18 ', '10.0.0.0', '4.2.17.30', '5.1.4.0.0', '..', '1.2.3.4.5', '4.3.x']
ISSUE_TYPES = ['Bug', 'Story', 'Improvement', 'Epic', 'New Feature', 'Unknown', 'bug']
ISSUE_PROJECTS = ['PROJ', 'OTHER', 'ELSE']            # project recorded in the issue (never read by the code)

JIRA_KEYS = [(), ('PROJ',), ('PROJ', 'OTHER'), ('proj',), ('A_B1', '12', 'PROJ2')]
PREFIX_MAPS = [(), ('Bug',), ('Bug', 'Story', 'Improvement'), ('New Feature', 'Epic', 'Bug')]
BYPASS_PREFIXES = [(), ('dependabot',), ('bugfix', 'documentation')]
BYPASS = ['none', 'comment', 'cmdline', 'author', 'other-author']

_A = ['development/4.3', 'development/5.1', 'development/10.0']
_T = ['4.3.17', '5.1.3']
# (branches, tags, destination): the target lists are computed by the real BranchCascade
CASCADE_SPECS = [
    (_A, _T, 'development/10.0'),                                              # single dev
    (_A, _T, 'development/5.1'),                                               # two devs
    (_A, _T, 'development/4.3'),                                               # three devs
    (_A + ['stabilization/5.1.4'], _T, 'stabilization/5.1.4'),                 # stab + devs
    (_A + ['stabilization/5.1.4'], _T, 'development/4.3'),                     # devs, stab ignored (5.1.5)
    (_A + ['hotfix/4.2.17'], _T + ['4.2.17', '4.2.17.1', '4.2.17.2'], 'hotfix/4.2.17'),   # hotfix alone
    (_A + ['hotfix/4.2.17'], _T, 'hotfix/4.2.17'),                             # hotfix without a tag (x.y.z.-1)
    (_A + ['development/10'], _T, 'development/10.0'),                         # major-only branch last
    (['development/10'], [], 'development/10'),
]
# not producible by a cascade, cheap to cover (set semantics of the comparison, x.y.z.0 as single target)
SYNTHETIC_TARGETS = [
    (['hotfix/5.1.4'], ['5.1.4.0']),
    (['development/4.3', 'development/4.3'], ['4.3.18', '4.3.18']),
    (['hotfix/4.2.17', 'hotfix/4.2.17'], ['4.2.17.3', '4.2.17.3']),
    ([], []),
    (['development/4.3', 'development/5.1'], ['5.1.4', '4.3.18']),
]


def real_targets():
    """[(dst branch names, target versions)] from the real BranchCascade, then the synthetic ones."""
    from bert_e.workflow.gitwaterflow.branches import BranchCascade, branch_factory
    res = []
    for branches, tags, dst in CASCADE_SPECS:
        c = BranchCascade()
        d = branch_factory(None, dst)
        for b in branches:
            c.add_branch(branch_factory(None, b), d)
        for t in tags:
            c.update_versions(t)
        c._update_major_versions()
        c.finalize(d)
        res.append((tuple(b.name for b in c.dst_branches), tuple(c.target_versions)))
    return res, [(tuple(a), tuple(b)) for a, b in SYNTHETIC_TARGETS]


# A cell is a tuple (JSON-able):
#  (name, dsts, targets, issue, fix_versions, jira_keys, email, url, issue_types, bypass_prefixes, disable, bypass)
#  issue: None (404) | 'error' (other JIRAError) | [project, type]

def cell_dict(cell):
    keys = ['source', 'dsts', 'targets', 'issue', 'fix_versions', 'jira_keys', 'jira_email', 'jira_account_url',
            'prefixes', 'bypass_prefixes', 'disable_version_checks', 'bypass']
    return dict(zip(keys, cell))


def cell_of(d):
    c = cell_dict([None] * 12)
    return tuple(_tup(d[k]) for k in c)


def _tup(x):
    return tuple(_tup(e) for e in x) if isinstance(x, list) else x


def exhaustive_core(real, synth):
    """Every subset of the 6-version universe x issue states x names x target lists, under the plain gated
    configuration; then every settings / bypass combination on a smaller slice."""
    names = ['bugfix/PROJ-12-fix-it', 'feature/proj-12', 'improvement/OTHER-5-x', 'bugfix/fix-something',
             'dependabot/x-PROJ-12']
    issues = [None, 'error'] + [(p, t) for p in ('PROJ', 'ELSE') for t in ('Bug', 'Story', 'Unknown')]
    subsets = [tuple(v for k, v in enumerate(UNIVERSE) if m >> k & 1) for m in range(64)]
    for name in names:
        for dsts, targets in real + synth:
            for issue in issues:
                for fv in (subsets if isinstance(issue, tuple) else [()]):
                    for dis in (False, True):
                        for types in ((), ('Bug', 'Story')):
                            yield (name, dsts, targets, issue, fv, ('PROJ',), 'a@b', 'http://j', types, (), dis, 'none')
    slice_fv = [(), ('4.3.18', '5.1.4', '10.0.0'), ('10.0.0', '4.3.18_rc1'), ('4.2.17.3', '5.1.4')]
    slice_t = [real[0], real[2], real[5]]
    for name in names + ['bug/A_B1-3x', 'epic/PROJ']:
        for dsts, targets in slice_t:
            for issue in (None, ('PROJ', 'Bug'), ('OTHER', 'Epic')):
                for fv in slice_fv:
                    for keys in JIRA_KEYS:
                        for email, url in (('a@b', 'http://j'), ('', 'http://j'), ('a@b', '')):
                            for types in PREFIX_MAPS:
                                for bp in BYPASS_PREFIXES:
                                    for byp in BYPASS:
                                        yield (name, dsts, targets, issue, fv, keys, email, url, types, bp,
                                               False, byp)


def random_label(rng):
    r = rng.random()
    if r < 0.35:
        return rng.choice(LABELS_WITH)
    if r < 0.55:
        return rng.choice(LABELS_WITHOUT)
    if r < 0.8:     # project, dash, number, tail: mostly tickets
        proj = ''.join(rng.choice('PROJprojOTHERab1_') for _ in range(rng.randint(0, 5)))
        num = ''.join(rng.choice('0123456789') for _ in range(rng.randint(0, 3)))
        tail = ''.join(rng.choice(LABEL_ALPHABET) for _ in range(rng.randint(0, 4)))
        lab = proj + rng.choice(['-', '-', '-', '_', '']) + num + tail
        return lab or 'x'
    return ''.join(rng.choice(LABEL_ALPHABET) for _ in range(rng.randint(1, 9)))


def random_cells(rng, n, real, synth):
    for _ in range(n):
        name = '%s/%s' % (rng.choice(PREFIXES), random_label(rng))
        dsts, targets = rng.choice(real) if rng.random() < 0.85 else rng.choice(synth)
        r = rng.random()
        if r < 0.08:
            issue = None
        elif r < 0.1:
            issue = 'error'
        else:
            issue = (rng.choice(ISSUE_PROJECTS), rng.choice(ISSUE_TYPES))
        r = rng.random()
        if r < 0.45:        # aim at the expected versions, then disturb
            fv = list(targets)
            for _k in range(rng.choice([0, 0, 1, 1, 2])):
                op = rng.random()
                if op < 0.4 and fv:
                    fv.pop(rng.randrange(len(fv)))
                elif op < 0.8:
                    fv.append(rng.choice(UNIVERSE + EXTRA_VERSIONS))
                elif fv:
                    fv.append(rng.choice(fv) + rng.choice(['.0', '_rc1', '.1', '']))
            rng.shuffle(fv)
        elif r < 0.85:
            fv = [v for v in UNIVERSE if rng.random() < 0.5]
            rng.shuffle(fv)
        else:
            fv = [rng.choice(UNIVERSE + EXTRA_VERSIONS) for _ in range(rng.randint(0, 4))]
        keys = rng.choice(JIRA_KEYS) if rng.random() < 0.5 else ('PROJ', 'OTHER')
        email = '' if rng.random() < 0.05 else 'a@b'
        url = '' if rng.random() < 0.05 else 'http://j'
        types = rng.choice(PREFIX_MAPS)
        bp = rng.choice(BYPASS_PREFIXES) if rng.random() < 0.4 else ()
        dis = rng.random() < 0.2
        byp = rng.choice(BYPASS) if rng.random() < 0.25 else 'none'
        yield (name, dsts, targets, issue, tuple(fv), keys, email, url, types, bp, dis, byp)


# --------------------------------------------------------------------------- real side

class Recorder:
    """Stands for the git repository / git host: records every use."""

    def __init__(self, log, what):
        object.__setattr__(self, '_log', log)
        object.__setattr__(self, '_what', what)

    def __getattr__(self, name):
        self._log.append('%s.%s' % (self._what, name))
        raise AttributeError(name)

    def __setattr__(self, name, value):
        self._log.append('%s.%s=' % (self._what, name))


_SETUP = {}


def _setup():
    if _SETUP:
        return _SETUP
    import bert_e.exceptions as exc
    import bert_e.lib.jira as jira_api
    from bert_e.workflow.gitwaterflow import jira as gwf_jira
    from bert_e.workflow.gitwaterflow.branches import branch_factory, FeatureBranch
    from jira.exceptions import JIRAError

    class FakeJiraIssue:
        """As bert_e/tests/mocks/jira.py: same constructor, `fields` and `key`; content chosen by the cell."""
        spec = None
        asked = []

        def __init__(self, account_url, issue_id, email, token):
            FakeJiraIssue.asked.append(issue_id)
            s = FakeJiraIssue.spec
            if s is None:
                raise JIRAError(status_code=404, text='Issue Does Not Exist')
            if s == 'error':
                raise JIRAError(status_code=500, text='Internal Server Error')
            self.key = issue_id
            self.fields = NS(fixVersions=[NS(name=v, id=str(k)) for k, v in enumerate(s[2])],
                             issuetype=NS(name=s[1]), project=NS(key=s[0]))

    jira_api.JiraIssue = FakeJiraIssue          # what the upstream tests patch

    # bert_e.lib.template_loader.render builds a new jinja Environment (and recompiles the template) for
    # every message: 5 ms. Same loader, same StrictUndefined, same rendering — with the Environment kept.
    import bert_e.lib.template_loader as tl
    from jinja2 import Environment, FileSystemLoader, StrictUndefined
    env = Environment(loader=FileSystemLoader(str(tl.TEMPLATE_DIR)), undefined=StrictUndefined)

    def render(template, **kwargs):
        return env.get_template(template).render(**kwargs)
    exc.render = render
    _SETUP.update(exc=exc, fake=FakeJiraIssue, jira_checks=gwf_jira.jira_checks,
                  branch_factory=branch_factory, FeatureBranch=FeatureBranch, branches={})
    return _SETUP


def run_real(cell):
    """-> (observation, info) ; info = {'kind', 'touched', 'asked', 'key', 'project', 'flags'}"""
    S = _setup()
    exc, fake = S['exc'], S['fake']
    name, dsts, targets, issue, fv, keys, email, url, types, bp, dis, byp = cell
    job_s = {}
    glob_s = {'jira_keys': list(keys), 'jira_email': email, 'jira_account_url': url, 'jira_token': 'tok',
              'prefixes': {t: 'whatever' for t in types}, 'bypass_prefixes': list(bp),
              'disable_version_checks': dis}
    if byp == 'comment':
        job_s['bypass_jira_check'] = True
        glob_s['bypass_jira_check'] = False
    else:
        glob_s['bypass_jira_check'] = (byp == 'cmdline')
    if byp == 'author':
        glob_s['pr_author_options'] = {'author': {'bypass_jira_check': True}}
    elif byp == 'other-author':
        glob_s['pr_author_options'] = {'somebody': {'bypass_jira_check': True}}
    touched = []
    job = make_job(job_s, glob_s, repo=Recorder(touched, 'host'))
    src = S['branch_factory'](None, name)
    if type(src) is not S['FeatureBranch']:
        return 'not-a-feature-branch', None
    job.git.src_branch = src
    job.git.repo = Recorder(touched, 'git')
    dst_objs = []
    for d in dsts:
        if d not in S['branches']:
            S['branches'][d] = S['branch_factory'](None, d)
        dst_objs.append(S['branches'][d])
    job.git.cascade = NS(dst_branches=dst_objs, target_versions=list(targets))
    fake.spec = None if issue is None else ('error' if issue == 'error' else (issue[0], issue[1], list(fv)))
    fake.asked = []
    info = {'key': src.jira_issue_key, 'project': src.jira_project, 'prefix': src.prefix,
            'classes': [type(b).__name__ for b in dst_objs],
            'flags': [bool(b.allow_ticketless_pr) for b in dst_objs]}
    try:
        S['jira_checks'](job)
        obs, kind = 'pass', None
    except exc.BertE_Exception as e:
        kind = ('template' if isinstance(e, exc.TemplateException) else
                'silent' if isinstance(e, exc.SilentException) else 'other')
        obs = 'raise %s' % type(e).__name__
    except Exception as e:      # JIRAError, AttributeError, ...
        obs, kind = 'crash %s' % type(e).__name__, None
    info.update(kind=kind, touched=list(touched), asked=list(fake.asked))
    return obs, info


def _run_chunk(chunk):
    return [run_real(c) for c in chunk]


def run_all(cells):
    if len(cells) < 4000 or common.NCPU <= 1:
        return _run_chunk(cells)
    size = 4000
    chunks = [cells[i:i + size] for i in range(0, len(cells), size)]
    ctxm = multiprocessing.get_context('fork')
    with ctxm.Pool(min(common.NCPU, len(chunks))) as pool:
        outs = pool.map(_run_chunk, chunks)
    return [r for part in outs for r in part]


# --------------------------------------------------------------------------- model side

def esc(s):
    return s.replace('%', '%25').replace(' ', '%20').replace(',', '%2C')


def lst(xs):
    return ','.join(esc(x) for x in xs) if xs else '-'


def line_of(cell, info):
    name, dsts, targets, issue, fv, keys, email, url, types, bp, dis, byp = cell
    bs = 1 if byp in ('comment', 'cmdline') else 0
    ba = 1 if byp == 'author' else 0
    head = 'C11 %d %d %s %s %s %s %s %d %s %s %s' % (
        bs, ba, lst(bp), lst(keys), esc(email) or '-', esc(url) or '-', lst(types), 1 if dis else 0,
        esc(name), lst(info['classes']), lst(targets))
    if issue is None:
        return head + ' notfound'
    if issue == 'error':
        return head + ' error'
    return head + ' found %s %s %s' % (esc(issue[0]) or '-', esc(issue[1]) or '-', lst(fv))


# --------------------------------------------------------------------------- the property, stated independently

FAILURE_MESSAGE = {
    'no-ticket': 'MissingJiraId',
    'ticket-does-not-exist': 'JiraIssueNotFound',
    'project-not-configured': 'IncorrectJiraProject',
    'issue-type-not-configured': 'IssueTypeNotSupported',
    'fix-versions-differ': 'IncorrectFixVersion',
}
_TICKET = re.compile(r'([A-Za-z0-9_]+)-[0-9]+')
_PLAIN = re.compile(r'[0-9]+\.[0-9]+\.[0-9]+(\.0)?')
_HOTFIX = re.compile(r'[0-9]+\.[0-9]+\.[0-9]+\.[0-9]+')


def failures(cell, flags):
    """The set of reasons for which the property forbids integration branches (empty: admitted;
    None: the checks are bypassed or Jira is not configured)."""
    name, dsts, targets, issue, fv, keys, email, url, types, bp, dis, byp = cell
    prefix, label = name.split('/', 1)
    if byp in ('comment', 'cmdline', 'author') or prefix in bp:
        return None
    if not (keys and email and url):
        return None
    m = _TICKET.match(label)
    if not m:                        # names no ticket: mandatory as soon as one target does not accept that
        return {'no-ticket'} if not all(flags) else set()
    res = set()
    if m.group(1).upper() not in keys:
        res.add('project-not-configured')
    if issue is None:
        res.add('ticket-does-not-exist')
        return res
    if issue == 'error':
        return 'jira-error'
    if types and issue[1] not in types:
        res.add('issue-type-not-configured')
    if not dis:
        expected = set(targets)
        hotfix = len(expected) == 1 and _HOTFIX.fullmatch(next(iter(expected)))
        if hotfix:
            ok = next(iter(expected)) in fv
        else:
            ok = {v for v in fv if _PLAIN.fullmatch(v)} == expected      # suffixed versions ignored
        if not ok:
            res.add('fix-versions-differ')
    return res


def oracle(cell, obs, info):
    """None, or what the property demands and the code did not do."""
    if info['touched']:
        return 'the gate used the repository / git host: %s' % info['touched'][:3]
    f = failures(cell, info['flags'])
    if f == 'jira-error':
        return None                  # the Jira server failed: nothing is demanded
    if f is None or not f:
        return None if obs == 'pass' else \
            'bypassed / not configured / every condition met, yet the gate answered %s' % obs
    if obs == 'pass':
        return 'the pull request goes on to integration branches although: %s' % ', '.join(sorted(f))
    allowed = {'raise ' + FAILURE_MESSAGE[r] for r in f}
    if obs not in allowed or info['kind'] != 'template':
        return 'failure(s) %s but the author is told %s' % (', '.join(sorted(f)), obs)
    return None


# --------------------------------------------------------------------------- ticket parser tie

def ticket_tie(ctx, res, rng, n):
    """`ticketOf` of the model against the real FeatureBranch on random labels."""
    S = _setup()
    labels = sorted(set(LABELS_WITH + LABELS_WITHOUT + [random_label(rng) for _ in range(n)]))
    labels = [l for l in labels if '\n' not in l]
    real = []
    for lab in labels:
        b = S['branch_factory'](None, 'bugfix/' + lab)
        real.append('%s %s' % (b.jira_issue_key, b.jira_project) if b.jira_issue_key else 'none')
    res.count('ticket-parser labels', len(labels))
    res.count('ticket-parser labels with a ticket', sum(1 for r in real if r != 'none'))
    vers = sorted(set(UNIVERSE + EXTRA_VERSIONS))
    vreal = ['%d %d' % (1 if re.match(r'^\d+\.\d+\.\d+(\.0|)$', v) else 0,
                        1 if re.match(r'^\d+\.\d+\.\d+\.\d+$', v) else 0) for v in vers]
    if ctx.model:
        ans = ctx.model.ask(['C11 ticket ' + esc(l) for l in labels] + ['C11 version ' + esc(v) for v in vers])
        for inp, r, a in zip(labels + vers, real + vreal, ans):
            res.model_compared += 1
            if r != a:
                res.disagreements.append({'input': {'parse': inp}, 'real': r, 'model': a})
    res.evaluations += len(labels) + len(vers)


# --------------------------------------------------------------------------- entry points

def evaluate(ctx, res, cells, collect_samples=True):
    outs = run_all(cells)
    keep = [(c, o, i) for c, (o, i) in zip(cells, outs) if i is not None]
    lines = [line_of(c, i) for c, o, i in keep]
    answers = ctx.model.ask_parallel(lines) if ctx.model else [None] * len(lines)
    for (cell, obs, info), ans in zip(keep, answers):
        res.evaluations += 1
        f = failures(cell, info['flags'])
        gated = f is not None
        res.count('outcome:' + obs)
        res.count('targets=%d' % len(cell[2]))
        res.count('ticket:' + ('yes' if info['key'] else 'no'))
        if isinstance(f, set):
            res.count('failing conditions=%d' % len(f))
        if gated:
            res.distinct.add(hash(cell))
        why = oracle(cell, obs, info)
        if why:
            key = ('touch' if info['touched'] else 'admit' if obs == 'pass' else
                   'message' if f else 'spurious')
            res.oracle_failures.append({'key': key, 'what': why, 'input': cell_dict(cell), 'observation': obs})
        if ans is not None:
            res.model_compared += 1
            if ans != obs:
                res.disagreements.append({'input': cell_dict(cell), 'real': obs, 'model': ans})
        if collect_samples and gated and len(res.samples) < 8 and res.evaluations % 9973 == 1:
            res.samples.append({'input': cell_dict(cell), 'real': obs, 'model': ans})


def replay_corpus(ctx, res):
    d = os.path.join(common.CORPUS_DIR, PID)
    if not os.path.isdir(d):
        return
    cells = []
    for fn in sorted(os.listdir(d)):
        if fn.endswith('.json'):
            with open(os.path.join(d, fn)) as fh:
                entry = json.load(fh)
            cell = cell_of(entry['input'])
            cells.append(cell)
            if 'expected' in entry:          # what the unchanged code answered when the witness was recorded
                obs = run_real(cell)[0]
                if obs != entry['expected']:
                    res.disagreements.append({'input': entry['input'], 'real': obs,
                                              'model': 'corpus %s expects %s' % (fn, entry['expected'])})
    if cells:
        evaluate(ctx, res, cells, collect_samples=False)
        res.count('corpus cells', len(cells))


def correspondence(ctx):
    res = Result()
    res.rule = ('exhaustive core: 5 source names x every target list (9 from the real BranchCascade, 5 synthetic) x '
                'issue {404, error, 2 projects x 3 types} x every subset of the 6-version universe x '
                'disable_version_checks x prefixes {none, set}; then 7 names x 3 target lists x 3 issues x 4 fixVersions x '
                '5 jira_keys x 3 (email,url) x 4 prefixes x 3 bypass_prefixes x 5 bypass sources; then random cells '
                '(random feature-branch labels, disturbed fix versions, settings, bypass sources); '
                'non-trivial = not bypassed and Jira configured; distinct = distinct cell. '
                'Plus the ticket parser and the two version patterns on random labels / odd versions.')
    real, synth = real_targets()
    replay_corpus(ctx, res)
    core = list(exhaustive_core(real, synth))
    n_rand = (200000 if ctx.tier == 'quick' else 5000000) * ctx.scale
    rng = common.rng_for(ctx.seed, PID, ctx.tier, 'cells')
    res.count('exhaustive core cells', len(core))
    evaluate(ctx, res, core)
    batch = 500000
    done = 0
    while done < n_rand:
        k = min(batch, n_rand - done)
        evaluate(ctx, res, list(random_cells(rng, k, real, synth)))
        done += k
    res.count('random cells', n_rand)
    ticket_tie(ctx, res, common.rng_for(ctx.seed, PID, 'labels'), 20000 if ctx.tier == 'quick' else 200000)
    res.exhaustive = False
    res.extra['target_lists_from_real_cascade'] = [list(map(list, t)) for t in real]
    # the per-author settings (`pr_author_options`) are one of the sources of a bypass this property names: the
    # real loader of the settings file (PrAuthorsOptions.deserialize) and PullRequestJob.author_bypass against
    # Model/AuthorOptions.lean (theorem C04_author_options), oracle: an author gets exactly the bypasses of his own entry
    from . import authoropts
    authoropts.run(ctx, res, (2000 if ctx.tier == 'quick' else 50000) * ctx.scale)
    return res


def replay(ctx, payload):
    res = Result()
    f = payload['failure']['input'] if 'failure' in payload else payload['no_longer_checks'][0]['first']['input']
    if 'pr_author_options' in f:
        from . import authoropts
        return authoropts.replay(ctx, res, f)
    evaluate(ctx, res, [cell_of(f)], collect_samples=False)
    res.samples.append({'input': f, 'real': [k for k in res.distribution if k.startswith('outcome:')]})
    return res
