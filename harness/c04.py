"""C04 — tie between the Lean model of the approval gate and the real `check_approvals`
(+ `bypass_*_approval` helpers, `PullRequestJob.author_bypass`, `SettingsSchema.validate_inter_settings`)."""
import glob
import json
import multiprocessing
import os
import subprocess
from types import SimpleNamespace

from . import common
from .pipeline import Result
from .stubs import make_job

PID = 'C04'
TABLES = ['Approvals', 'Messages']
LEAN_TARGETS = ['BertE.Props.C04']
ASSUMPTIONS = [
    'the lists of participants, approvers and change requesters are those the git host returns at evaluation '
    'time (any lists, duplicates allowed; no relation between them is assumed — an approver need not be a participant)',
    '"every review requirement is waived" (clause 5) is read as the code\'s early return: author approval disabled, '
    'bypassed or given by an `approve` comment; peer and leader approvals bypassed or not required (count <= 0); '
    'unanimity off. Under the stricter reading (an `approve` comment does not waive) the code differs: '
    'see C04_strict_reading_differs and the counter `strict-reading-differs`',
    'user names are compared as the host returns them (case is not normalised here)',
]
TRUSTED = [
    'Lean 4 kernel; axioms of every theorem audited (subset of propext, Classical.choice, Quot.sound)',
    'harness/tables/approvals.py (AST extraction of the bypass_* helpers, of what check_approvals calls and raises, '
    'of the tests of validate_inter_settings; introspection of PrAuthorsOptions.BYPASS_LIST)',
    'correspondence harness harness/c04.py: stub pull request (get_participants / get_approvals / get_change_requests) '
    'around the real check_approvals with a real PullRequestJob, real SettingsDict chain and real author_bypass; '
    'glue cells go through the real SettingsSchema.load, PrAuthorsOptions.deserialize, Reactor and handle_comments',
    'in bulk cells the Jinja rendering of the ApprovalRequired message is skipped (15 of 16) or done with a cached '
    'Environment; one cell in 4001 uses the unmodified bert_e.lib.template_loader.render',
    'modelled, not verified: the git host calls (participants, approvals, change requests are inputs)',
]

BA, BP, BL = 'bypass_author_approval', 'bypass_peer_approval', 'bypass_leader_approval'
U5 = ('author', 'peer1', 'peer2', 'leader', 'robot')
U4 = ('author', 'peer1', 'leader', 'robot')
LEADER_SETS = ((), ('leader',), ('author',), ('leader', 'author'))
# where a bypass comes from: admin comment (job-level setting) / command line (option default, seen here as a
# global-level setting with no job-level key) / per-author setting for this author / for somebody else (must not count)
SOURCES = ('none', 'comment', 'cmdline', 'author', 'other-author', 'comment+author')
BYPASS_LIST = ('bypass_author_approval', 'bypass_jira_check', 'bypass_build_status', 'bypass_commit_size',
               'bypass_incompatible_branch', 'bypass_peer_approval', 'bypass_leader_approval')

FIELDS = ('required_peer_approvals', 'required_leader_approvals', 'need_author_approval', 'project_leaders',
          'robot', 'author', BA, BP, BL, 'approve', 'unanimity', 'participants', 'approvals', 'change_requests')


def cell_dict(cell):
    return {k: (list(v) if isinstance(v, tuple) else v) for k, v in zip(FIELDS, cell)}


def cell_of(d):
    return tuple(tuple(d[k]) if isinstance(d[k], list) else d[k] for k in FIELDS)


def setting_on(src):
    return src in ('comment', 'cmdline', 'comment+author')


def author_on(src):
    return src in ('author', 'comment+author')


# --------------------------------------------------------------------------- the real side

class StubPR:
    """What check_approvals (and the ApprovalRequired template) needs of a pull request."""

    def __init__(self, author, participants=(), approvals=(), change_requests=(), comments=()):
        self.id = 1
        self.author = author
        self.author_display_name = author
        self.participants = participants
        self.approvals = approvals
        self.change_requests = change_requests
        self.comments = list(comments)

    def get_participants(self):
        return iter(self.participants)

    def get_approvals(self):
        return iter(self.approvals)

    def get_change_requests(self):
        return iter(self.change_requests)


_RENDER = {'mode': 'cached', 'orig': None, 'env': None}


def _install_render():
    """Route `render` of bert_e.exceptions through a switch: unmodified / cached Environment / skipped."""
    import bert_e.exceptions as exc
    if _RENDER['orig'] is not None:
        return
    import bert_e.lib.template_loader as tl
    from jinja2 import Environment, FileSystemLoader, StrictUndefined
    _RENDER['orig'] = exc.render
    _RENDER['env'] = Environment(loader=FileSystemLoader(str(tl.TEMPLATE_DIR)), undefined=StrictUndefined)

    def render(template, **kwargs):
        mode = _RENDER['mode']
        if mode == 'none':
            return ''
        if mode == 'cached':
            return _RENDER['env'].get_template(template).render(**kwargs)
        return _RENDER['orig'](template, **kwargs)
    exc.render = render


def build_job(cell, sparse_author_options=False):
    (rp, rl, need, leaders, robot, author, sa, sp, sl, approve, unanimity, parts, apprs, crs) = cell
    job_s = {'approve': approve, 'unanimity': unanimity}
    glob_s = {'required_peer_approvals': rp, 'required_leader_approvals': rl, 'need_author_approval': need,
              'project_leaders': list(leaders), 'robot': robot}
    mine, other = {}, {}
    for key, src in ((BA, sa), (BP, sp), (BL, sl)):
        if src in ('comment', 'comment+author'):
            job_s[key] = True
        elif src == 'cmdline':
            glob_s[key] = True          # no job-level key: found in the next map of the chain
        else:
            job_s[key] = False
        if author_on(src):
            mine[key] = True
        if src == 'other-author':
            other[key] = True
    pao = {}
    for user, d in ((author, mine), ('somebody', other)):
        if d:
            pao[user] = dict(d) if sparse_author_options else {k: bool(d.get(k)) for k in BYPASS_LIST}
    glob_s['pr_author_options'] = pao
    pr = StubPR(author, parts, apprs, crs)
    job = make_job(job_s, glob_s, author=author, pr=pr)
    job.start_time = 0            # repr(job) is evaluated by check_approvals' log line
    return job


def observe(job, fn=None):
    """Run the real function; canonical observation (outcome, sorted change requesters, info)."""
    import bert_e.exceptions as exc
    from bert_e.workflow.gitwaterflow import check_approvals
    try:
        (fn or check_approvals)(job)
        return 'pass', None, None
    except exc.ApprovalRequired as e:
        info = {'template': isinstance(e, exc.TemplateException),
                'crs': sorted(str(u) for u in e.kwargs.get('change_requesters', [])),
                'msg': e.msg, 'kwargs': e.kwargs}
        return 'raise ApprovalRequired', info['crs'], info
    except exc.BertE_Exception as e:
        return 'raise %s' % type(e).__name__, None, None
    except Exception as e:   # AttributeError, KeyError, ...
        return 'crash %s' % type(e).__name__, None, None


# --------------------------------------------------------------------------- the property, independently

def clauses(cell):
    """The five clauses of the property text, and the 'waived' condition of the fifth (two readings)."""
    (rp, rl, need, leaders, robot, author, sa, sp, sl, approve, unanimity, parts, apprs, crs) = cell
    bypass = {k: src in ('comment', 'cmdline', 'author', 'comment+author') for k, src in ((BA, sa), (BP, sp), (BL, sl))}
    approved = set(apprs)
    if approve:
        approved.add(author)
    author_ok = author in approved or not need or bypass[BA]
    peers_ok = bypass[BP] or len({u for u in approved if u != author}) >= rp
    leaders_ok = bypass[BL] or len({u for u in leaders if u in approved or u == author}) >= rl
    unanimity_ok = (not unanimity) or all(u in approved for u in parts if u != robot)
    rest_waived = (bypass[BP] or rp <= 0) and (bypass[BL] or rl <= 0) and not unanimity
    waived = (not need or bypass[BA] or approve) and rest_waived
    waived_strict = (not need or bypass[BA]) and rest_waived
    cr_ok = len(crs) == 0 or waived
    cr_ok_strict = len(crs) == 0 or waived_strict
    return {'author': author_ok, 'peers': peers_ok, 'leaders': leaders_ok, 'unanimity': unanimity_ok,
            'change-requests': cr_ok}, waived, (cr_ok != cr_ok_strict)


def oracle(cell, obs, crs_obs, info, failing=None):
    """None, or (key, what) when the real observation contradicts the property text."""
    if failing is None:
        cl, _, _ = clauses(cell)
        failing = [k for k, v in cl.items() if not v]
    if not failing:
        if obs != 'pass':
            return ('refused-though-approved' + (':unanimity' if cell[10] else ''),
                    'every clause of the property holds, yet the check did not pass: %s' % obs)
        return None
    if obs == 'pass':
        return ('passed-without:' + failing[0], 'the check passed although these clauses fail: %s' % ', '.join(failing))
    if obs != 'raise ApprovalRequired':
        return ('not-reported', 'approvals are missing but the author is not told ApprovalRequired: %s' % obs)
    if not info['template']:
        return ('not-reported', 'ApprovalRequired is not a posted message')
    if crs_obs != sorted(set(cell[13])):
        return ('report-change-requesters', 'the report does not carry exactly the change requesters: %s' % crs_obs)
    msg = info['msg']
    if msg:
        for u in set(cell[13]):
            if '@%s' % u not in msg:
                return ('report-text', 'the message does not name change requester %s' % u)
        if cell[2] and 'the author' not in msg:
            return ('report-text', 'the message does not ask for the author\'s approval')
        if cell[10] and 'unanimity' not in msg:
            return ('report-text', 'the message does not mention unanimity')
        if cell[0] > 1 and '%d peers' % cell[0] not in msg:
            return ('report-text', 'the message does not state the required peer count')
    return None


# --------------------------------------------------------------------------- the model side

def ulist(l):
    return ','.join(l) if l else '-'


def line_of(cell):
    (rp, rl, need, leaders, robot, author, sa, sp, sl, approve, unanimity, parts, apprs, crs) = cell
    flags = ''.join('1' if b else '0' for b in (
        need, setting_on(sa), author_on(sa), setting_on(sp), author_on(sp), setting_on(sl), author_on(sl),
        approve, unanimity))
    return 'C04 check %d %d %s %s %s %s %s %s %s' % (rp, rl, flags, robot, author, ulist(leaders), ulist(parts),
                                                   ulist(apprs), ulist(crs))


def canon_model(ans):
    if ans is None:
        return None
    if ans.startswith('raise ApprovalRequired '):
        crs = ans[len('raise ApprovalRequired '):]
        return 'raise ApprovalRequired ' + ulist(sorted([] if crs == '-' else crs.split(',')))
    return ans


def canon_real(obs, crs_obs):
    if obs == 'raise ApprovalRequired':
        return 'raise ApprovalRequired ' + ulist(crs_obs)
    return obs


def ask(exe, lines):
    if exe is None or not lines:
        return [None] * len(lines)
    p = subprocess.run([exe], input='\n'.join(lines) + '\n', stdout=subprocess.PIPE, stderr=subprocess.PIPE,
                       text=True, timeout=3000)
    if p.returncode != 0:
        raise RuntimeError('model driver failed: %s' % p.stderr[-1000:])
    out = p.stdout.split('\n')
    if out and out[-1] == '':
        out.pop()
    if len(out) != len(lines):
        raise RuntimeError('model driver: %d answers for %d questions' % (len(out), len(lines)))
    return out


# --------------------------------------------------------------------------- blocks of cells (one per task)

def subsets(universe):
    res = []
    for mask in range(1 << len(universe)):
        res.append(tuple(u for k, u in enumerate(universe) if mask >> k & 1))
    return res


class Tally:
    """Picklable partial result of a task."""

    def __init__(self):
        self.evaluations = 0
        self.compared = 0
        self.nontrivial = 0
        self.strict_differs = 0
        self.dist = {}
        self.distinct = set()
        self.disagreements = []
        self.failures = []
        self.samples = []

    def count(self, k, n=1):
        self.dist[k] = self.dist.get(k, 0) + n


def run_cells(cells, exe, tally, offset=0, sparse=False, keep_distinct_cells=False, lines=None):
    """cells: list of cell tuples. Real run + oracle on each, then the model on the whole block."""
    _install_render()
    from bert_e.workflow.gitwaterflow import check_approvals
    observed = []
    job = None
    prev_cfg = None
    names = {}
    for k, cell in enumerate(cells):
        idx = offset + k
        _RENDER['mode'] = 'real' if idx % 4001 == 0 else ('cached' if idx % 16 == 0 else 'none')
        cfg = cell[:11]
        if cfg != prev_cfg or sparse:
            job = build_job(cell, sparse_author_options=sparse and (idx % 2 == 0))
            prev_cfg = cfg
        else:
            pr = job.pull_request
            pr.participants, pr.approvals, pr.change_requests = cell[11], cell[12], cell[13]
        obs, crs_obs, info = observe(job, check_approvals)
        observed.append((obs, crs_obs))
        cl, waived, strict_differs = clauses(cell)
        failing = tuple([k2 for k2, v in cl.items() if not v])
        if waived:
            key = ('early', obs, failing)
        else:
            key = ('full', obs, failing)
            tally.nontrivial += 1
            if keep_distinct_cells:
                tally.distinct.add(cell)
            else:
                tally.distinct.add((cfg, failing))
        names[key] = names.get(key, 0) + 1
        if strict_differs:
            tally.strict_differs += 1
        bad = oracle(cell, obs, crs_obs, info, failing)
        if bad and len(tally.failures) < 20:
            tally.failures.append({'key': bad[0], 'what': bad[1], 'input': cell_dict(cell),
                                   'observation': canon_real(obs, crs_obs)})
        elif bad:
            tally.count('oracle-failures-not-listed')
        if idx % 7919 == 0 and len(tally.samples) < 2 and not waived:
            tally.samples.append({'input': cell_dict(cell), 'real': canon_real(obs, crs_obs)})
    tally.evaluations += len(cells)
    for (branch, obs, failing), n in names.items():
        if branch == 'early':
            tally.count('branch:early-return', n)
        else:
            tally.count('branch:full-check/' + ('pass' if obs == 'pass' else 'raise'), n)
        tally.count('outcome:' + obs, n)
        if failing:
            tally.count('missing:' + '+'.join(failing), n)
    _RENDER['mode'] = 'cached'
    if exe is not None:
        answers = ask(exe, lines if lines is not None else [line_of(c) for c in cells])
        for cell, (obs, crs_obs), ans in zip(cells, observed, answers):
            if ans == obs and obs == 'pass':
                continue
            real = canon_real(obs, crs_obs)
            if canon_model(ans) != real:
                if len(tally.disagreements) < 20:
                    tally.disagreements.append({'input': cell_dict(cell), 'real': real, 'model': ans})
                else:
                    tally.count('disagreements-not-listed')
        tally.compared += len(cells)
    return tally


def quick_options(o):
    """32 subsets of the five options; the source of each bypass rotates with the block number."""
    res = []
    rot = ('comment', 'author', 'cmdline')
    for bits in range(32):
        sa = rot[(o + bits) % 3] if bits & 1 else 'none'
        sp = rot[(o + bits + 1) % 3] if bits & 2 else 'none'
        sl = rot[(o + bits + 2) % 3] if bits & 4 else 'none'
        res.append((sa, sp, sl, bool(bits & 8), bool(bits & 16)))
    return res


def full_options():
    """64: every subset of the five options, bypass_leader_approval from each of its three sources."""
    res = []
    for sa in ('none', 'comment'):
        for sp in ('none', 'comment'):
            for sl in ('none', 'comment', 'author', 'cmdline'):
                for approve in (False, True):
                    for unanimity in (False, True):
                        res.append((sa, sp, sl, approve, unanimity))
    return res


def outer_configs(options_of):
    k = 0
    for rp in range(4):
        for rl in range(3):
            for need in (True, False):
                for leaders in LEADER_SETS:
                    for opt in options_of(k):
                        yield (rp, rl, need, leaders, 'robot', 'author') + opt
                    k += 1


def task_exhaustive(args):
    universe, cr_universe, outers, exe, first_index = args
    subs = subsets(universe)
    crsubs = subsets(cr_universe)
    inner = [(p, a, c) for a in subs for p in subs for c in crsubs]
    tails = [' %s %s %s' % (ulist(p), ulist(a), ulist(c)) for p, a, c in inner]
    tally = Tally()
    n = len(inner)
    for j, outer in enumerate(outers):
        cells = [outer + t for t in inner]
        head = line_of(outer + ((), (), ()))[:-len(' - - -')]
        run_cells(cells, exe, tally, offset=(first_index + j) * n, lines=[head + t for t in tails])
    return tally


def random_cell(rng):
    users = list(U5) + (['extra%d' % rng.randrange(3)] if rng.random() < 0.2 else [])

    def some(p=0.5, dups=True):
        l = [u for u in users if rng.random() < p]
        if dups and l and rng.random() < 0.3:
            l += [rng.choice(l) for _ in range(rng.randrange(1, 3))]
        rng.shuffle(l)
        return tuple(l)
    rp = rng.choice((0, 1, 2, 3, 0, 1, 2, 3, -1, 4, 6))
    rl = rng.choice((0, 1, 2, 0, 1, 2, -1, 3))
    leaders = some(0.35)
    author = 'author' if rng.random() < 0.9 else rng.choice(users)
    robot = 'robot' if rng.random() < 0.95 else rng.choice(users)

    def src():
        return rng.choice(SOURCES) if rng.random() < 0.6 else 'none'
    return (rp, rl, rng.random() < 0.6, leaders, robot, author, src(), src(), src(),
            rng.random() < 0.35, rng.random() < 0.35,
            some(rng.choice((0.2, 0.5, 0.8))), some(rng.choice((0.2, 0.5, 0.8))),
            some(rng.choice((0.0, 0.0, 0.15, 0.5))))


def task_random(args):
    seed, k, n, exe = args
    rng = common.rng_for(seed, PID, 'random', k)
    cells = [random_cell(rng) for _ in range(n)]
    return run_cells(cells, exe, Tally(), offset=k * n + 1, sparse=True, keep_distinct_cells=True)


# --------------------------------------------------------------------------- glue: real settings loader, Reactor, comments

def task_glue(args):
    """Cells whose settings come out of the real SettingsSchema.load (UserDict robot / leaders, deserialised
    pr_author_options, inter-settings validation) and whose options are set by the real handle_comments
    (admin / author comments) or by command-line defaults registered with gwf.setup."""
    seed, k, n, exe = args
    _install_render()
    from marshmallow import ValidationError
    from bert_e.job import PullRequestJob
    from bert_e.lib.settings_dict import SettingsDict
    from bert_e.settings import SettingsSchema
    from bert_e.workflow.gitwaterflow import check_approvals, handle_comments
    from bert_e.workflow.gitwaterflow.commands import setup
    rng = common.rng_for(seed, PID, 'glue', k)
    tally = Tally()
    lines, expected, cells = [], [], []
    for _ in range(n):
        cell = random_cell(rng)
        (rp, rl, need, leaders, robot, author, sa, sp, sl, approve, unanimity, parts, apprs, crs) = cell
        leaders = tuple(dict.fromkeys(leaders))
        robot, author = 'robot', 'author'
        # sources available here: comment (admin comment), cmdline (gwf.setup default), author (settings file)
        fix = {'other-author': 'none'}
        sa, sp, sl = (fix.get(s, s) for s in (sa, sp, sl))
        cell = (rp, rl, need, leaders, robot, author, sa, sp, sl, approve, unanimity, parts, apprs, crs)
        pao = [key for key, s in ((BA, sa), (BP, sp), (BL, sl)) if author_on(s)]
        # half of the cells are configured the Bitbucket way: robot and project leaders listed as
        # `name@account_id`, the host reporting account ids (the names of the cell); the gate must decide the same
        by_id = rng.random() < 0.5
        rname = ('n_%s' % robot) if by_id else robot        # comments address the robot by its user NAME
        tally.count('glue-identities:' + ('name@account_id' if by_id else 'plain-username'))
        data = dict(repository_owner='owner', repository_slug='slug', repository_host='mock',
                    robot=('n_%s@%s' % (robot, robot)) if by_id else robot,
                    robot_email='robot@example.com', required_peer_approvals=rp, required_leader_approvals=rl,
                    need_author_approval=need,
                    project_leaders=[('n_%s@%s' % (u, u)) if by_id else u for u in leaders], admins=['admin'],
                    pr_author_options={author: pao} if pao else {})
        sline = 'C04 settings %d %d %s' % (rp, rl, ulist(leaders))
        try:
            settings = SettingsSchema().load(dict(data))
            sreal = 'valid'
        except ValidationError as e:
            sreal = 'invalid' if set(e.messages) <= {'required_leader_approvals'} else 'invalid-other %s' % e.messages
            settings = None
        tally.evaluations += 1
        tally.count('glue-settings:' + sreal)
        if sreal == 'valid' and not (rl <= rp and rl <= len(leaders)):
            tally.failures.append({'key': 'settings-validation', 'what': 'settings accepted although leaders > peers '
                                   'or leaders > number of project leaders', 'input': cell_dict(cell),
                                   'observation': sreal})
        lines.append(sline)
        expected.append(sreal)
        cells.append(cell)
        if settings is None:
            continue
        setup({key: True for key, s in ((BA, sa), (BP, sp), (BL, sl)) if s == 'cmdline'})
        comments = []
        for key, s in ((BA, sa), (BP, sp), (BL, sl)):
            if s in ('comment', 'comment+author'):
                comments.append(SimpleNamespace(author='admin', text='@%s %s' % (rname, key)))
        if approve:
            comments.append(SimpleNamespace(author=author, text=rng.choice(('@%s approve' % rname, '/approve'))))
        if unanimity:
            comments.append(SimpleNamespace(author=rng.choice(('peer1', author, 'admin')),
                                            text='@%s unanimity' % rname))
        rng.shuffle(comments)
        job = PullRequestJob.__new__(PullRequestJob)
        job.settings = SettingsDict({}, settings)
        job.bert_e = SimpleNamespace(settings=settings)
        job.pull_request = StubPR(author, parts, apprs, crs, comments)
        job.git = SimpleNamespace(repo=None, cascade=None, src_branch=None, dst_branch=None)
        job.project_repo = None
        job.start_time = 0
        job.status = job.details = ''
        _RENDER['mode'] = 'cached'

        def both(j):
            handle_comments(j)
            check_approvals(j)
        obs, crs_obs, info = observe(job, both)
        setup({})
        tally.evaluations += 1
        tally.count('glue-check:' + obs)
        cl, waived, strict_differs = clauses(cell)
        if not waived:
            tally.nontrivial += 1
            tally.distinct.add(('glue',) + cell)
        bad = oracle(cell, obs, crs_obs, info)
        if bad:
            tally.failures.append({'key': bad[0], 'what': bad[1] + ' (through SettingsSchema.load and handle_comments)',
                                   'input': cell_dict(cell), 'observation': canon_real(obs, crs_obs)})
        lines.append(line_of(cell))
        expected.append(canon_real(obs, crs_obs))
        cells.append(cell)
    if exe is not None:
        for line, real, ans, cell in zip(lines, expected, ask(exe, lines), cells):
            tally.compared += 1
            if canon_model(ans) != real:
                tally.disagreements.append({'input': dict(cell_dict(cell), line=line), 'real': real, 'model': ans})
    return tally


def settings_grid(exe, res):
    """validate_inter_settings called directly on a grid, against the model's `settingsValid`."""
    from marshmallow import ValidationError
    from bert_e.settings import SettingsSchema
    schema = SettingsSchema()
    grid = []
    for rp in range(-1, 5):
        for rl in range(-1, 5):
            for leaders in ((), ('a',), ('a', 'b'), ('a', 'a'), ('a', 'b', 'c'), ('a', 'b', 'c', 'd')):
                grid.append((rp, rl, leaders))
    answers = ask(exe, ['C04 settings %d %d %s' % (rp, rl, ulist(l)) for rp, rl, l in grid])
    for (rp, rl, leaders), ans in zip(grid, answers):
        try:
            schema.validate_inter_settings({'required_peer_approvals': rp, 'required_leader_approvals': rl,
                                            'project_leaders': list(leaders)})
            real = 'valid'
        except ValidationError:
            real = 'invalid'
        res.evaluations += 1
        res.count('settings-grid:' + real)
        if real == 'valid' and not (rl <= rp and rl <= len(leaders)):
            res.oracle_failures.append({'key': 'settings-validation', 'what': 'settings accepted although leaders > '
                                        'peers or leaders > number of project leaders',
                                        'input': {'required_peer_approvals': rp, 'required_leader_approvals': rl,
                                                  'project_leaders': list(leaders)}, 'observation': real})
        if ans is not None:
            res.model_compared += 1
            if ans != real:
                res.disagreements.append({'input': {'settings': [rp, rl, list(leaders)]}, 'real': real, 'model': ans})


# --------------------------------------------------------------------------- entry points

def absorb(res, tally):
    res.evaluations += tally.evaluations
    res.model_compared += tally.compared
    res.distinct |= tally.distinct
    for k, v in tally.dist.items():
        res.count(k, v)
    res.disagreements += tally.disagreements
    res.oracle_failures += tally.failures
    res.samples = (res.samples + tally.samples)[:12]
    res.extra['nontrivial_cells'] = res.extra.get('nontrivial_cells', 0) + tally.nontrivial
    res.extra['strict_reading_differs_cells'] = res.extra.get('strict_reading_differs_cells', 0) + tally.strict_differs


def corpus_cells():
    out = []
    for path in sorted(glob.glob(os.path.join(common.CORPUS_DIR, PID, '*.json'))):
        with open(path) as fh:
            payload = json.load(fh)
        out.append((os.path.basename(path), cell_of(payload_input(payload))))
    return out


def payload_input(payload):
    return payload['failure']['input'] if 'failure' in payload else payload['input']


def correspondence(ctx):
    res = Result()
    exe = ctx.model.exe if (ctx.model and ctx.model.available()) else None
    scale = max(1, int(ctx.scale))

    # 1. corpus first
    for name, cell in corpus_cells():
        t = run_cells([cell], exe, Tally(), offset=0, keep_distinct_cells=True)
        t.samples = [{'corpus': name, 'input': cell_dict(cell)}]
        absorb(res, t)
        res.count('corpus')

    # 2. settings validation grid
    settings_grid(exe, res)

    # 2b. the per-author settings behind author_bypass (real schema field + real PullRequestJob.author_bypass)
    from . import authoropts
    authoropts.run(ctx, res, 4000 * scale if ctx.tier == 'quick' else 100000 * scale)

    # 3. enumeration
    if ctx.tier == 'thorough':
        universe, cr_universe, options_of = U5, U5, (lambda k: full_options())
        n_random, n_glue = 1000000 * scale, 40000 * scale
        res.rule = ('EXHAUSTIVE over the 5-user universe {author, peer1, peer2, leader, robot}: required peers 0-3 x '
                    'required leaders 0-2 x need_author_approval x project_leaders in {[], [leader], [author], '
                    '[leader, author]} x every subset of approvers x of participants x of change requesters x '
                    'every subset of {bypass_author (comment), bypass_peer (comment), bypass_leader (comment | '
                    'per-author | command line), approve, unanimity}; ')
    else:
        universe, cr_universe, options_of = U4, ('peer1', 'leader', 'robot'), quick_options
        n_random, n_glue = 600000 * scale, 6000 * scale
        res.rule = ('EXHAUSTIVE over the 4-user sub-universe {author, peer1, leader, robot}: required peers 0-3 x '
                    'required leaders 0-2 x need_author_approval x project_leaders in {[], [leader], [author], '
                    '[leader, author]} x every subset of approvers x of participants x every subset of the three '
                    'non-authors as change requesters x every subset of the five options (the source of each bypass — comment, per-author, command '
                    'line — rotates from block to block); ')
    res.rule += ('plus %d seeded random cells over the 5-user universe (+ strangers; duplicates and any order in the '
                 'lists; requirements -1..6; any leader set; every bypass from none / comment / command line / '
                 'per-author / other author / comment+per-author; author or robot sometimes another user); plus %d '
                 'random cells through the real SettingsSchema.load + Reactor + handle_comments; plus a grid on '
                 'validate_inter_settings. non-trivial = the early return is not taken; distinct = distinct '
                 '(configuration, set of failing clauses) for the exhaustive part, distinct cell otherwise'
                 % (n_random, n_glue))
    outers = list(outer_configs(options_of))
    per_task = 8 if ctx.tier == 'thorough' else 24
    tasks = [(universe, cr_universe, outers[k:k + per_task], exe, k) for k in range(0, len(outers), per_task)]
    rtasks = [(ctx.seed, k, 10000, exe) for k in range(n_random // 10000)]
    gtasks = [(ctx.seed, k, 500, exe) for k in range(n_glue // 500)]
    mp = multiprocessing.get_context('fork')
    with mp.Pool(common.NCPU) as pool:
        jobs = [pool.apply_async(task_glue, (t,)) for t in gtasks]
        jobs += [pool.apply_async(task_random, (t,)) for t in rtasks]
        jobs += [pool.apply_async(task_exhaustive, (t,)) for t in tasks]
        for j in jobs:
            absorb(res, j.get())
    res.exhaustive = True
    res.extra['exhaustive_cells'] = len(outers) * (2 ** len(universe)) ** 2 * 2 ** len(cr_universe)
    res.extra['random_cells'] = n_random
    res.extra['glue_cells'] = n_glue
    # end-to-end phase: the gate inside whole evaluations of the real system (composed model Model/Eval.lean)
    from . import evalsys
    evalsys.phase(ctx, res, PID)
    return res


def replay(ctx, payload):
    from . import evalsys
    if evalsys.is_mine(payload):
        return evalsys.replay(ctx, payload)
    res = Result()
    exe = ctx.model.exe if (ctx.model and ctx.model.available()) else None
    cell = cell_of(payload_input(payload))
    t = run_cells([cell], exe, Tally(), offset=0, keep_distinct_cells=True)
    t.samples = [{'input': cell_dict(cell)}]
    absorb(res, t)
    return res
