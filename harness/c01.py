"""C01 — forward-port inclusion of destination branches is an invariant: tie and oracle."""
from . import gittie, syscheck

PID = 'C01'
TABLES = []
LEAN_TARGETS = ['BertE.Props.C01', 'BertE.Props.Full']
ASSUMPTIONS = [
    'only the robot writes to destination branches (premise of GitWaterFlow); external actions of the histories '
    'touch source and integration branches, approvals, comments, build reports',
    "git's content merge is an oracle of the model (any outcome); ancestry consequences of merge and of a "
    'non-forced push are axioms of Model/Git validated by the real-git runs',
]
TRUSTED = [
    'Lean 4 kernel; axioms of every theorem audited (subset of propext, Classical.choice, Quot.sound)',
    'hand-written model lean/BertE/Model/Git.lean + Flow.lean, tied to the code by the differential run of '
    'every event of every history (refs, tip equality classes, ancestry matrix, job outcome)',
    'harness/gittie.py: the rules of Model/Git + Flow.applyOp exercised directly against bert_e/lib/git.py and '
    'git_utils (robust_merge, push) on real git: seeded scripts, every step compared',
    'harness/fullsys.py: the closed model Model/Full.lean (composition of Eval, Select, QValidate guards, Admin, Flow) '
    'predicts whole histories from webhook-level events; the guard of its queue evaluations is the modelled validate() '
    'alone (Select.Validated is a consequence of the invariant FullInv, proved preserved by every event: C01_full_step)',
    'harness/histories.py (history generator, translation of executed events into model events: the stage the '
    'gates allowed and the queue selection are read from the real run), harness/system.py (mock git host, real git)',
]


def oracle_inclusion(run, ev, kind, info, before, after, host_before, host_after):
    """If inclusion held before the event it holds after it."""
    if run.w.inclusion_breaks(before):
        return []
    bad = run.w.inclusion_breaks(after)
    if bad:
        return [{'key': 'inclusion', 'what': 'after %s: %s not included in %s' % (ev['op'], bad[0][0], bad[0][1]),
                 'observation': {'pairs': bad, 'status': (info or {}).get('status') if isinstance(info, dict) else None}}]
    return []


ORACLES = [oracle_inclusion]
RULE = ('seeded histories (8-18 events: open PR on any destination, source commit/amend/rebase, manual commit on an '
        'integration branch, approvals, comments incl. reset/force_reset/wait/no_octopus, build reports, PR and commit evaluations, '
        'rebuild/delete/force-merge queues, create/delete branch) over 8 cascade templates (1-4 destinations, '
        'stabilization, major-only, hotfix) x {queue, queue+skip, no queue} x octopus on/off x integration PRs on/off; '
        'every event compared with the model, inclusion oracle after every event; '
        'non-trivial = Bert-E queued, merged, created/deleted a branch, declined or reset in the history')


def correspondence(ctx):
    res = syscheck.run_histories(ctx, PID, 160, 4000, RULE)
    # the model's rules about git itself (merge = up to date / fast-forward / new commit, when the content merge is
    # consulted), against Bert-E's git layer on real git: harness/gittie.py
    gittie.run(ctx, res, (24 if ctx.tier == 'quick' else 600) * ctx.scale)
    # queue merges in ANY state of the q/ refs: the real QueueCollection.validate() + merge_queues on corrupted
    # queues against Model/QValidate.lean (C01_queue_validated): harness/qvalidate.py
    from . import qvalidate
    res.merge(qvalidate.phase(ctx, PID))
    # the CLOSED system (Model/Full.lean, C01_full_step / C01_full_run): histories in which nothing of what Bert-E did
    # is handed to the model - it predicts every job from the webhook-level events alone: harness/fullsys.py
    from . import fullsys
    fullsys.phase(ctx, res, PID)
    return res


def replay(ctx, payload):
    g = gittie.replay_input(payload)
    if g is not None:
        from .pipeline import Result
        return gittie.replay(ctx, Result(), g)
    from . import fullsys
    if fullsys.is_mine(payload):
        return fullsys.replay(ctx, payload)
    from . import qvalidate
    q = qvalidate.replay_input(payload)
    if q is not None:
        return qvalidate.replay(ctx, q)
    return syscheck.replay_history(ctx, PID, payload)
