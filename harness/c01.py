"""C01 — forward-port inclusion of destination branches is an invariant: tie and oracle."""
from . import syscheck

PID = 'C01'
TABLES = []
LEAN_TARGETS = ['BertE.Props.C01']
ASSUMPTIONS = [
    'only the robot writes to destination branches (premise of GitWaterFlow); external actions of the histories '
    'touch source and integration branches, approvals, comments, build reports',
    "git's content merge is an oracle of the model (any outcome); ancestry consequences of merge and of a "
    'non-forced push are axioms of Model/Git validated by the real-git runs',
]
TRUSTED = [
    'Lean 4 kernel; axioms of every theorem audited (subset of propext, Classical.choice, Quot.sound)',
    'hand-written model lean/BertE/Model/Git.lean + Flow.lean, tied to the code by the differential run of '
    'every event of every history (refs, tip equality classes, ancestry matrix, job outcome)',
    'harness/histories.py (history generator, translation of executed events into model events: the stage the '
    'gates allowed and the queue selection are read from the real run), harness/system.py (mock git host, real git)',
]


def oracle_inclusion(run, ev, kind, info, before, after, host_before, host_after):
    """If inclusion held before the event it holds after it."""
    if run.w.inclusion_breaks(before):
        return []
    bad = run.w.inclusion_breaks(after)
    if bad:
        return [{'key': 'inclusion', 'what': 'after %s: %s not included in %s' % (ev['op'], bad[0][0], bad[0][1]),
                 'observation': {'pairs': bad, 'status': (info or {}).get('status') if isinstance(info, dict) else None}}]
    return []


ORACLES = [oracle_inclusion]
RULE = ('seeded histories (8-18 events: open PR on any destination, source commit/amend/rebase, manual commit on an '
        'integration branch, approvals, comments incl. reset/force_reset/wait, build reports, PR and commit evaluations, '
        'rebuild/delete/force-merge queues, create/delete branch) over 8 cascade templates (1-4 destinations, '
        'stabilization, major-only, hotfix) x {queue, queue+skip, no queue} x octopus on/off x integration PRs on/off; '
        'every event compared with the model, inclusion oracle after every event; '
        'non-trivial = Bert-E queued, merged, created/deleted a branch, declined or reset in the history')


def correspondence(ctx):
    return syscheck.run_histories(ctx, PID, 160, 4000, RULE)


def replay(ctx, payload):
    return syscheck.replay_history(ctx, PID, payload)
