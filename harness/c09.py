"""C09 — tie between the Lean model of the branch cascade (lean/BertE/Model/Cascade.lean) and the
real `BranchCascade` (bert_e/workflow/gitwaterflow/branches.py).

Real side: real branch objects (`branch_factory(None, name)`, as the upstream QuickTest does) and tag
strings through  add_branch* -> update_versions* -> _update_major_versions -> finalize -> validate,
with `bert_e.lib.git.Branch.includes_commit` stubbed true (ancestry belongs to C01).
Observation: dst_branches, ignored_branches, target_versions, merge paths (names) or the exception class.
Model side: the same branch names, raw tag strings (the model has its own parser of the tag regex)
and destination through the compiled driver.
Oracle: an independent statement of the property text (DESIGN.md A.1) on the real observation.
"""
import itertools
import json
import multiprocessing
import os
import re

from . import common
from .pipeline import Result

PID = 'C09'
TABLES = ['Cascade']
LEAN_TARGETS = ['BertE.Props.C09']
ASSUMPTIONS = [
    'branch names are those `branch_factory` classifies as development/x[.y], stabilization/x.y.z or hotfix/x.y.z '
    '(classification of arbitrary names is C18); two distinct names denote two distinct versions (no leading zeros)',
    'tags are ASCII strings without newline (the output of `git tag` split on newlines)',
    'the ancestry checks of `validate` (`includes_commit`) answer true; histories where they do not belong to C01',
    'the destination is one of the branches of the repository',
]
TRUSTED = [
    'Lean 4 kernel; axioms of every theorem audited (subset of propext, Classical.choice, Quot.sound)',
    'harness/tables/cascade.py (introspection of the class defaults micro/hfrev/latest_minor/has_stabilization/'
    'can_be_destination; AST extraction of the tag pattern and of the two offsets of _set_target_versions)',
    'correspondence harness harness/c09.py (real BranchCascade on real branch objects, includes_commit stubbed true)',
    'the parser of branch names in lean/BertE/Drv/C09.lean (glue of the line protocol, exercised by every comparison)',
]

# --------------------------------------------------------------------------- universe

MAJORS = (4, 5, 10)
MINORS = (0, 1, None)
STAB_MICROS = (0, 1, 2, 3)
HF_MICROS = (0, 1, 2)


def universe(majors=MAJORS, minors=MINORS, stab_micros=STAB_MICROS, hf_micros=HF_MICROS):
    names = []
    for M in majors:
        for m in minors:
            if m is None:
                names.append('development/%d' % M)
                continue
            names.append('development/%d.%d' % (M, m))
            for u in stab_micros:
                names.append('stabilization/%d.%d.%d' % (M, m, u))
            for u in hf_micros:
                names.append('hotfix/%d.%d.%d' % (M, m, u))
    return names


def tag_universe(majors=MAJORS, minors=(0, 1, 2), micros=(0, 1, 2, 3), extra_major=(6,)):
    tags = []
    for M in tuple(majors) + tuple(extra_major):
        for m in minors:
            for u in micros:
                v = '%d.%d.%d' % (M, m, u)
                tags += [v, 'v' + v, v + '_rc1', v + '-beta', v + '.1', v + '.2', 'v' + v + '.3',
                         v + '.1_rc1']
    return tags


# --------------------------------------------------------------------------- real side

_PATCHED = False


def _patch():
    global _PATCHED
    if not _PATCHED:
        import bert_e.lib.git as git
        git.Branch.includes_commit = lambda self, commit: True     # ancestry: C01
        _PATCHED = True


def show_ok(dst, ign, tv, mp):
    return 'ok dst=%s;ign=%s;tv=%s;mp=%s' % (
        ','.join(dst), ','.join(ign), ','.join(tv), '|'.join('>'.join(p) for p in mp))


def run_real(names, tags, dst_name):
    """The observation of the real class, canonical text."""
    _patch()
    import bert_e.exceptions as exc
    from bert_e.workflow.gitwaterflow import branches as gwfb
    c = gwfb.BranchCascade()
    try:
        dst = gwfb.branch_factory(None, dst_name)
        for n in names:
            c.add_branch(gwfb.branch_factory(None, n), dst)
        for t in tags:
            c.update_versions(t)
        c._update_major_versions()
        c.finalize(dst)
        c.validate()
    except exc.BertE_Exception as e:
        return 'err %s' % type(e).__name__
    except Exception as e:          # AttributeError: 'NoneType' object has no attribute 'has_stabilization'
        return 'crash %s' % type(e).__name__
    return show_ok([b.name for b in c.dst_branches], list(c.ignored_branches),
                   list(c.target_versions), [[b.name for b in p] for p in c.get_merge_paths()])


def parse_obs(obs):
    if not obs.startswith('ok '):
        return None
    d = {}
    for part in obs[3:].split(';'):
        k, _, v = part.partition('=')
        d[k] = v
    sp = lambda s: s.split(',') if s else []
    return {'dst': sp(d['dst']), 'ign': sp(d['ign']), 'tv': sp(d['tv']),
            'mp': [p.split('>') if p else [] for p in d['mp'].split('|')]}


# --------------------------------------------------------------------------- the property (independent statement)

_BR = re.compile(r'^(development|stabilization|hotfix)/(\d+)(?:\.(\d+))?(?:\.(\d+))?$')
_TAG = re.compile(r'^v?(\d+)\.(\d+)\.(\d+)(?:\.(\d+))?$')


def _branch(name):
    m = _BR.match(name)
    kind, M, mi, u = m.group(1), int(m.group(2)), m.group(3), m.group(4)
    return kind, M, (None if mi is None else int(mi)), (None if u is None else int(u))


def _keyrank(key):
    M, m = key
    return (M, 1, 0) if m is None else (M, 0, m)      # development/x after every development/x.*


def expected(names, tags, dst_name):
    """What the property text demands: ('reject', why) or ('ok', dst_branches, target_versions)."""
    brs = [_branch(n) for n in names]
    dk, dM, dm, du = _branch(dst_name)
    rel = []
    for t in tags:
        m = _TAG.match(t)
        if m and '\n' not in t:
            rel.append((int(m.group(1)), int(m.group(2)), int(m.group(3)),
                        None if m.group(4) is None else int(m.group(4))))
    devs = {(M, m) for k, M, m, u in brs if k == 'development'}
    stabs = [(M, m, u) for k, M, m, u in brs if k == 'stabilization']
    # ill-formed cascades are rejected
    if len({(M, m) for M, m, u in stabs}) < len(stabs):
        return ('reject', 'two stabilization branches for one version')
    for M, m, u in stabs:
        if any((tM, tm) == (M, m) and tu >= u for tM, tm, tu, th in rel):
            return ('reject', 'stabilization branch whose release tag exists')
        if dk == 'hotfix' and (dM, dm, du) == (M, m, u) and any((tM, tm) == (M, m) for tM, tm, tu, th in rel):
            return ('reject', 'stabilization branch of the version the destination hotfix branch maintains')
    if any((M, m) not in devs for M, m, u in stabs):
        return ('reject', 'stabilization branch without its development branch')
    released = lambda M, m: max([tu for tM, tm, tu, th in rel if (tM, tm) == (M, m)] + [-1])
    if dk == 'stabilization' and du != released(dM, dm) + 1:
        return ('reject', 'targeted stabilization branch is not the next patch of its line')
    # accepted
    if dk == 'hotfix':
        revs = [(th or 0) for tM, tm, tu, th in rel if (tM, tm, tu) == (dM, dm, du)]
        return ('ok', [dst_name], ['%d.%d.%d.%d' % (dM, dm, du, max(revs) + 1 if revs else -1)])
    dkey = (dM, dm)
    line = sorted([k for k in devs if _keyrank(k) >= _keyrank(dkey)], key=_keyrank)
    dst = ([dst_name] if dk == 'stabilization' else []) + [
        'development/%d' % M if m is None else 'development/%d.%d' % (M, m) for M, m in line]
    versions = []
    for M, m in line:
        if dk == 'stabilization' and (M, m) == dkey:
            versions.append('%d.%d.%d' % (M, m, du))            # the targeted stabilization: its own version
        elif m is not None:
            held = 1 if any((sM, sm) == (M, m) for sM, sm, su in stabs) else 0
            versions.append('%d.%d.%d' % (M, m, released(M, m) + 1 + held))
        else:
            minors = [km for kM, km in devs if kM == M and km is not None]
            minors += [sm for sM, sm, su in stabs if sM == M]
            minors += [tm for tM, tm, tu, th in rel if tM == M]
            versions.append('%d.%d.0' % (M, max(minors + [-1]) + 1))
    return ('ok', dst, versions)


def shape_violation(names, dst_name, dst):
    """The order-free shape clause (what C09_dst_shape states), checked directly on the observed list."""
    dk, dM, dm, du = _branch(dst_name)
    if not dst or dst[0] != dst_name:
        return 'the destination is not first'
    if dk == 'hotfix':
        return None if dst == [dst_name] else 'a hotfix destination is not alone'
    rest = [_branch(n) for n in dst[1:]]
    if any(k != 'development' for k, M, m, u in rest):
        return 'another stabilization or hotfix branch is targeted'
    keys = [_keyrank((M, m)) for k, M, m, u in ([_branch(dst_name)] if dk == 'development' else []) + rest]
    if any(a >= b for a, b in zip(keys, keys[1:])):
        return 'development branches not in strictly increasing order'
    want = {n for n in names if _branch(n)[0] == 'development'
            and _keyrank(_branch(n)[1:3]) >= _keyrank((dM, dm))}
    if want != set(dst) - ({dst_name} if dk == 'stabilization' else set()):
        return 'not exactly the development branches of greater or equal version'
    return None


def oracle(names, tags, dst_name, obs):
    """None, or (key, reason) when the real observation contradicts the property."""
    exp = expected(names, tags, dst_name)
    got = parse_obs(obs)
    if exp[0] == 'reject':
        if got is not None:
            return 'accepted-ill-formed', 'ill-formed cascade (%s) accepted' % exp[1]
        return None
    if got is None:
        return 'rejected-well-formed', 'well-formed cascade rejected: %s' % obs
    why = shape_violation(names, dst_name, got['dst'])
    if why:
        return 'dst-shape', why
    if got['dst'] != exp[1]:
        return 'dst', 'merged into %s, expected %s' % (got['dst'], exp[1])
    if got['tv'] != exp[2]:
        return 'fix-versions', 'fix versions %s, expected %s' % (got['tv'], exp[2])
    return None


# --------------------------------------------------------------------------- generators

def gen_uniform(rng, names, tagu):
    """Uniform over the property's universe: each branch kept with a per-case, per-kind probability."""
    pk = {'development': rng.choice((0.2, 0.5, 0.8)), 'stabilization': rng.choice((0.02, 0.06, 0.15)),
          'hotfix': rng.choice((0.03, 0.1, 0.3))}
    bs = [n for n in names if rng.random() < pk[n.split('/')[0]]]
    if not bs:
        bs = [rng.choice(names)]
    rng.shuffle(bs)
    tags = [rng.choice(tagu) for _ in range(rng.choice((0, 0, 1, 2, 3, 5, 8)))]
    return bs, tags


def gen_wellformed(rng):
    """Biased to repositories in good shape: every line has its development branch, stabilization
    branches are the next patch, hotfix branches maintain released versions."""
    bs, tags = [], []
    for M in MAJORS:
        if rng.random() < 0.25:
            continue
        minors = [m for m in (0, 1, 2, 3) if rng.random() < 0.5]
        for m in minors:
            r = rng.choice((-1, -1, 0, 1, 2, 4))
            bs.append('development/%d.%d' % (M, m))
            for u in range(r + 1):
                if rng.random() < 0.8:
                    tags.append(rng.choice(('', 'v')) + '%d.%d.%d' % (M, m, u))
                if rng.random() < 0.2:
                    tags.append('%d.%d.%d_rc%d' % (M, m, u, rng.randint(1, 3)))
                if rng.random() < 0.25:
                    bs.append('hotfix/%d.%d.%d' % (M, m, u))
                    for n in range(1, rng.choice((0, 1, 1, 3)) + 1):
                        tags.append('%d.%d.%d.%d' % (M, m, u, n))
            if r >= 0 and ('%d.%d.%d' % (M, m, r)) not in tags and ('v%d.%d.%d' % (M, m, r)) not in tags:
                tags.append('%d.%d.%d' % (M, m, r))
            if rng.random() < 0.4:
                bs.append('stabilization/%d.%d.%d' % (M, m, r + 1))
                if rng.random() < 0.5:
                    tags.append('%d.%d.%d_rc1' % (M, m, r + 1))
        if rng.random() < 0.5:
            bs.append('development/%d' % M)
            if rng.random() < 0.3:
                tags.append('%d.%d.0' % (M, rng.randint(0, 5)))
    if not bs:
        bs = ['development/4.0']
    rng.shuffle(bs)
    rng.shuffle(tags)
    return bs, tags


REDUCED_BRANCHES = ['development/4.0', 'development/4', 'stabilization/4.0.1', 'stabilization/4.0.2',
                    'hotfix/4.0.0', 'hotfix/4.0.1',
                    'development/10.0', 'development/10', 'stabilization/10.0.0', 'hotfix/10.0.0']
REDUCED_TAGS = ['4.0.0', 'v4.0.1', '4.0.1.2', '4.0.1_rc1', '4.1.0', '10.0.0.1']


def reduced_cases():
    """Every subset of the reduced universe (two majors) x every subset of the reduced tags."""
    cases = []
    for k in range(1, len(REDUCED_BRANCHES) + 1):
        for bs in itertools.combinations(REDUCED_BRANCHES, k):
            for j in range(len(REDUCED_TAGS) + 1):
                for tg in itertools.combinations(REDUCED_TAGS, j):
                    cases.append((bs, tg))
    return cases


TAG_PROBES = ['4.0.1', 'v4.0.1', 'vv4.0.1', 'V4.0.1', '4.0', '4.0.', '4.0.1.', '4.0.1.2', '4.0.1.2.3', 'v4.0.1.2',
              '04.00.01', '4..1', '.4.0.1', '4.0.1v', '4.0.1_rc1', '4.0.1-rc1', 'v', '', '4', '4.0.1.x', 'x4.0.1',
              '4.0.1.02', '10.20.30.40', '4.0.1+', '4,0,1', '4.0.-1', '1234567890.0.0', '4.0.1.', 'v.4.0.1']


# --------------------------------------------------------------------------- batches (run in forked workers)

_CTX = {}


def line_of(bs, tags, dst, spec=False):
    return 'C09 %s%s %s %s' % ('spec ' if spec else '', ','.join(bs), ','.join(tags) if tags else '-', dst)


def _cases_of(task):
    kind, seed, idx, n = task
    if kind == 'reduced':
        allc = _CTX['reduced']
        rng = common.rng_for(seed, 'c09', 'reduced', idx)
        for bs, tg in allc[idx::n]:
            bs, tg = list(bs), list(tg)
            rng.shuffle(bs)
            rng.shuffle(tg)
            yield 'reduced', bs, tg
        return
    rng = common.rng_for(seed, 'c09', kind, idx)
    names, tagu = _CTX['names'], _CTX['tagu']
    made = 0
    while made < n:
        if kind == 'uniform':
            bs, tags = gen_uniform(rng, names, tagu)
        else:
            bs, tags = gen_wellformed(rng)
        made += len(bs)
        yield kind, bs, tags


def _batch(task):
    """Generate, run the real class with every branch as destination, ask the model, compare, judge."""
    out = {'n': 0, 'dist': {}, 'dis': [], 'fail': [], 'samples': [], 'hashes': [], 'compared': 0}
    dist = out['dist']

    def count(k, n=1):
        dist[k] = dist.get(k, 0) + n

    cases, lines, obs_l = [], [], []
    for kind, bs, tags in _cases_of(task):
        for dst in bs:
            obs = run_real(bs, tags, dst)
            cases.append((kind, bs, tags, dst))
            obs_l.append(obs)
            lines.append(line_of(bs, tags, dst))
    model = _CTX.get('model')
    answers = model.ask(lines) if model else [None] * len(lines)
    # the declarative specification evaluated by the driver (redundant with theorem C09 while it is proved)
    sanswers = model.ask([line_of(bs, tags, dst, spec=True) for _, bs, tags, dst in cases]) if model \
        else [None] * len(lines)
    for (kind, bs, tags, dst), obs, ans, sans in zip(cases, obs_l, answers, sanswers):
        out['n'] += 1
        count('gen:' + kind)
        got = parse_obs(obs)
        if got is None:
            count('outcome:' + obs)
        else:
            count('outcome:ok')
            count('targets=%d' % len(got['dst']))
            count('dst-kind:' + dst.split('/')[0])
            count('valid:' + kind)
        count('branches=%d' % min(len(bs), 12))
        out['hashes'].append(hash((frozenset(bs), frozenset(tags), dst)) & 0xFFFFFFFFFFFF)
        why = oracle(bs, tags, dst, obs)
        if why and len(out['fail']) < 5:
            out['fail'].append({'key': why[0], 'what': why[1],
                                'input': {'branches': bs, 'tags': tags, 'dst': dst}, 'observation': obs})
        elif why:
            count('oracle-failures-not-listed')
        if ans is not None:
            out['compared'] += 1
            if ans != obs and len(out['dis']) < 5:
                out['dis'].append({'input': {'branches': bs, 'tags': tags, 'dst': dst}, 'real': obs, 'model': ans})
            elif ans != obs:
                count('disagreements-not-listed')
            if sans != obs and len(out['dis']) < 5:
                out['dis'].append({'input': {'branches': bs, 'tags': tags, 'dst': dst}, 'real': obs,
                                   'model': 'Spec.result: %s' % sans})
            elif sans != obs:
                count('disagreements-not-listed')
        if got is not None and len(out['samples']) < 1 and len(got['dst']) >= 3:
            out['samples'].append({'branches': bs, 'tags': tags, 'dst': dst, 'real': obs, 'model': ans})
    return out


def _run_tasks(tasks, res):
    if common.NCPU > 1 and len(tasks) > 1:
        ctx = multiprocessing.get_context('fork')
        with ctx.Pool(min(common.NCPU, len(tasks))) as pool:
            outs = pool.map(_batch, tasks, chunksize=1)
    else:
        outs = [_batch(t) for t in tasks]
    for o in outs:
        res.evaluations += o['n']
        res.model_compared += o['compared']
        for k, v in o['dist'].items():
            res.count(k, v)
        res.disagreements += o['dis']
        res.oracle_failures += o['fail']
        if len(res.samples) < 8:
            res.samples += o['samples']
        if len(res.distinct) < 3000000:
            res.distinct.update(o['hashes'])


def _tag_parse_check(ctx, res):
    """The model's parser of `update_versions`' pattern against the real regex, tag by tag: a tag is
    read iff it moves the next patch of development/<its line> (and hotfix tags the hotfix revision)."""
    if not ctx.model:
        return
    from bert_e.workflow.gitwaterflow import branches as gwfb
    rng = common.rng_for(ctx.seed, 'c09', 'tags')
    probes = list(TAG_PROBES)
    alphabet = '0123456789..v_-x'
    for _ in range(int(400 * ctx.scale)):
        probes.append(''.join(rng.choice(alphabet) for _ in range(rng.randint(1, 9))))
        t = rng.choice(('', 'v')) + '.'.join(str(rng.choice((0, 1, 7, 10, 123))) for _ in range(rng.choice((3, 3, 4, 4, 2, 5))))
        probes.append(t)
        k = rng.randint(0, len(t))
        probes.append(t[:k] + rng.choice(alphabet) + t[k:])          # one character inserted
        probes.append(t[:k] + t[k + 1:])                             # one character deleted
    probes = [p for p in probes if ' ' not in p and ',' not in p and p != '-' and p]
    lines = ['C09 parse %s' % p for p in probes]
    answers = ctx.model.ask(lines)
    for p, ans in zip(probes, answers):
        # what the real method reads: run it on a cascade that holds the line the tag would belong to
        # (first three numbers of the text) and look at what it did to the branch objects
        nums = re.findall(r'[0-9]+', p)
        real = 'none'
        if len(nums) >= 3:
            M, mi, u = int(nums[0]), int(nums[1]), int(nums[2])
            c = gwfb.BranchCascade()
            dev = gwfb.branch_factory(None, 'development/%d.%d' % (M, mi))
            hf = gwfb.branch_factory(None, 'hotfix/%d.%d.%d' % (M, mi, u))
            c.add_branch(dev, hf)
            c.add_branch(hf, hf)
            c.update_versions(p)
            if dev.micro != -1:
                real = '%d.%d.%d.%d' % (M, mi, dev.micro, hf.hfrev - 1)
        res.evaluations += 1
        res.model_compared += 1
        res.count('tag-parse:' + ('read' if real != 'none' else 'ignored'))
        if ans != real:
            res.disagreements.append({'input': {'tag': p}, 'real': real, 'model': ans})


def sizes(ctx):
    if ctx.tier == 'thorough':
        return {'uniform': int(5000000 * ctx.scale), 'wellformed': int(5000000 * ctx.scale)}
    return {'uniform': int(180000 * ctx.scale), 'wellformed': int(180000 * ctx.scale)}


def correspondence(ctx):
    res = Result()
    res.rule = ('real BranchCascade vs model, every branch of the set as destination, shuffled discovery order: '
                '(a) every subset of a reduced universe of %d branches over two majors x every subset of %d tags; '
                '(b) random subsets of the full universe (majors 4,5,10; minors 0,1,none; stabilization micros 0-3; '
                'hotfix micros 0-2; tags released / v-prefixed / suffixed / x.y.z.n, also of lines without branch); '
                '(c) random repositories biased to good shape; (d) the tag parser against the real regex. '
                'distinct = distinct (branch set, tag set, destination)' % (len(REDUCED_BRANCHES), len(REDUCED_TAGS)))
    res.exhaustive = False
    _CTX['model'] = ctx.model
    _CTX['names'] = universe()
    _CTX['tagu'] = tag_universe()
    _CTX['reduced'] = reduced_cases()
    # corpus first
    cdir = os.path.join(common.CORPUS_DIR, PID)
    if os.path.isdir(cdir):
        for f in sorted(os.listdir(cdir)):
            if f.endswith('.json'):
                with open(os.path.join(cdir, f)) as fh:
                    _replay_case(ctx, json.load(fh), res, corpus=f)
    _tag_parse_check(ctx, res)
    tasks = []
    nred = 4 * common.NCPU
    tasks += [('reduced', ctx.seed, i, nred) for i in range(nred)]
    per = 6000
    for kind, total in sizes(ctx).items():
        nb = max(1, total // per)
        tasks += [(kind, ctx.seed, i, per) for i in range(nb)]
    _run_tasks(tasks, res)
    ok = res.distribution.get('outcome:ok', 0)
    for kind in ('uniform', 'wellformed', 'reduced'):
        g = res.distribution.get('gen:' + kind, 0)
        if g:
            res.extra['valid_fraction_' + kind] = round(res.distribution.get('valid:' + kind, 0) / g, 4)
    res.extra['reduced_universe_exhausted'] = True
    if len(res.distinct) >= 3000000:
        res.extra['distinct_counted_up_to'] = 3000000       # memory bound of the set of fingerprints
    res.extra['valid_cascades'] = ok
    return res


def _replay_case(ctx, case, res, corpus=None):
    bs, tags, dst = case['branches'], case['tags'], case['dst']
    obs = run_real(bs, tags, dst)
    res.evaluations += 1
    res.count('corpus' if corpus else 'replay')
    why = oracle(bs, tags, dst, obs)
    if why:
        res.oracle_failures.append({'key': why[0], 'what': why[1], 'input': case, 'observation': obs})
    ans = None
    if ctx.model:
        ans = ctx.model.ask([line_of(bs, tags, dst)])[0]
        res.model_compared += 1
        if ans != obs:
            res.disagreements.append({'input': case, 'real': obs, 'model': ans})
    if 'expect' in case and case['expect'] != obs:
        res.disagreements.append({'input': case, 'real': obs, 'model': 'corpus expects ' + case['expect']})
    res.samples.append({'input': case, 'real': obs, 'model': ans})


def replay(ctx, payload):
    res = Result()
    f = payload['failure']['input'] if 'failure' in payload else payload
    _replay_case(ctx, f, res)
    return res
