"""Instrumentation of the real Bert-E for C10 (one process = one recorder).

Wraps, without changing behaviour:
  * `pr_utils._send_bot_status` / `pr_utils._send_comment` (both are looked up in the module globals by
    `notify_user`): every notification is recorded with the comment list before it, the message class,
    `dont_repeat_if_in_history`, the `no_comment` setting and what happened (posted / already exists / muted);
  * `gitwaterflow.handle_comments` and `Reactor.handle_commands`: which comment the command pass is looking at
    (the k-th call of `handle_commands` inside one `handle_comments` is the k-th comment of the reversed list);
  * every registered command handler: an execution is recorded with the id of the comment that triggered it
    (only when the handler's signature accepts the arguments, i.e. when its body really runs).
Also: a snapshot of the option defaults of the Reactor registry as they are after import, so that a *restarted
server* (a new process: modules imported afresh) can be emulated in-process by `restore_registry()`.
"""
import copy
import inspect

REC = None
_INSTALLED = False
_DEFAULTS = None


class Recorder:
    def __init__(self):
        self.sends = []        # dict(pr, cls, msg, norepeat, no_comment, before=[(author, text)], outcome, comment_id)
        self.execs = []        # dict(pr, comment_id, key, args)
        self.passes = []       # dict(pr, robot, admins, pr_author, comments=[(author, text)], executed=(k, key)|None, error)
        self.cls_of = {}       # comment id -> message class (robot comments posted through notify_user)
        self.trigger_of = {}   # comment id of an answer -> comment id of the command that caused it
        self.cur_cls = None
        self.hc = None
        self.cur_trigger = None
        self.clock = 0         # position in the history (set by the executor)
        self.when = {}         # comment id -> clock at which it was posted


def install():
    global _INSTALLED, _DEFAULTS
    if _INSTALLED:
        return
    import bert_e.workflow.pr_utils as pu
    import bert_e.workflow.gitwaterflow as gwf
    import bert_e.git_host.mock as mock
    from bert_e import exceptions as exc
    from bert_e.reactor import Reactor, Command

    orig_status, orig_send = pu._send_bot_status, pu._send_comment

    def send_bot_status(settings, pull_request, comment):
        if REC is not None:
            REC.cur_cls = type(comment).__name__
        return orig_status(settings, pull_request, comment)

    def send_comment(settings, pull_request, msg, dont_repeat_if_in_history=10):
        rec = REC
        if rec is None:
            return orig_send(settings, pull_request, msg, dont_repeat_if_in_history)
        before = [(c.author, c.text) for c in pull_request.comments]
        n0 = len(mock.Comment.items)
        entry = {'pr': pull_request.id, 'cls': rec.cur_cls, 'msg': msg, 'norepeat': dont_repeat_if_in_history,
                 'no_comment': bool(settings.no_comment), 'robot': str(settings.robot), 'before': before,
                 'comment_id': None, 'clock': rec.clock}
        rec.cur_cls = None
        try:
            orig_send(settings, pull_request, msg, dont_repeat_if_in_history)
        except exc.CommentAlreadyExists:
            entry['outcome'] = 'exists'
            rec.sends.append(entry)
            raise
        except Exception as e:
            entry['outcome'] = 'crash ' + type(e).__name__
            rec.sends.append(entry)
            raise
        if len(mock.Comment.items) > n0:
            entry['outcome'] = 'posted'
            cid = mock.Comment.items[-1].id
            entry['comment_id'] = cid
            rec.cls_of[cid] = entry['cls']
            rec.when[cid] = rec.clock
            if rec.cur_trigger is not None:
                rec.trigger_of[cid] = rec.cur_trigger
        else:
            entry['outcome'] = 'muted'
        rec.sends.append(entry)

    pu._send_bot_status = send_bot_status
    pu._send_comment = send_comment

    orig_hc = gwf.handle_comments

    def handle_comments(job):
        rec = REC
        if rec is None:
            return orig_hc(job)
        cs = list(job.pull_request.comments)
        rec.hc = {'rev': list(reversed(cs)), 'k': 0}
        rec.cur_trigger = None
        entry = {'pr': job.pull_request.id, 'robot': str(job.settings.robot), 'admins': [str(a) for a in job.settings.admins],
                 'pr_author': str(job.pull_request.author), 'comments': [(c.author, c.text) for c in cs],
                 'executed': None, 'error': None}
        rec.passes.append(entry)
        n_exec = len(rec.execs)
        try:
            return orig_hc(job)
        except BaseException as e:
            entry['error'] = type(e).__name__
            raise
        finally:
            if len(rec.execs) > n_exec:
                x = rec.execs[n_exec]
                entry['executed'] = (x['k'], x['key'])
            rec.hc = None

    gwf.handle_comments = handle_comments

    orig_cmds = Reactor.handle_commands

    def handle_commands(self, job, text, prefix, privileged=False):
        rec = REC
        if rec is not None and rec.hc is not None:
            hc = rec.hc
            hc['k'] += 1
            c = hc['rev'][hc['k'] - 1] if hc['k'] <= len(hc['rev']) else None
            hc['cur'] = c if (c is not None and c.text == text) else None
        return orig_cmds(self, job, text, prefix, privileged)

    Reactor.handle_commands = handle_commands

    def wrap(key, handler):
        sig = inspect.signature(handler)

        def wrapped(job, *args):
            rec = REC
            if rec is not None:
                try:
                    sig.bind(job, *args)
                    runs = True
                except TypeError:
                    runs = False
                if runs:
                    cur = (rec.hc or {}).get('cur')
                    cid = cur.id if cur is not None else None
                    pr = getattr(getattr(job, 'pull_request', None), 'id', None)
                    rec.execs.append({'pr': pr, 'comment_id': cid, 'key': key, 'args': list(args),
                                      'k': (rec.hc or {}).get('k'), 'clock': rec.clock})
                    rec.cur_trigger = cid
            return handler(job, *args)
        wrapped.__wrapped_by_c10__ = True
        wrapped.__wrapped__ = handler
        wrapped.__name__ = getattr(handler, '__name__', key)
        wrapped.__doc__ = handler.__doc__
        wrapped.__signature__ = sig
        return wrapped

    for key, cmd in list(Reactor.get_commands().items()):
        if not getattr(cmd.handler, '__wrapped_by_c10__', False):
            Reactor.set_callback(key, Command(wrap(key, cmd.handler), cmd.help, cmd.privileged, cmd.authored))

    _DEFAULTS = {key: copy.deepcopy(opt.default) for key, opt in Reactor.get_options().items()}
    _INSTALLED = True


def restore_registry():
    """Module state of a newly started process: the option defaults as they were right after import."""
    from bert_e.reactor import Reactor
    for key, opt in list(Reactor.get_options().items()):
        if key in _DEFAULTS:
            Reactor.set_callback(key, opt._replace(default=copy.deepcopy(_DEFAULTS[key])))


def start():
    global REC
    install()
    REC = Recorder()
    return REC


def stop():
    global REC
    REC = None
