"""C20 — admin jobs keep the repository well-formed or do nothing: tie and oracle.

Real side: the real `BertE` (mock git host, real git) is brought by a seeded history to a repository state
(0-3 queued pull requests, hotfix queues included; queues on and off); on that state every admin job of a
job list is run through `BertE.put_job` / `process_task`: create_branch (names older than / between / newer
than / equal to the existing ones, major-only, stabilization with right and wrong micro, with and without its
development branch, hotfix with and without its base tag, archived names, other GitWaterFlow names, names
outside the grammar) x branch_from (absent, a branch, a commit inside / outside the latest development branch,
something git cannot resolve), delete_branch (every destination, absent and non-destination names),
rebuild_queues, delete_queues, force_merge_queues, and create -> delete -> create scenarios.
A second family of states (`gen_resume_state`) has the archive tag of a destination branch already on its tip -
left there by a delete_branch job that really died between the push of the tag and the removal of the branch (the
crash injector of harness/c02_faults.py) or put there by hand - combined with what happened since: a pull request
queued on that branch, a stabilization branch created for that development branch, or nothing; for development,
stabilization and hotfix branches, queues on and off. The re-submitted delete_branch is run on them.
Observed per job: status, details, the `git push` commands in order, refs and tags before/after, the
pull-request jobs the job left on the task queue. After a job that changed the remote, the refs and tags of
the bare repository are put back (the commit objects stay), so that every job sees the reached state.

Model side: the state (raw branch names in ls-remote order, tags, the ancestry among the commits that carry
a name) and the job, one line per job, through the compiled driver (`C20 ...`, lean/BertE/Drv/C20.lean).

Oracle: an independent Python statement of the property text on the real observation (see `oracle`).

A refusal block (harness/c20_refuse.py) runs rebuild_queues, delete_queues and create_branch (nested rebuild) on states
with 2-3 queued pull requests while the git server refuses exactly ONE ref of the job's pushes, once (first attempt)
and always - every ref in turn; a job that does not answer JobSuccess must have changed nothing and re-submitted
nothing (keys `push-refused/...`). No model line: the model assumes a remote that accepts (ASSUMPTIONS).
"""
import json
import os
import re
from multiprocessing import Pool

from . import common
from .pipeline import Result

PID = 'C20'
TABLES = ['Cascade', 'Names', 'Admin']
LEAN_TARGETS = ['BertE.Props.C20']
ASSUMPTIONS = [
    'branch names are in canonical decimal form (no leading zeros); the textual grammar (branch_factory) is the C18 '
    'model, applied by the driver to the raw names',
    'all queue branches of one hotfix line carry the same revision (q/x.y.z.N is represented by its line x.y.z); '
    'no branch under q/ is outside the two queue patterns',
    'the queue-integration branches of one version are totally ordered by inclusion with distinct tips (what '
    'add_to_queue establishes and QueueCollection.validate checks); the model sorts them by inclusion',
    'the remote accepts the operations of the job (a refused push is the subject of C02/C08); the decision is '
    'taken on the clone made at the start of the job',
    'the uniqueness of names in the ref map and well-formedness of the commit graph (ancestry reflexive and '
    'transitive) are hypotheses of the theorems; the graphs exported from real git satisfy them',
]
TRUSTED = [
    'Lean 4 kernel; axioms of every theorem audited (subset of propext, Classical.choice, Quot.sound)',
    'hand-written model lean/BertE/Model/Admin.lean (decision functions following the five job handlers, '
    'QueueCollection.queued_prs / has_version_queued_prs, BranchCascade.build without destination + validate through '
    'the C09 model), tied to the code by the differential run of every job',
    'lean/BertE/Drv/C20.lean (line protocol; classification of raw names by the C18 model)',
    'harness/c20.py (state export: refs, tags, ancestry from real git; push tracing by wrapping bert_e.lib.git.cmd; '
    'restoration of refs between jobs), harness/system.py, harness/histories.py (state-reaching histories), '
    'harness/c02_faults.py (the crash injector that kills a delete_branch job between the push of the archive tag and '
    'the removal of the branch)',
    'harness/c20_refuse.py (an `update` hook in the scratch bare repository that refuses one ref name, once or always)',
]

RULE = ('repository states reached by seeded histories (8 cascade templates of C01 + base tag 4.2.17.0, a hotfix branch '
        'added to 30%; queue / queue+skip / no queue; 0-3 pull requests opened and progressed towards the queue, hotfix '
        'destinations included; then, for a third, 1-6 random C01 events) x per state ~26 jobs run on that state (refs and '
        'tags put back after a job that changed them): create_branch over names {older than / newer than / between / '
        'equal to the existing development branches, development/x, stabilization right / wrong micro / without '
        'development branch / second on a line, hotfix with and without base tag, existing, other GitWaterFlow names, '
        'names outside the grammar} (10 without branch_from, always the first three + 4 with branch_from sampled from '
        '{a development branch, another branch, commit inside / outside the latest development branch, hotfix tip, '
        'unresolvable}), delete_branch on every destination + 2 absent / non-destination names, rebuild_queues, '
        'delete_queues, force_merge_queues, one scenario of {create->delete->create newer development, hotfix '
        'create->delete->create(+from), delete->create->delete existing, stabilization create->delete->create->next}; '
        'every job compared with the model (status, failure reason, ordered pushes, refs, tags, re-submitted pull '
        'requests) and checked by the property oracle; non-trivial = every job but NotMyJob. '
        'Resume states: {development, stabilization, hotfix branch} x {delete_branch really killed between the push '
        'of the archive tag and the removal of the branch, archive tag put on the tip by hand before / after what '
        'follows} x {then a pull request queued on that branch, then a stabilization branch created for it '
        '(development), then a pull request merged into it (the tag is no longer on the tip), nothing} x {queues on, '
        'off}, every combination; jobs on them: the re-submitted delete_branch, '
        'delete of another destination, rebuild_queues, delete_queues -> delete_branch, delete -> create -> delete')

# --------------------------------------------------------------------------- names

DEST_RE = re.compile(r'^(development|stabilization|hotfix)/(\d+)(?:\.(\d+))?(?:\.(\d+))?$')
NAME_OK = re.compile(r'^[A-Za-z0-9_./-]+$')


def dev_key(name):
    """(major, minor) of a development branch name, minor None for development/<major>"""
    m = re.match(r'^development/(\d+)(?:\.(\d+))?$', name)
    return (int(m.group(1)), None if m.group(2) is None else int(m.group(2)))


def dev_sort_key(k):
    return (k[0], 10 ** 9 if k[1] is None else k[1])


def dev_name(k):
    return 'development/%d' % k[0] if k[1] is None else 'development/%d.%d' % k


def version_of(name):
    return name.split('/', 1)[1]


# --------------------------------------------------------------------------- real side: tracing, snapshot, restore

_TRACE = []
_TRACING = False


def _install_trace():
    global _TRACING
    if _TRACING:
        return
    import bert_e.lib.git as libgit
    orig = libgit.cmd

    def traced(command, *a, **kw):
        out = orig(command, *a, **kw)
        if isinstance(command, str) and command.startswith('git push'):
            _TRACE.append(command)
        return out
    libgit.cmd = traced
    _TRACING = True


def canon_push(command, tags_known):
    """one successful `git push` of Bert-E as an operation code"""
    from .histories import ref_code
    args = command.split()[2:]
    if '--all' in args:
        return 'A'
    args = [a.strip("'\"") for a in args if not a.startswith('-') and a != 'origin']
    out = []
    for a in args:
        if a.startswith(':'):
            out.append('D:' + ref_code(a[1:]))
        elif DEST_RE.match(a) or '/' in a:
            out.append('P:' + ref_code(a))
        else:
            out.append('T:' + a)
    return ','.join(out)


def restore(w, refs0, tags0):
    from .system import git
    cur, curt = w.refs(), w.tags()
    lines = []
    for n in cur:
        if n not in refs0:
            lines.append('delete refs/heads/%s' % n)
    for n, s in refs0.items():
        if cur.get(n) != s:
            lines.append('update refs/heads/%s %s' % (n, s))
    for n in curt:
        if n not in tags0:
            lines.append('delete refs/tags/%s' % n)
    for n, s in tags0.items():
        if curt.get(n) != s:
            lines.append('update refs/tags/%s %s' % (n, s))
    if lines:
        import subprocess
        p = subprocess.run(['git', 'update-ref', '--stdin'], cwd=w.bare, input='\n'.join(lines) + '\n',
                           text=True, stdout=subprocess.PIPE, stderr=subprocess.PIPE)
        if p.returncode != 0:
            raise RuntimeError('restore failed: %s' % p.stderr)
    # pending jobs of a previous step must not leak into the next one
    while w.berte.task_queue.qsize():
        w.berte.task_queue.get()
        w.berte.task_queue.task_done()


class Export:
    """sha -> small commit number, ancestry among the numbered commits (one world)"""

    def __init__(self, w):
        self.w = w
        self.ids = {}
        self.ancs = {}

    def num(self, sha):
        from .system import git
        if sha not in self.ids:
            self.ids[sha] = len(self.ids)
            self.ancs[sha] = set(git(self.w.bare, 'rev-list', sha).split())
        return self.ids[sha]

    def line(self, refs, tags, use_queue, extra=()):
        for s in list(refs.values()) + list(tags.values()) + list(extra):
            self.num(s)
        order = sorted(self.ids, key=self.ids.get)
        graph = ','.join('%d:%s' % (self.ids[s], '.'.join(str(self.ids[a]) for a in order
                                                          if a != s and a in self.ancs[s])) for s in order)
        for n in list(refs) + list(tags):
            if not NAME_OK.match(n):
                raise ValueError('name outside the protocol alphabet: %r' % n)
        heads = ','.join('%s=%d' % (n, self.ids[refs[n]]) for n in sorted(refs)) or '-'
        tg = ','.join('%s=%d' % (n, self.ids[tags[n]]) for n in sorted(tags)) or '-'
        return '%d;%s;%s;%s' % (1 if use_queue else 0, heads, tg, graph or '-')


WHY = [
    (r'is not a GWF branch', 'notGwf'),
    (r'is not a GWF destination branch', 'notDestination'),
    (r"already an archive tag '([^']*)'", 'archiveTag:%s'),
    (r'Provided branching point', 'branchingPoint'),
    (r'without a supporting development', 'noDevForStab'),
    (r'due to queued data', 'queuedData'),
    (r'does not conform to GWF rules \((\w+)\)', 'cascade:%s'),
    (r'active stabilization', 'stabAlive'),
    (r'Unable to push new tag', 'tagPush'),
    (r'Unable to push new branch', 'pushFailed'),
    (r'Unable to delete branch', 'deleteFailed'),
]


def why_code(details):
    for pat, code in WHY:
        m = re.search(pat, details or '')
        if m:
            return code % m.groups() if '%s' in code else code
    return 'other:%s' % (details or '')[:60]


def real_cascade_error(w):
    """the real BranchCascade over the remote: build (no destination) + validate; None when accepted"""
    from bert_e.lib.git import Repository
    from bert_e.workflow.gitwaterflow.branches import BranchCascade
    r = Repository(w.bare)
    try:
        r.cmd_directory = w.bare
        c = BranchCascade()
        c.build(r)
        c.validate()
        return None
    except Exception as e:
        return type(e).__name__
    finally:
        try:
            r.delete()
        except Exception:
            pass


def run_job(w, exp, step, use_queue, shas):
    """Run one admin job on the world. Returns the observation record (with the model line)."""
    from .histories import ref_code
    refs0, tags0 = w.refs(), w.tags()
    kind = step['job']
    settings = {}
    fr = step.get('from')
    extra = []
    frm = '-'
    if kind in ('create_branch', 'delete_branch'):
        settings['branch'] = step['branch']
    if kind == 'create_branch' and fr is not None:
        if fr[0] == 'b':
            settings['branch_from'] = fr[1]
            frm = 'b:' + fr[1]
        elif fr[0] == 'c':
            sha = shas.get(fr[1], fr[1])
            settings['branch_from'] = sha
            extra.append(sha)
            frm = None
        else:
            settings['branch_from'] = 'deadbeef00deadbeef00'
            frm = 'u'
    state = exp.line(refs0, tags0, use_queue, extra)
    if frm is None:
        frm = 'c:%d' % exp.ids[extra[0]]
    mjob = {'create_branch': 'create', 'delete_branch': 'delete', 'rebuild_queues': 'rebuild',
            'delete_queues': 'delqueues', 'force_merge_queues': 'forcemerge'}[kind]
    line = 'C20 %s;%s;%s;%s' % (state, mjob, step.get('branch') or '-', frm)
    del _TRACE[:]
    status = w.job(kind, **settings)
    job = w.berte.tasks_done[0]
    details = job.details
    trace = list(_TRACE)
    refs1, tags1 = w.refs(), w.tags()
    pending = []
    for j in list(w.berte.task_queue.queue):
        pr = getattr(j, 'pull_request', None)
        pending.append(pr.id if pr is not None else None)
    casc = None
    if kind == 'create_branch' and step['branch'] in refs1 and step['branch'] not in refs0:
        casc = real_cascade_error(w)
        incl = w.inclusion_breaks(refs1)
    else:
        incl = None
    # ancestry needed by the oracle of the queue order
    qorder = {}
    if kind in ('rebuild_queues', 'create_branch'):
        for n, s in refs0.items():
            m = re.match(r'^q/w/(\d+)/([0-9.]+)/', n)
            if m:
                qorder.setdefault(m.group(2), []).append((int(m.group(1)), s))
        for v, l in qorder.items():
            qorder[v] = [(p, s, sorted(p2 for p2, s2 in l if p2 != p and w.is_ancestor(s2, s))) for p, s in l]
    obs = {
        'step': step, 'use_queue': use_queue, 'line': line,
        'status': status, 'why': why_code(details) if status == 'JobFailure' else None,
        'ops': [canon_push(c, tags1) for c in trace],
        'refs0': refs0, 'tags0': tags0, 'refs1': refs1, 'tags1': tags1,
        'codes1': {ref_code(n): exp.ids.get(s) for n, s in refs1.items()},
        'tagnum1': {n: exp.ids.get(s) for n, s in tags1.items()},
        'pending': pending, 'cascade_error': casc, 'inclusion_breaks': incl, 'qorder': qorder,
    }
    # the re-submitted pull requests are evaluated before anything else happens (as the server would)
    obs['drained'] = w.drain() if pending else []
    return obs


def model_view(answer):
    parts = answer.split('|')
    if len(parts) != 5:
        return {'raw': answer}
    outcome, ops, refs, tags, resub = parts

    def pairs(s):
        d = {}
        for kv in s.split(','):
            if kv:
                k, v = kv.rsplit('=', 1)
                d[k] = int(v)
        return d
    status, why = outcome, None
    if outcome.startswith('JobFailure:'):
        status, why = 'JobFailure', outcome[len('JobFailure:'):]
    return {'status': status, 'why': why, 'ops': [o for o in ops.split(',') if o],
            'refs': pairs(refs), 'tags': pairs(tags), 'resubmit': [int(x) for x in resub.split(',') if x]}


def real_view(obs):
    ops = [o for c in obs['ops'] for o in c.split(',')]
    return {'status': obs['status'], 'why': obs['why'], 'ops': ops, 'refs': obs['codes1'],
            'tags': obs['tagnum1'], 'resubmit': obs['pending']}


def differs(obs, mv):
    """None or the reason why the model's answer is not the real observation"""
    rv = real_view(obs)
    if 'raw' in mv:
        return 'model answer: %s' % mv['raw']
    if obs['step']['job'] == 'force_merge_queues':
        # the queue evaluation itself is the subject of C01/C03/C05: only the NotMyJob exit is compared
        if (mv['status'] == 'NotMyJob') != (rv['status'] == 'NotMyJob'):
            return 'status: real %s model %s' % (rv['status'], mv['status'])
        return None
    for k in ('status', 'why', 'ops', 'refs', 'tags', 'resubmit'):
        if rv[k] != mv[k]:
            return '%s: real %s model %s' % (k, rv[k], mv[k])
    return None


# --------------------------------------------------------------------------- property oracle (independent of the model)

REFUSALS = ('JobFailure', 'NothingToDo', 'NotMyJob')


def queued_ids(refs):
    return sorted({int(m.group(1)) for n in refs for m in [re.match(r'^q/w/(\d+)/', n)] if m})


def queue_of(name):
    """the destination branch a pull request with the queue-integration branch `name` (q/w/<id>/<version>/<src>) is
    queued on: two numbers = development/x.y, three = stabilization/x.y.z, four = the hotfix line x.y.z"""
    m = re.match(r'^q/w/\d+/(\d+(?:\.\d+){0,3})/', name)
    if not m:
        return None
    n = m.group(1).count('.')
    if n <= 1:
        return 'development/' + m.group(1)
    if n == 2:
        return 'stabilization/' + m.group(1)
    return 'hotfix/' + m.group(1).rsplit('.', 1)[0]


def archive_tag_of(b):
    return version_of(b) + ('.archived_hotfix_branch' if b.startswith('hotfix/') else '')


def oracle(obs):
    """The property text on one real observation. Returns a list of failures."""
    st = obs['step']
    kind, status = st['job'], obs['status']
    r0, r1, t0, t1 = obs['refs0'], obs['refs1'], obs['tags0'], obs['tags1']
    out = []

    def bad(key, what, **o):
        out.append({'key': key, 'what': what, 'observation': dict(o, status=status, why=obs['why'], step=st)})

    # a job that refuses leaves the remote untouched
    if status in REFUSALS and (r0 != r1 or t0 != t1):
        key = 'refused-but-changed'
        if kind == 'delete_branch' and obs['why'] == 'tagPush' and t0 == t1 and \
                all(n.startswith('q/') and n not in r1 for n in set(r0) ^ set(r1)) and \
                all(r0[n] == r1[n] for n in r1):
            # `git tag` failed on an existing archive tag after the queue branch was deleted: the code before
            # f819c35, in states with a hand-pushed tag or hotfix branch (since then the tag is looked at first)
            key = 'delete-refused-after-queue-deletion'
        bad(key, '%s %s answered %s but changed the remote: refs %s tags %s' % (
            kind, st.get('branch'), status,
            sorted(set(r0.items()) ^ set(r1.items()))[:4], sorted(set(t0.items()) ^ set(t1.items()))[:4]))
    if kind == 'create_branch':
        b = st['branch']
        changed = {n for n in set(r0) | set(r1) if r0.get(n) != r1.get(n)}
        if b in r1 and b not in r0:          # published
            m = DEST_RE.match(b)
            if not m:
                bad('create-non-destination', 'create_branch published %s, not a destination branch' % b)
            else:
                ver = version_of(b)
                arch = [ver] + ([ver + '.archived_hotfix_branch'] if b.startswith('hotfix/') else [])
                hit = [t for t in arch if t in t0]
                if hit:
                    bad('create-archived', 'create_branch published %s although the version was archived (tag %s)'
                        % (b, hit[0]), tags=sorted(t0))
                if obs['cascade_error']:
                    bad('create-cascade', 'create_branch published %s: the cascade of the repository is now rejected (%s)'
                        % (b, obs['cascade_error']))
                if obs['inclusion_breaks']:
                    bad('create-inclusion', 'create_branch published %s: %s is not included in %s'
                        % (b, obs['inclusion_breaks'][0][0], obs['inclusion_breaks'][0][1]))
                if obs['use_queue'] and b.startswith('development/'):
                    devs = sorted((dev_key(n) for n in r0 if n.startswith('development/')), key=dev_sort_key)
                    if devs and dev_sort_key(dev_key(b)) < dev_sort_key(devs[-1]) and queued_ids(r0):
                        bad('create-older-while-queued',
                            'create_branch published %s, older than %s, while pull requests %s are queued'
                            % (b, dev_name(devs[-1]), queued_ids(r0)))
            other = {n for n in changed if n != b and not n.startswith('q/')}
            if other:
                bad('create-touched-others', 'create_branch %s changed other branches: %s' % (b, sorted(other)))
        elif changed or t0 != t1:
            if status not in REFUSALS:      # the refusal case is reported above
                bad('create-unpublished-change', 'create_branch %s did not publish but changed %s'
                    % (b, sorted(changed)))
    if kind == 'delete_branch':
        b = st['branch']
        # "refuses while the branch has queued pull requests or, for a development branch, a live stabilization
        # branch ... leaves the remote untouched" - whatever else holds of the state (archive tag present or not)
        if b in r0 and DEST_RE.match(b):
            queued = sorted(n for n in r0 if obs['use_queue'] and queue_of(n) == b)
            m = re.match(r'^development/(\d+)\.(\d+)$', b)
            stabs = sorted(n for n in r0 if m and re.match(r'^stabilization/%s\.%s\.\d+$' % m.groups(), n))
            if (queued or stabs) and (status == 'JobSuccess' or r0 != r1 or t0 != t1):
                bad('delete-must-refuse', 'delete_branch %s answered %s and changed %s although %s' % (
                    b, status, sorted(n for n in set(r0) | set(r1) if r0.get(n) != r1.get(n)) +
                    sorted('tag ' + n for n in set(t0) | set(t1) if t0.get(n) != t1.get(n)) or 'nothing',
                    'pull requests are queued on it (%s)' % ', '.join(queued) if queued
                    else '%s is alive' % stabs[0]))
        if b in r0 and b not in r1:          # deletion published
            ver = version_of(b)
            q = [n for n in r0 if re.match(r'^q/w/\d+/%s(\.\d+)?/' % re.escape(ver), n)
                 and (b.startswith('hotfix/') or re.match(r'^q/w/\d+/%s/' % re.escape(ver), n))]
            if obs['use_queue'] and q:
                bad('delete-while-queued', 'delete_branch removed %s while pull requests are queued on it: %s' % (b, q))
            m = re.match(r'^development/(\d+)\.(\d+)$', b)
            if m:
                stabs = [n for n in r0 if re.match(r'^stabilization/%s\.%s\.\d+$' % m.groups(), n)]
                if stabs:
                    bad('delete-dev-with-stab', 'delete_branch removed %s while %s is alive' % (b, stabs[0]))
            tag = ver + ('.archived_hotfix_branch' if b.startswith('hotfix/') else '')
            if t1.get(tag) != r0[b]:
                bad('delete-no-archive-tag', 'delete_branch removed %s (tip %s) but tag %s is %s'
                    % (b, r0[b][:8], tag, (t1.get(tag) or 'absent')[:8]))
            ops = [o for c in obs['ops'] for o in c.split(',')]
            from .histories import ref_code
            ti = [i for i, o in enumerate(ops) if o == 'T:' + tag]
            di = [i for i, o in enumerate(ops) if o == 'D:' + ref_code(b)]
            if t0.get(tag) == r0[b]:
                pass        # the archive tag was already on the tip (an interrupted deletion is completed)
            elif not ti or not di or ti[0] > di[0]:
                bad('delete-before-tag', 'delete_branch %s: the archive tag is not pushed before the deletion: %s'
                    % (b, ops))
            other = {n for n in set(r0) | set(r1) if r0.get(n) != r1.get(n) and n != b and not n.startswith('q/')}
            if other:
                bad('delete-touched-others', 'delete_branch %s changed other branches: %s' % (b, sorted(other)))
    if kind in ('rebuild_queues', 'delete_queues'):
        gone = {n for n in r0 if n not in r1}
        moved = {n for n in r1 if r0.get(n) != r1[n]}
        notq = {n for n in gone | moved if not n.startswith('q/')}
        if notq or t0 != t1:
            bad('queues-touched-others', '%s changed branches outside q/*: %s' % (kind, sorted(notq)))
        if status == 'JobSuccess' and any(n.startswith('q/') for n in r1):
            bad('queues-left', '%s succeeded but q/* branches remain: %s'
                % (kind, sorted(n for n in r1 if n.startswith('q/'))[:4]))
    if kind == 'rebuild_queues' or (kind == 'create_branch' and obs['pending']):
        if status == 'JobSuccess' or obs['pending']:
            want = queued_ids(r0)
            got = obs['pending']
            if kind == 'rebuild_queues' or got:
                if sorted(x for x in got if x is not None) != want or len(got) != len(want):
                    bad('rebuild-resubmits', '%s re-submitted %s, queued were %s' % (kind, got, want))
                else:
                    pos = {p: i for i, p in enumerate(got)}
                    for v, l in obs['qorder'].items():
                        for p, _, older in l:
                            for o in older:
                                if pos[o] > pos[p]:
                                    bad('rebuild-order', '%s re-submitted %s: on queue %s pull request %d was queued '
                                        'before %d' % (kind, got, v, o, p))
    if kind == 'delete_queues' and obs['pending']:
        bad('delete-queues-resubmits', 'delete_queues left jobs pending: %s' % obs['pending'])
    return out


# --------------------------------------------------------------------------- states and job lists

def gen_state(rng):
    """configuration and state-reaching events"""
    from .histories import TEMPLATES, gen_history
    from .system import Config
    dests, tags = rng.choice(TEMPLATES)
    dests = list(dests)
    if not any(d.startswith('hotfix/') for d in dests) and rng.random() < 0.3:
        dests.append('hotfix/4.2.17')
    mode = rng.choice(['queue', 'queue', 'queue', 'queue', 'queue-skip', 'noqueue'])
    tags = sorted(set(tags) | {'4.2.17.0'})
    cfg = Config(dests, tags, use_queue=mode != 'noqueue', skip_queue=mode == 'queue-skip',
                 no_octopus=rng.random() < 0.3, create_prs=rng.random() < 0.5, create_branches=True,
                 peers=0, leaders=0, author_approval=False,
                 options=['bypass_jira_check', 'bypass_build_status'])
    evs = []
    nprs = rng.choice([0, 1, 1, 2, 2, 3, 3])
    for k in range(1, nprs + 1):
        dst = rng.choice(dests)
        if rng.random() < 0.3 and any(d.startswith('hotfix/') for d in dests):
            dst = [d for d in dests if d.startswith('hotfix/')][0]
        evs.append({'op': 'open', 'pr': k, 'dst': dst,
                    'src': '%s/TEST-%04d' % (rng.choice(['feature', 'bugfix', 'improvement']), k)})
        if rng.random() < 0.85:
            evs.append({'op': 'progress', 'pr': k})
    if rng.random() < 0.35 and nprs:
        # a few random events of the C01 histories; evaluations (which merge what is queued) thinned out
        extra = gen_history(rng, cfg, length=rng.randint(1, 6), admin_jobs=rng.random() < 0.3)
        evs += [e for e in extra if e['op'] != 'open'
                and not (e['op'] in ('progress', 'eval_pr', 'eval_commit') and rng.random() < 0.6)]
    return cfg, mode, evs


def job_list(rng, refs, tags, prs):
    """(single jobs, scenarios) for a reached state"""
    devs = sorted((dev_key(n) for n in refs if n.startswith('development/')), key=dev_sort_key)
    stabs = [n for n in refs if n.startswith('stabilization/')]
    hfs = [n for n in refs if n.startswith('hotfix/')]
    dests = [n for n in refs if DEST_RE.match(n)]
    names = []
    newer = None
    if devs:
        f, l = devs[0], devs[-1]
        older = 'development/%d.%d' % ((f[0], f[1] - 1) if f[1] else (f[0] - 1, 9))
        newer = 'development/%d.0' % (l[0] + 1)
        names += [older, newer, dev_name(rng.choice(devs))]
        for a, b in zip(devs, devs[1:]):
            if a[1] is not None:
                mid = (a[0], a[1] + 1)
                if dev_sort_key(mid) < dev_sort_key(b):
                    names.append(dev_name(mid))
        names += ['development/%d' % f[0], 'development/%d' % (l[0] + 1)]
        for k in devs:
            if k[1] is None:
                continue
            mic = [int(t.split('.')[2]) for t in tags
                   if re.match(r'^v?%d\.%d\.\d+(\.\d+)?$' % k, t)]
            right = max(mic) + 1 if mic else 0
            names += ['stabilization/%d.%d.%d' % (k[0], k[1], right), 'stabilization/%d.%d.%d' % (k[0], k[1], right + 1)]
            names.append('hotfix/%d.%d.0' % k)
        names.append('stabilization/%d.7.0' % (l[0] + 2))
    else:
        names += ['development/5.0', 'stabilization/5.0.0']
    names += ['hotfix/4.2.17', 'hotfix/4.2.18'] + stabs[:1] + hfs[:1]
    names += ['feature/foo', 'user/somebody', 'release/4.3', 'w/4.3/feature/foo', 'q/9.9', 'hotfix/legacy', 'master2',
              'some/thing']
    seen, uniq = set(), []
    for n in names:
        if n not in seen:
            seen.add(n)
            uniq.append(n)
    names = uniq
    froms = [('b', dev_name(devs[-1])), ('b', dev_name(devs[0])), ('c', 'root'), ('c', 'first'), ('c', 'last'),
             ('c', 'lastp'), ('u', None)] if devs else [('c', 'root'), ('u', None)]
    outside = [n for n in refs if not DEST_RE.match(n) and not n.startswith('q/')]
    if outside:
        froms += [('b', rng.choice(outside)), ('c', 'out')]
    if hfs:
        froms.append(('c', 'hf'))
    # creations without branching point: the four positions relative to the existing development branches always,
    # a sample of the other names
    must = names[:3] if devs else names[:2]
    rest = [n for n in names if n not in must]
    rng.shuffle(rest)
    singles = [{'job': 'create_branch', 'branch': n, 'from': None} for n in must + rest[:7]]
    destnames = [n for n in names if DEST_RE.match(n)]
    for _ in range(4):
        singles.append({'job': 'create_branch', 'branch': rng.choice(destnames if rng.random() < 0.9 else names),
                        'from': list(rng.choice(froms))})
    absent = ['development/99.9', 'stabilization/99.9.0', 'hotfix/99.9.9', 'feature/foo', 'q/4.3', 'master2']
    rng.shuffle(absent)
    for n in dests + absent[:2]:
        singles.append({'job': 'delete_branch', 'branch': n})
    singles += [{'job': 'rebuild_queues'}, {'job': 'delete_queues'}]
    scen = []
    if newer:
        scen.append([{'job': 'create_branch', 'branch': newer, 'from': None}, {'job': 'delete_branch', 'branch': newer},
                     {'job': 'create_branch', 'branch': newer, 'from': None}])
    hf = 'hotfix/4.2.17'
    scen.append(([] if hf in refs else [{'job': 'create_branch', 'branch': hf, 'from': None}]) +
                [{'job': 'delete_branch', 'branch': hf}, {'job': 'create_branch', 'branch': hf, 'from': None},
                 {'job': 'create_branch', 'branch': hf, 'from': ['c', 'root']}])
    if dests:
        d = rng.choice(dests)
        scen.append([{'job': 'delete_branch', 'branch': d}, {'job': 'create_branch', 'branch': d, 'from': None},
                     {'job': 'delete_branch', 'branch': d}])
    st = [n for n in names if n.startswith('stabilization/') and n not in refs]
    if st:
        s = st[0]
        scen.append([{'job': 'create_branch', 'branch': s, 'from': None}, {'job': 'delete_branch', 'branch': s},
                     {'job': 'create_branch', 'branch': s, 'from': None},
                     {'job': 'create_branch', 'branch': st[1] if len(st) > 1 else s, 'from': None}])
    rng.shuffle(scen)
    return singles, scen[:1]


# --------------------------------------------------------------------------- states with the archive tag on a tip

RESUME_TEMPLATES = {
    # kind of the branch whose deletion is resumed -> [(dests, tags, that branch)]
    'development': [(['development/4.3', 'development/5.1', 'development/10.0'], [], 'development/5.1'),
                    (['development/4.3', 'development/5.1', 'development/10.0'], [], 'development/10.0'),
                    (['development/4.3', 'development/5.1'], [], 'development/4.3'),
                    (['development/4.3', 'development/4', 'development/5.1'], [], 'development/4'),
                    (['development/4.3', 'development/5.1', 'hotfix/4.2.17'], [], 'development/5.1')],
    'development+stab': [(['development/4.3', 'stabilization/5.1.4', 'development/5.1', 'development/10.0'], ['5.1.3'],
                          'development/5.1'),
                         (['stabilization/4.3.18', 'development/4.3', 'development/5.1'], ['4.3.17'],
                          'development/4.3')],
    'stabilization': [(['development/4.3', 'stabilization/5.1.4', 'development/5.1', 'development/10.0'], ['5.1.3'],
                       'stabilization/5.1.4'),
                      (['stabilization/4.3.18', 'development/4.3', 'development/5.1'], ['4.3.17'],
                       'stabilization/4.3.18')],
    'hotfix': [(['development/4.3', 'development/5.1', 'hotfix/4.2.17'], [], 'hotfix/4.2.17'),
               (['development/4.3', 'stabilization/5.1.4', 'development/5.1', 'development/10.0', 'hotfix/4.2.17'],
                ['5.1.3'], 'hotfix/4.2.17')],
}


def resume_combos():
    """(kind, how, then, queues on) - every combination that makes sense: a pull request is queued only with queues
    on, a stabilization branch guards a development branch only; 'hand-after' differs from 'hand-before' only when
    something follows; 'merged' = a pull request is merged into the branch after the interrupted deletion, so that
    the archive tag is no longer on the tip (the job must then refuse as it does for any other tag of that name)"""
    out = []
    for queues in (True, False):
        for kind in ('development', 'stabilization', 'hotfix'):
            for how in ('interrupted', 'hand-before', 'hand-after'):
                for then in ('nothing', 'queued', 'stab', 'merged'):
                    if then == 'merged' and how != 'interrupted':
                        continue
                    if then == 'queued' and not queues:
                        continue
                    if then == 'stab' and kind != 'development':
                        continue
                    if then == 'nothing' and how == 'hand-after':
                        continue
                    out.append((kind, how, then, queues))
    return out


def gen_resume_state(rng, j):
    """A state in which the archive tag of destination branch `b` sits on the tip of `b`, and what happened around
    it. Returns (cfg, label, events, b)."""
    from .system import Config
    combos = resume_combos()
    kind, how, then, queues = combos[j % len(combos)]
    pool = RESUME_TEMPLATES[kind]
    if kind == 'development' and then == 'stab' and how != 'interrupted' and rng.random() < 0.5:
        pool = RESUME_TEMPLATES['development+stab']       # the stabilization branch is there from the start
    dests, tags, b = rng.choice(pool)
    dests = list(dests)
    cfg = Config(dests, sorted(set(tags) | {'4.2.17.0'}), use_queue=queues,
                 skip_queue=queues and then not in ('queued', 'merged') and rng.random() < 0.2, no_octopus=rng.random() < 0.3,
                 create_prs=rng.random() < 0.5, create_branches=True, peers=0, leaders=0, author_approval=False,
                 options=['bypass_jira_check', 'bypass_build_status'])
    evs = []
    npr = 0

    def queue_pr(dst, stay=False):
        nonlocal npr
        npr += 1
        evs.append({'op': 'open', 'pr': npr, 'dst': dst,
                    'src': '%s/TEST-%04d' % (rng.choice(['feature', 'bugfix', 'improvement']), npr)})
        evs.append({'op': 'progress', 'pr': npr})
        if not stay and (not cfg.use_queue or rng.random() < 0.3):
            evs.append({'op': 'progress', 'pr': npr})      # merged (queues off: at once; on: the queue is evaluated)

    # something else going on in the repository: a pull request on another destination (its targets may include b)
    others = [d for d in dests if d != b]
    if others and rng.random() < 0.4:
        queue_pr(rng.choice(others))
        if how == 'interrupted' and queues and version_key_of(evs[0]['dst']) <= version_key_of(b) \
                and not b.startswith('hotfix/') and not evs[0]['dst'].startswith('hotfix/'):
            evs.append({'op': 'progress', 'pr': 1})        # let it merge: a queue on b would make the first delete refuse
    tag_ev = {'op': 'interrupted_delete', 'branch': b} if how == 'interrupted' else {'op': 'tag_tip', 'branch': b}
    follow = []
    saved, evs = evs, follow
    if then == 'queued':
        queue_pr(b, stay=True)
        if rng.random() < 0.3:
            queue_pr(b, stay=True)
    elif then == 'merged':
        queue_pr(b, stay=True)
        evs.append({'op': 'progress', 'pr': npr})
        evs.append({'op': 'progress', 'pr': npr})
    elif then == 'stab' and not any(d.startswith('stabilization/%s.' % version_of(b)) for d in dests):
        micro = max([int(t.split('.')[2]) + 1 for t in cfg.tags if t.startswith(version_of(b) + '.')
                     and t.count('.') >= 2] + [0])
        evs.append({'op': 'job', 'kind': 'create_branch', 'branch': 'stabilization/%s.%d' % (version_of(b), micro)})
    evs = saved
    evs += [tag_ev] + follow if how != 'hand-after' else follow + [tag_ev]
    label = '%s:%s:%s:%s' % (kind, how, then, 'queues' if queues else 'noqueue')
    return cfg, label, evs, b


def version_key_of(name):
    from .system import version_key
    return version_key(name) if not name.startswith('hotfix/') else (0, 0, 0)


def resume_jobs(rng, refs, b):
    """the jobs run on a resume state: the re-submitted delete_branch first"""
    dests = [n for n in refs if DEST_RE.match(n)]
    groups = [[{'job': 'delete_branch', 'branch': b}]]
    others = [n for n in dests if n != b]
    rng.shuffle(others)
    for n in others[:1]:
        groups.append([{'job': 'delete_branch', 'branch': n}])
    groups.append([{'job': 'rebuild_queues'}])
    # once the queues are gone nothing is queued any more: the deletion is completed (or still refused: live stab)
    groups.append([{'job': 'delete_queues'}, {'job': 'delete_branch', 'branch': b}])
    groups.append([{'job': 'delete_branch', 'branch': b}, {'job': 'create_branch', 'branch': b, 'from': None},
                   {'job': 'delete_branch', 'branch': b}])
    return groups


def interrupted_delete(w, b):
    """A delete_branch job on `b` that dies between the push of the archive tag and the removal of the branch: the
    crash injector of C02 lets the operations before the removal through (the deletion of q/<version> when it is
    there, the push of the tag) and fails the removal; the process is gone (`Died`), a new BertE instance takes over.
    When the job refuses (nothing is pushed) the state simply has no archive tag."""
    from .c02_faults import INJ, Died
    INJ.attach(w)
    try:
        refs = w.refs()
        k = 1 + (1 if w.cfg.use_queue and ('q/' + version_of(b)) in refs else 0)
        INJ.begin_event({'j': 0, 'kind': 'crash', 'k': k})
        try:
            w.job('delete_branch', branch=b)
        except Died:
            pass
    finally:
        INJ.fault = None
        INJ.in_job = False
        INJ.world = None
    w.fresh_instance()


def execute_event(run, ev):
    """the events of harness.histories plus the two that put an archive tag on a tip"""
    from .system import git
    op = ev['op']
    if op == 'tag_tip':
        refs = run.w.refs()
        if ev['branch'] in refs:
            git(run.w.bare, 'update-ref', 'refs/tags/' + archive_tag_of(ev['branch']), refs[ev['branch']])
        return
    if op == 'interrupted_delete':
        interrupted_delete(run.w, ev['branch'])
        return
    run.execute(ev)


def special_shas(w, refs):
    from .system import git
    devs = sorted((n for n in refs if n.startswith('development/')), key=lambda n: dev_sort_key(dev_key(n)))
    shas = {}
    if devs:
        shas['first'] = refs[devs[0]]
        shas['last'] = refs[devs[-1]]
        shas['lastp'] = git(w.bare, 'rev-parse', refs[devs[-1]] + '~1').strip()
        shas['root'] = git(w.bare, 'rev-list', '--max-parents=0', refs[devs[-1]]).split()[-1]
    else:
        shas['root'] = git(w.bare, 'rev-list', '--max-parents=0', '--all').split()[-1]
    outside = sorted(n for n in refs if not DEST_RE.match(n) and not n.startswith('q/'))
    if outside:
        shas['out'] = refs[outside[-1]]
    hfs = sorted(n for n in refs if n.startswith('hotfix/'))
    if hfs:
        shas['hf'] = refs[hfs[0]]
    return shas


def run_state(cfg, events, jobs=None, rng=None, base=None, limit=None):
    """Reach the state, run the jobs. Returns (records, info)."""
    from .histories import Run
    _install_trace()
    run = Run(cfg, base)
    recs = []
    info = {}
    try:
        w = run.w
        for ev in events:
            execute_event(run, ev)
        refs, tags = w.refs(), w.tags()
        info['tag_on_tip'] = sorted(n for n in refs if DEST_RE.match(n) and tags.get(archive_tag_of(n)) == refs[n])
        info['tag_elsewhere'] = sorted(n for n in refs if DEST_RE.match(n) and archive_tag_of(n) in tags
                                       and n not in info['tag_on_tip'])
        info['queued_on'] = sorted({queue_of(n) for n in refs if queue_of(n)})
        info['queued'] = len(queued_ids(refs))
        info['hotfix_queue'] = any(re.match(r'^q/\d+\.\d+\.\d+\.\d+$', n) for n in refs)
        info['dests'] = sorted(n for n in refs if DEST_RE.match(n))
        exp = Export(w)
        if callable(jobs):
            groups = jobs(refs)
        elif jobs is None:
            singles, scen = job_list(rng, refs, tags, run.prs)
            if limit:
                singles = singles[:limit]
            groups = [[s] for s in singles] + scen + [[{'job': 'force_merge_queues'}]]
        else:
            groups = jobs
        for group in groups:
            for k, step in enumerate(group):
                shas = special_shas(w, w.refs())
                obs = run_job(w, exp, step, cfg.use_queue, shas)
                obs['prefix'] = group[:k + 1]        # what to replay on the reached state to get here
                recs.append(obs)
            restore(w, refs, tags)
    finally:
        run.close()
    return recs, info


# --------------------------------------------------------------------------- check

def _work(args):
    seed, i, use_model, base, limit = args
    rng = common.rng_for(seed, PID, i)
    cfg, mode, evs = gen_state(rng)
    try:
        recs, info = run_state(cfg, evs, None, rng, base, limit)
    except Exception:
        import traceback
        return {'i': i, 'error': traceback.format_exc()[-2500:], 'cfg': cfg.as_dict(), 'events': evs}
    return finish(i, cfg, mode, evs, recs, info, use_model)


def _work_resume(args):
    seed, j, use_model, base = args
    rng = common.rng_for(seed, PID, 'resume', j)
    cfg, label, evs, b = gen_resume_state(rng, j)
    try:
        recs, info = run_state(cfg, evs, lambda refs: resume_jobs(rng, refs, b), None, base)
    except Exception:
        import traceback
        return {'i': 'resume-%d' % j, 'error': traceback.format_exc()[-2500:], 'cfg': cfg.as_dict(), 'events': evs}
    out = finish('resume-%d' % j, cfg, 'queue' if cfg.use_queue else 'noqueue', evs, recs, info, use_model)
    out['resume'] = {'label': label, 'branch': b}
    return out


def finish(i, cfg, mode, evs, recs, info, use_model):
    answers = [None] * len(recs)
    if use_model:
        answers = common.Model().ask([r['line'] for r in recs])
    out = {'i': i, 'mode': mode, 'cfg': cfg.as_dict(), 'events': evs, 'info': info, 'jobs': []}
    for r, a in zip(recs, answers):
        item = {'step': r['step'], 'prefix': r['prefix'], 'status': r['status'], 'why': r['why'], 'line': r['line'],
                'diff': None, 'failures': oracle(r), 'changed': r['refs0'] != r['refs1'] or r['tags0'] != r['tags1'],
                'pending': r['pending'], 'ops': r['ops']}
        if a is not None:
            why = differs(r, model_view(a))
            if why:
                item['diff'] = {'why': why, 'model': a, 'real': real_view(r)}
        out['jobs'].append(item)
    return out


def name_class(n):
    if n is None:
        return '-'
    m = DEST_RE.match(n)
    if m:
        k = m.group(1)
        if k == 'development' and m.group(3) is None:
            return 'development-major'
        return k
    return 'gwf-other' if re.match(r'^(feature|user|release|w|q|hotfix)/', n) else 'non-gwf'


def collect(res, outs, corpus=False):
    for o in outs:
        if 'error' in o:
            raise RuntimeError('state harness failed (state %s): %s' % (o['i'], o['error']))
        res.count('mode:%s' % o['mode'])
        res.count('queued-prs:%d' % o['info']['queued'])
        if o['info']['hotfix_queue']:
            res.count('hotfix-queue')
        res.extra['states'] = res.extra.get('states', 0) + 1
        rs = o.get('resume')
        if rs:
            b = rs['branch']
            res.count('resume-state:' + rs['label'])
            what = ('queued-prs' if b in o['info']['queued_on'] else
                    'live-stab' if b.startswith('development/') and any(
                        d.startswith('stabilization/%s.' % version_of(b)) for d in o['info']['dests']) else 'free')
            tagged = ('tag-on-tip' if b in o['info']['tag_on_tip'] else
                      'tag-elsewhere' if b in o['info']['tag_elsewhere'] else
                      'no-tag' if b in o['info']['dests'] else 'gone')
            res.count('resume-reached:%s:%s:%s:%s' % (b.split('/')[0], tagged, what, o['mode']))
            first = o['jobs'][0]
            res.count('resume-redelivered:%s:%s:%s -> %s%s' % (b.split('/')[0], tagged, what, first['status'],
                                                               ':' + first['why'].split(':')[0] if first['why'] else ''))
        elif o['info'].get('tag_on_tip'):
            res.count('states-with-a-tag-on-a-tip')
        for j in o['jobs']:
            st = j['step']
            res.evaluations += 1
            res.model_compared += 1 if j['line'] else 0
            key = '%s:%s%s' % (st['job'], j['status'], (':' + j['why'].split(':')[0]) if j['why'] else '')
            res.count(key)
            if st['job'] == 'create_branch':
                res.count('create-name:%s' % name_class(st['branch']))
                res.count('create-from:%s' % ('absent' if not st.get('from') else st['from'][0] + ':' + str(st['from'][1])
                                               if st['from'][0] == 'c' else st['from'][0]))
            if j['changed']:
                res.count('changed-the-remote')
            if j['status'] != 'NotMyJob':
                res.distinct.add(common.hashlib.sha256(j['line'].encode()).hexdigest()[:16])
            inp = {'cfg': o['cfg'], 'events': o['events'], 'jobs': [j['prefix']], 'line': j['line']}
            if j['diff']:
                res.disagreements.append({'input': inp, 'real': j['diff']['real'], 'model': j['diff']['model'],
                                          'why': j['diff']['why']})
            for f in j['failures']:
                f = dict(f)
                f['input'] = inp
                res.oracle_failures.append(f)
            if len(res.samples) < 6 and j['changed']:
                res.samples.append({'dests': o['info']['dests'], 'queued': o['info']['queued'], 'step': st,
                                    'status': j['status'], 'ops': j['ops'], 'resubmitted': j['pending']})


def replay_corpus(use_model, base):
    """corpus/C20/*.json are replayed first. corpus/C20/known/*.json are witnesses on hand-built states outside the
    quantifier of the property (each names the `key` of its oracle failure): replayed only once the coordinator has
    recorded that key in KNOWN_FINDINGS.txt, so that the check then prints KNOWN-FINDING."""
    outs = []
    d = os.path.join(common.CORPUS_DIR, PID)
    if not os.path.isdir(d):
        return outs
    for fn in sorted(os.listdir(d)):
        if not fn.endswith('.json'):
            continue
        with open(os.path.join(d, fn)) as fh:
            h = json.load(fh)
        outs.append(play_case(h, 'corpus:' + fn, use_model, base))
    known = {k['key'] for k in common.known_findings() if k['property'] == PID}
    dk = os.path.join(d, 'known')
    if os.path.isdir(dk):
        for fn in sorted(os.listdir(dk)):
            if not fn.endswith('.json'):
                continue
            with open(os.path.join(dk, fn)) as fh:
                h = json.load(fh)
            if h.get('key') in known:
                outs.append(play_case(h, 'corpus:known/' + fn, use_model, base))
    return outs


def play_case(h, label, use_model, base=None):
    from .system import Config
    cfgd = dict(h['cfg'])
    cfg = Config(cfgd.pop('dests'), **cfgd)
    recs, info = run_state(cfg, h['events'], h['jobs'], None, base)
    return finish(label, cfg, 'corpus', h['events'], recs, info, use_model)


def correspondence(ctx):
    res = Result()
    res.rule = RULE
    n = (80 if ctx.tier == 'quick' else 900) * ctx.scale
    base = common.scratch()
    use_model = ctx.model is not None
    collect(res, replay_corpus(use_model, base))
    nres = (2 if ctx.tier == 'quick' else 12) * len(resume_combos()) * ctx.scale
    import time
    from . import c20_refuse
    with Pool(common.NCPU) as pool:
        t0 = time.time()
        refuse_async = c20_refuse.submit(pool, ctx, base)      # shares the pool with the states below
        outs = pool.map(_work, [(ctx.seed, i, use_model, base, None) for i in range(n)], chunksize=1)
        t1 = time.time()
        routs = pool.map(_work_resume, [(ctx.seed, j, use_model, base) for j in range(nres)], chunksize=1)
        t2 = time.time()
        refuse_outs = refuse_async.get()
        t2b = time.time()
    collect(res, outs)
    collect(res, routs)
    c20_refuse.collect(res, refuse_outs)
    res.extra['resume_states'] = nres
    # the known findings of C20 are OBSERVED on the real code by every run (real BertE + mock host + real git): the
    # oracle failure with the finding's key is recorded only while the real code shows the defect (harness/c20_witness.py)
    from . import c20_witness
    t3 = time.time()
    c20_witness.phase(res)
    res.extra['wall_s_by_part'] = {'history states (refusal units in the same pool)': round(t1 - t0, 1),
                                   'resume states': round(t2 - t1, 1),
                                   'waiting for the refusal units after the states': round(t2b - t2, 1),
                                   'refusal units, summed over the workers': round(sum(o.get('seconds', 0)
                                                                                       for o in refuse_outs), 1),
                                   'witnesses of known findings': round(time.time() - t3, 1)}
    res.rule += (' || WITNESS PHASE (harness/c20_witness.py): the two known findings of C20 run on the real BertE + mock '
                 'host + real git on every check (delete_branch of a hotfix branch deletes the queue of the stabilization '
                 'branch of that version; rebuild_queues drops a pull request queued on development/x.y only when '
                 'hotfix, stabilization and development queues of x.y coexist)')
    res.rule += (' || REFUSAL BLOCK (harness/c20_refuse.py): states with 2-3 queued pull requests (3 scripted: three '
                 'versions / stabilization + hotfix queue / two on the hotfix queue; seeded: cascade templates of C01, hotfix '
                 'branch added to half) x {rebuild_queues, delete_queues, create_branch of a newer development branch = '
                 'nested rebuild} x every ref the job changes (scripted; 4 sampled on seeded states) x the git server '
                 'refuses that ONE ref {once = first attempt only, always}; oracle: a job that does not answer JobSuccess '
                 'changed no ref and re-submitted nothing, one that does removed every q/* branch, nothing else, and '
                 '(rebuild) re-submitted exactly the queued pull requests in queue order')
    return res


def replay(ctx, payload):
    inp = payload['failure']['input'] if 'failure' in payload else payload['input']
    if isinstance(inp, dict) and inp.get('phase') == 'witness':
        from . import c20_witness
        return c20_witness.phase(Result(), only=inp.get('which'))
    from . import c20_refuse
    if c20_refuse.is_refusal_input(inp):
        return c20_refuse.replay(ctx, inp)
    h = {'cfg': inp['cfg'], 'events': inp['events'], 'jobs': inp['jobs']}
    res = Result()
    collect(res, [play_case(h, 'replay', ctx.model is not None)])
    return res
