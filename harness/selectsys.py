"""Computed queue selection at system level: tie of the composed model (lean/BertE/Model/Select.lean, driver
command `SEL`) to the real BertE + mock host + real git.

Seeded queue-mode histories that exercise the selection (several pull requests queued on the same / different
destinations, stabilization and hotfix paths, mixed SUCCESSFUL / FAILED / INPROGRESS / STOPPED / no report on
individual `q/w/` tips) are executed on the real system. For every Bert-E job the build status of every `q/w/`
tip is read from the mock host and handed to the MODEL, which computes the selection itself (`queuesB`, `prB`
items) - nothing about the selection is read from the real run. Compared after every event: refs, tip classes,
ancestry, outcome (as in harness/histories.py), and for every queue evaluation
  * what the real `QueueCollection` held (`_queues` per version newest first, merge paths; recorded by a wrapper
    around `QueueCollection._process`) with the model's abstraction of its state,
  * `mergeable_prs` and the pull requests whose `q/w/` refs disappeared with the model's selection.
Oracles on the real observations only: C03 (every moved destination tip is SUCCESSFUL in the host's table) and the
system-level statement of C05 (the merged pull requests are the longest all-green prefix of the queue in order of
entry, every hotfix queue on its own).

Used as an additional correspondence phase of harness/c03.py and harness/c05.py (`phase(ctx, pid)`)."""
import json
import re
from multiprocessing import Pool

from . import common
from .pipeline import Result
from .histories import (Run, candidates_for, compare, dest_code, ext_items, gone_prs, parse_model_obs, ref_code,
                        version_dest_code, TEMPLATES)
from .system import Config

LETTER = {'SUCCESSFUL': 'S', 'FAILED': 'F', 'INPROGRESS': 'I', 'NOTSTARTED': 'N', 'STOPPED': 'T'}
STATES = ['SUCCESSFUL'] * 11 + ['FAILED'] * 4 + ['INPROGRESS'] * 3 + ['STOPPED', None]

_RECORDS = []
_WRAPPED = False


def _wrap_process():
    """Record what the real collection holds whenever `_process` runs (class-level wrapper, idempotent)."""
    global _WRAPPED
    if _WRAPPED:
        return
    from bert_e.workflow.gitwaterflow import branches as br
    orig = br.QueueCollection._process

    def _process(self):
        rec = {'queues': [(tuple(v), [q.pr_id for q in d[br.QueueIntegrationBranch]])
                          for v, d in self._queues.items()],
               'paths': [[tuple(b.version_t) for b in p] for p in self.merge_paths],
               'force': bool(self.force_merge)}
        try:
            return orig(self)
        finally:
            rec['prs'] = list(self._mergeable_prs)
            _RECORDS.append(rec)

    br.QueueCollection._process = _process
    _WRAPPED = True


def vt_code(v):
    """version tuple of the Python -> destination code of the line protocol"""
    if len(v) == 2:
        return 'd%d' % v[0] if v[1] is None else 'd%d.%d' % (v[0], v[1])
    if len(v) == 3:
        return 's%d.%d.%d' % tuple(v)
    return 'h%d.%d.%d' % tuple(v[:3])


# ----------------------------------------------------------------------------- generator

def gen(rng):
    """(cfg, events): queue mode, 2-4 pull requests driven into the queue, statuses on individual q/w tips,
    then an evaluation; one to three such rounds."""
    multi = [t for t in TEMPLATES if len(t[0]) >= 2]
    dests, tags = rng.choice(multi + [TEMPLATES[3], TEMPLATES[6], TEMPLATES[7], TEMPLATES[5]])
    cfg = Config(dests, tags, use_queue=True, skip_queue=rng.random() < 0.15, no_octopus=rng.random() < 0.3,
                 create_prs=rng.random() < 0.3, create_branches=True, peers=0, leaders=0, author_approval=False,
                 options=['bypass_jira_check'])
    evs = []
    nprs = 0

    def queue_one(dst):
        nonlocal nprs
        nprs += 1
        i = nprs
        evs.append({'op': 'open', 'pr': i, 'dst': dst,
                    'src': '%s/TEST-%04d' % (rng.choice(['feature', 'bugfix', 'improvement']), i)})
        for _ in range(2):
            evs.append({'op': 'build', 'pr': i, 'what': 'integration', 'state': 'SUCCESSFUL'})
            evs.append({'op': 'eval_pr', 'pr': i})

    def statuses():
        for i in range(1, nprs + 1):
            r = rng.random()
            if r < 0.35:        # the whole pull request green
                evs.append({'op': 'build', 'pr': i, 'what': 'queue', 'state': 'SUCCESSFUL'})
            else:
                for k in range(4):
                    st = rng.choice(STATES)
                    if st:
                        evs.append({'op': 'build_qw', 'pr': i, 'k': k, 'state': st})

    def evaluation():
        r = rng.random()
        pr = rng.randint(1, nprs)
        if r < 0.70:
            evs.append({'op': 'eval_commit', 'pr': pr, 'ref': 'q'})
        elif r < 0.85:
            evs.append({'op': 'eval_pr', 'pr': pr})
        elif r < 0.93:
            evs.append({'op': 'eval_commit', 'pr': pr, 'ref': 'qw'})
        else:
            evs.append({'op': 'job', 'kind': 'force_merge_queues'})

    same = rng.random() < 0.4
    first = rng.choice(dests)
    for _ in range(rng.randint(2, 4)):
        queue_one(first if same and rng.random() < 0.8 else rng.choice(dests))
    for _ in range(rng.randint(1, 3)):
        statuses()
        evaluation()
        if rng.random() < 0.4 and nprs < 5:
            queue_one(rng.choice(dests))
    return cfg, evs


# ----------------------------------------------------------------------------- executor

class SelRun(Run):
    """`Run` plus the per-tip build report and the order of entry into the queue (for the C05 oracle)."""

    def __init__(self, cfg, base_dir=None):
        super().__init__(cfg, base_dir)
        self.entry_order = []        # pull-request ids in the order in which their q/w refs appeared
        self.order_known = True

    def execute(self, ev):
        if ev['op'] == 'build_qw':
            refs = self.refs = self.w.refs()
            pr = self.prs.get(ev['pr'])
            if pr is None:
                return 'skip', None
            tips = sorted(n for n in refs if n.startswith('q/w/%d/' % pr['id']))
            if not tips:
                return 'skip', None
            self.w.set_build(refs[tips[ev['k'] % len(tips)]], ev['state'])
            return 'host', None
        return super().execute(ev)

    def note_entries(self, before, after):
        def ids(refs):
            return {int(m.group(1)) for n in refs for m in [re.match(r'^q/w/(\d+)/', n)] if m}
        new = sorted(ids(after) - ids(before))
        if len(new) > 1:
            self.order_known = False       # several pull requests re-queued by one job (queue rebuild)
        self.entry_order = [p for p in self.entry_order if p in ids(after)] + new


def qw_statuses(run, refs):
    """`<pr>:<dest>:<letter>,...` for every q/w tip of `refs`, statuses as the host reports them"""
    out = []
    for n, sha in sorted(refs.items()):
        m = re.match(r'^q/w/(\d+)/([0-9.]+)/', n)
        if m:
            out.append('%s:%s:%s' % (m.group(1), version_dest_code(m.group(2)), LETTER[run.w.build_of(sha)]))
    return ','.join(out) or '-'


def computed(items, sts, force):
    """replace the selection read from the real run by the statuses: the model computes the selection"""
    out = []
    for it in items:
        ws = it.split(' ')
        if ws[0] == 'queues':
            out.append('queuesB %d %s' % (force, sts))
        elif ws[0] == 'pr':
            out.append('prB %s %s %s' % (' '.join(ws[1:6]), sts, ws[7] if len(ws) > 7 else '0'))   # ws[7]: no_octopus
        else:
            out.append(it)
    return out


def parse_extra(fields):
    d = {}
    for f in fields:
        k, _, v = f.partition('=')
        d[k] = v
    sel = [int(x) for x in d.get('sel', '').split(',') if x]
    queues = {}
    for part in [p for p in d.get('queues', '').split('/') if p]:
        k, _, v = part.partition('=')
        queues[k] = [int(x) for x in v.split(',') if x]
    paths = sorted(tuple(p.split(',')) for p in d.get('paths', '').split('/') if p)
    return {'sel': sel, 'queues': queues, 'paths': paths, 'val': d.get('val'), 'wf': d.get('wf')}


def split_obs(ans):
    fields = ans.split('|')
    return '|'.join(fields[:4]), (parse_extra(fields[4:]) if len(fields) > 4 else None)


def compare_collection(rec, extra):
    """the real collection at `_process` against the model's abstraction of its state"""
    rq = {vt_code(v): l for v, l in rec['queues']}
    if rq != extra['queues']:
        return '_queues: real %s, model %s' % (rq, extra['queues'])
    rp = sorted(tuple(vt_code(v) for v in p) for p in rec['paths'])
    if rp != extra['paths']:
        return 'merge paths: real %s, model %s' % (rp, extra['paths'])
    hot = [k for k in rq if k.startswith('h')]
    if (rec['prs'] != extra['sel']) if len(hot) <= 1 else (sorted(rec['prs']) != sorted(extra['sel'])):
        return 'mergeable_prs: real %s, model %s' % (rec['prs'], extra['sel'])
    if extra['val'] != '1' or extra['wf'] != '1':
        return 'model state not Validated / WFQ although validate() passed: val=%s wf=%s' % (extra['val'], extra['wf'])
    return None


# ----------------------------------------------------------------------------- oracles (real observations only)

def oracle_validated(run, info, before, after):
    """C03: a destination branch that a queue evaluation moved is on a commit whose build is SUCCESSFUL"""
    if info.get('kind') in ('force_merge_queues', 'create_branch', 'delete_branch'):
        return []
    bad = []
    for name, sha in after.items():
        if name.split('/')[0] in ('development', 'stabilization', 'hotfix') and name in before \
                and before[name] != sha:
            st = run.w.build_of(sha)
            if st != 'SUCCESSFUL':
                bad.append({'key': 'unvalidated-commit',
                            'what': '%s advanced to %s whose build is %s (job %s -> %s)'
                                    % (name, sha[:8], st, info.get('kind'), info.get('status')),
                            'observation': {'branch': name, 'status': st, 'job': info.get('status')}})
    return bad


def longest_green(order, targets, status):
    """the longest prefix of `order` such that on every version the newest entry of the prefix targeting it is
    SUCCESSFUL (`targets[p]`: versions of p; `status[(p, v)]`)"""
    best = 0
    for n in range(1, len(order) + 1):
        newest = {}
        for p in order[:n]:
            for v in targets[p]:
                newest[v] = p
        if all(status.get((p, v)) == 'SUCCESSFUL' for v, p in newest.items()):
            best = n
    return order[:best]


def oracle_prefix(run, info, before, after, entry_order):
    """C05 at system level, on a non-forced evaluation that ran `_process`"""
    targets, status = {}, {}
    for n, sha in before.items():
        m = re.match(r'^q/w/(\d+)/([0-9.]+)/', n)
        if m:
            p, v = int(m.group(1)), m.group(2)
            targets.setdefault(p, []).append(v)
            status[(p, v)] = run.w.build_of(sha)
    order = [p for p in entry_order if p in targets]
    if sorted(order) != sorted(targets):
        return None
    hot = {}
    main = []
    for p in order:
        hv = [v for v in targets[p] if v.count('.') == 3]
        if hv:
            hot.setdefault(hv[0], []).append(p)
        else:
            main.append(p)
    want = set(longest_green(main, targets, status))
    for v, l in hot.items():
        want |= set(longest_green(l, targets, status))
    got = set(gone_prs(before, after))
    if got != want:
        return [{'key': 'queue-selection-sys',
                 'what': 'merged %s, the longest all-green prefix of the queue %s (hotfix %s) is %s'
                         % (sorted(got), main, hot, sorted(want)),
                 'observation': {'merged': sorted(got), 'expected': sorted(want),
                                 'statuses': {'%d@%s' % k: v for k, v in status.items()}}}]
    return []


# ----------------------------------------------------------------------------- one history

def play(cfg, events, model, base_dir=None):
    _wrap_process()
    run = SelRun(cfg, base_dir)
    out = {'disagreement': None, 'failures': [], 'stats': {}, 'compared': 0, 'evals': []}
    stats = out['stats']

    def bump(k, n=1):
        stats[k] = stats.get(k, 0) + n
    try:
        refs, anc = run.observe()
        host = run.w.prs()
        model_ok = model is not None
        if model_ok:
            ans = model.ask(['SEL ' + ';'.join(run.items)])[0].split(';')
            r = compare(refs, anc, parse_model_obs(split_obs(ans[-1])[0]), run.sha2id)
            if isinstance(r, str):
                out['disagreement'] = {'event': 'init', 'why': r, 'items': list(run.items)}
                model_ok = False
            else:
                run.sha2id = r
        for n, ev in enumerate(events):
            before, host_before = refs, host
            del _RECORDS[:]
            order_before = list(run.entry_order)
            kind, info = run.execute(ev)
            bump('ev:' + ev['op'])
            if kind == 'skip':
                bump('skipped')
                continue
            refs, anc = run.observe()
            host = run.w.prs()
            run.note_entries(before, refs)
            status = info.get('status') if (kind == 'job' and info) else None
            recs = list(_RECORDS)
            if kind == 'job':
                bump('status:%s' % status)
                force = 1 if info.get('kind') == 'force_merge_queues' else 0
                fails = list(oracle_validated(run, info, before, refs))
                if recs and not force and run.order_known and len(recs) == 1:
                    pf = oracle_prefix(run, info, before, refs, order_before)
                    if pf is not None:
                        bump('prefix-oracle-evaluated')
                        fails += pf
                for f in fails:
                    f = dict(f)
                    f['at'] = n
                    out['failures'].append(f)
                for rec in recs:
                    nq = len({p for _, l in rec['queues'] for p in l})
                    ns = len(rec['prs'])
                    bump('evaluation:queued=%d' % nq)
                    bump('evaluation:selected=%s' % ('none' if ns == 0 else 'all' if ns == nq else 'some'))
                    if rec['force']:
                        bump('evaluation:force')
                    if any(len(v) == 4 and l for v, l in rec['queues']):
                        bump('evaluation:with-hotfix-queue')
                    if any(len(v) == 3 and l for v, l in rec['queues']):
                        bump('evaluation:with-stabilization-queue')
                    out['evals'].append((nq, ns))
                if recs:
                    for n_, sha in before.items():
                        if n_.startswith('q/w/'):
                            bump('tip-status:%s' % run.w.build_of(sha))
            if not model_ok or kind == 'host':
                continue
            if kind == 'ext':
                alts = [ext_items(run, info)]
            else:
                sts = qw_statuses(run, before)
                alts = [computed(a, sts, force) for a in candidates_for(run, info, before, refs, host_before, host)]
                alts = [a for k, a in enumerate(alts) if a not in alts[:k]]
            lines = ['SEL ' + ';'.join(run.items + alt) for alt in alts]
            answers = model.ask(lines)
            chosen, why0 = None, None
            for alt, a in zip(alts, answers):
                last = a.split(';')[-1]
                extra = None
                if last.startswith('bad-op'):
                    why = last
                else:
                    obs, extra = split_obs(last)
                    mobs = parse_model_obs(obs)
                    why = compare(refs, anc, mobs, run.sha2id)
                    if not isinstance(why, str) and status and mobs[0] not in ('gate', 'external', 'init') \
                            and len(alt) == 1 and mobs[0] != status and not (mobs[0] == 'nothing-selected'):
                        why = 'outcome: real %s, model %s' % (status, mobs[0])
                    if not isinstance(why, str) and extra is not None and len(alt) == 1 and len(recs) == 1:
                        w2 = compare_collection(recs[0], extra)
                        if w2:
                            why = w2
                        else:
                            out['compared'] += 1
                            bump('selection-compared')
                if not isinstance(why, str):
                    chosen = (alt, why)
                    break
                if why0 is None:
                    why0 = why
            out['compared'] += 1
            if chosen is None:
                out['disagreement'] = {'event': ev, 'at': n, 'why': why0, 'status': status,
                                       'items': run.items + alts[0],
                                       'real_refs': {ref_code(k): v[:8] for k, v in refs.items()},
                                       'real_collection': recs}
                model_ok = False
                break
            run.items += chosen[0]
            run.sha2id = chosen[1]
        out['items'] = run.items
    finally:
        run.close()
    return out


def _work(args):
    seed, i, use_model, base = args
    rng = common.rng_for(seed, 'selectsys', i)
    cfg, evs = gen(rng)
    model = common.Model() if use_model else None
    try:
        out = play(cfg, evs, model, base_dir=base)
    except Exception:
        import traceback
        return {'i': i, 'cfg': cfg.as_dict(), 'events': evs, 'error': traceback.format_exc()[-2000:]}
    return {'i': i, 'cfg': cfg.as_dict(), 'events': evs, 'stats': out['stats'],
            'disagreement': out['disagreement'], 'failures': out['failures'], 'compared': out['compared'],
            'evals': out['evals'], 'items': out.get('items')}


ORACLE_KEYS = {'C03': ('unvalidated-commit',), 'C05': ('queue-selection-sys',)}


def phase(ctx, pid, n_quick=32, n_thorough=1600):
    """The computed-selection phase. `pid` selects which oracle failures are reported (C03 / C05)."""
    res = Result()
    res.rule = ('computed selection: seeded queue-mode histories (2-5 pull requests queued on the same / different '
                'destinations incl. stabilization and hotfix, build statuses on individual q/w tips, commit / '
                'pull-request / force-merge evaluations) on the real BertE + mock host + real git; the model computes '
                'the selection from the statuses read from the host; collection, merge paths, mergeable_prs, refs and '
                'outcome compared at every evaluation')
    n = (n_quick if ctx.tier == 'quick' else n_thorough) * ctx.scale
    base = common.scratch()
    use_model = ctx.model is not None
    with Pool(common.NCPU) as pool:
        outs = pool.map(_work, [(ctx.seed, i, use_model, base) for i in range(n)], chunksize=1)
    errors = [o for o in outs if 'error' in o]
    if errors:
        raise RuntimeError('selectsys harness failed on %d histories; first: %s' % (len(errors), errors[0]['error']))
    keys = ORACLE_KEYS.get(pid, ())
    for o in outs:
        res.evaluations += 1
        res.model_compared += o['compared']
        for k, v in o['stats'].items():
            res.count('sel:' + k, v)
        if o['evals']:
            res.distinct.add(json.dumps([o['cfg'], o['events']], sort_keys=True, default=str))
        if o['disagreement']:
            res.disagreements.append({'input': {'cfg': o['cfg'], 'events': o['events'], 'phase': 'selectsys'},
                                      'real': {'refs': o['disagreement'].get('real_refs'),
                                               'collection': o['disagreement'].get('real_collection')},
                                      'model': o['disagreement'].get('why'),
                                      'at': o['disagreement'].get('at'),
                                      'items': o['disagreement'].get('items')})
        for f in o['failures']:
            if f['key'] not in keys:
                continue
            f = dict(f)
            f['input'] = {'cfg': o['cfg'], 'events': o['events'][:f.get('at', len(o['events'])) + 1],
                          'phase': 'selectsys'}
            res.oracle_failures.append(f)
        if len(res.samples) < 2 and o['evals']:
            res.samples.append({'cfg': o['cfg'], 'events': o['events'][:8], 'evaluations': o['evals']})
    res.extra['selectsys_histories'] = n
    return res


def replay(ctx, pid, payload_input):
    """replay of a failing input of this phase"""
    cfgd = {k: v for k, v in payload_input['cfg'].items()}
    cfg = Config(cfgd.pop('dests'), **cfgd)
    out = play(cfg, payload_input['events'], ctx.model)
    res = Result()
    res.evaluations = 1
    keys = ORACLE_KEYS.get(pid, ())
    for f in out['failures']:
        if f['key'] in keys:
            f = dict(f)
            f['input'] = payload_input
            res.oracle_failures.append(f)
    if out['disagreement']:
        res.disagreements.append({'input': payload_input, 'model': out['disagreement'].get('why')})
    res.samples.append({'stats': out['stats']})
    return res


# ----------------------------------------------------------------------------- witness (not part of the checks)

def witness_equal_queue_commits(order='ba'):
    """Reproduces, on the real system, the case in which the real QueueCollection orders a queue differently from
    the order of entry: two pull requests whose source branches are on the same commit (more generally: the second
    one's changes are already contained in q/<version>, e.g. stacked pull requests), both on development/4.3 of a
    two-branch cascade. On 4.3 both `q/w/` tips are the same commit, so `finalize()`'s sort by inclusion is a tie
    decided by the alphabetical discovery order of the refs; on 5.1 the tips differ and the order is the order of
    entry. `order='ba'`: the pull request queued SECOND has the SMALLER id -> the two versions disagree ->
    `validate()` raises IncoherentQueues on every queue evaluation although every build is SUCCESSFUL (until an
    admin rebuilds the queues). `order='ab'`: ids in order of entry -> Merged.
    Returns (status of the queue evaluation, what `_process` saw)."""
    from .system import World, git
    _wrap_process()
    cfg = Config(['development/4.3', 'development/5.1'], [], use_queue=True, options=['bypass_jira_check'],
                 create_prs=False)
    w = World(cfg, common.scratch())
    try:
        names = {'a': 'feature/TEST-0001', 'b': 'feature/TEST-0002'}
        w.user_branch(names['a'], 'development/4.3')
        git(w.work, 'fetch', '-q', 'origin')
        git(w.work, 'push', '-q', 'origin', 'origin/%s:refs/heads/%s' % (names['a'], names['b']))
        ids = {k: w.open_pr(names[k], 'development/4.3', create_branch=False) for k in order}
        for k in 'ab':          # A enters the queue first, then B
            for _ in range(3):
                for n, s in w.refs().items():
                    if n == names[k] or (n.startswith('w/') and n.endswith(names[k])):
                        w.set_build(s, 'SUCCESSFUL')
                if w.eval_pr(ids[k]) == 'Queued':
                    break
        refs = w.refs()
        for n, s in refs.items():
            if n.startswith('q/w/'):
                w.set_build(s, 'SUCCESSFUL')
        del _RECORDS[:]
        status = w.eval_commit(refs['q/5.1'])
        return status, list(_RECORDS), ids
    finally:
        w.close()


if __name__ == '__main__':
    import sys
    if sys.argv[1:2] == ['witness']:
        for o in ('ab', 'ba'):
            print(o, witness_equal_queue_commits(o))
