"""Common body of the history-level checks (C01, C03, C08, ...): run seeded histories on the real
system in parallel, compare every event with the Lean system model, evaluate the property's
oracles on every real observation."""
import json
import os
from multiprocessing import Pool

from . import common
from .pipeline import Result

_ORACLES = {}


def _work(args):
    pid, seed, i, mode_filter, length, use_model, base = args
    from .histories import gen_config, gen_history, play
    from . import common as c
    import importlib
    mod = importlib.import_module('harness.' + pid.lower())
    rng = c.rng_for(seed, pid if getattr(mod, 'OWN_STREAM', False) else 'hist', i)
    if hasattr(mod, 'GEN'):
        cfg, mode, evs = mod.GEN(rng)
    else:
        cfg, mode = gen_config(rng, mode_filter)
        evs = gen_history(rng, cfg, length)
    model = c.Model() if use_model else None
    try:
        out = play(cfg, evs, model, oracles=mod.ORACLES, base_dir=base)
    except Exception as e:      # harness failure on this history
        import traceback
        return {'i': i, 'cfg': cfg.as_dict(), 'events': evs, 'error': traceback.format_exc()[-2000:]}
    return {'i': i, 'mode': mode, 'cfg': cfg.as_dict(), 'events': evs, 'stats': out['stats'],
            'disagreement': out['disagreement'], 'failures': out['failures'],
            'compared': out['compared'], 'items': out.get('items'),
            'statuses': [r['status'] for r in out['trace'] if r['status']]}


def replay_corpus(pid, use_model, base):
    """corpus/<pid>/*.json: {'cfg': ..., 'events': [...]} histories replayed first"""
    from .histories import play
    from .system import Config
    import importlib
    mod = importlib.import_module('harness.' + pid.lower())
    outs = []
    d = os.path.join(common.CORPUS_DIR, pid)
    if not os.path.isdir(d):
        return outs
    for fn in sorted(os.listdir(d)):
        if not fn.endswith('.json'):
            continue
        with open(os.path.join(d, fn)) as fh:
            h = json.load(fh)
        cfgd = dict(h['cfg'])
        cfg = Config(cfgd.pop('dests'), **cfgd)
        out = play(cfg, h['events'], common.Model() if use_model else None, oracles=mod.ORACLES, base_dir=base)
        outs.append({'i': 'corpus:' + fn, 'cfg': cfg.as_dict(), 'events': h['events'], 'stats': out['stats'],
                     'disagreement': out['disagreement'], 'failures': out['failures'],
                     'compared': out['compared'], 'statuses': []})
    return outs


def run_histories(ctx, pid, n_quick, n_thorough, rule, mode_filter=None, length=None):
    res = Result()
    res.rule = rule
    n = (n_quick if ctx.tier == 'quick' else n_thorough) * ctx.scale
    base = common.scratch()
    use_model = ctx.model is not None
    outs = replay_corpus(pid, use_model, base)
    with Pool(common.NCPU) as pool:
        outs += pool.map(_work, [(pid, ctx.seed, i, mode_filter, length, use_model, base) for i in range(n)],
                         chunksize=1)
    errors = [o for o in outs if 'error' in o]
    if errors:
        raise RuntimeError('history harness failed on %d histories; first: %s' % (len(errors), errors[0]['error']))
    for o in outs:
        res.evaluations += 1
        res.model_compared += o['compared']
        for k, v in o['stats'].items():
            res.count(k, v)
        res.count('mode:%s' % o.get('mode'))
        # distinct non-trivial: a history in which Bert-E moved a destination branch or queued something
        sts = o.get('statuses', [])
        if any(s in ('Queued', 'Merged', 'SuccessMessage', 'JobSuccess', 'PullRequestDeclined', 'ResetComplete',
                     'Conflict', 'QueueConflict') for s in sts):
            res.distinct.add(json.dumps([o['cfg'], o['events']], sort_keys=True, default=str))
        if o['disagreement']:
            res.disagreements.append({'input': {'cfg': o['cfg'], 'events': o['events']},
                                      'real': o['disagreement'].get('real_refs'),
                                      'model': o['disagreement'].get('why'),
                                      'at': o['disagreement'].get('at'),
                                      'items': o['disagreement'].get('items')})
        for f in o['failures']:
            f = dict(f)
            f['input'] = {'cfg': o['cfg'], 'events': o['events'][:f.get('at', len(o['events'])) + 1]}
            res.oracle_failures.append(f)
        if len(res.samples) < 3 and sts:
            res.samples.append({'cfg': o['cfg'], 'events': o['events'][:6], 'statuses': sts[:8]})
    res.extra['events_compared_with_model'] = res.model_compared
    return res


def replay_history(ctx, pid, payload):
    from .histories import play
    from .system import Config
    import importlib
    mod = importlib.import_module('harness.' + pid.lower())
    inp = payload['failure']['input'] if 'failure' in payload else payload['input']
    cfgd = dict(inp['cfg'])
    cfg = Config(cfgd.pop('dests'), **cfgd)
    out = play(cfg, inp['events'], ctx.model, oracles=mod.ORACLES)
    res = Result()
    res.evaluations = 1
    for f in out['failures']:
        f = dict(f)
        f['input'] = inp
        res.oracle_failures.append(f)
    if out['disagreement']:
        res.disagreements.append({'input': inp, 'model': out['disagreement'].get('why')})
    res.samples.append({'statuses': [r['status'] for r in out['trace']]})
    return res
