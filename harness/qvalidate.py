"""QValidate - tie between the Lean model of `QueueCollection.validate()` + the queue merge (`merge_queues`)
and the real classes, on CORRUPTED queue states.

Well-formed queues are built as `add_to_queue` builds them (harness/c05_cases.Case) and then corrupted
(refs dropped / moved / swapped, destinations advanced behind the queue's back, foreign queue refs, interrupted
enqueue, partially performed merges, ...).  On every state the REAL `BranchCascade`, `QueueCollection`
(build, finalize, validate, mergeable_prs, mergeable_queues) and the REAL `queueing.merge_queues` run over the
in-memory commit graph of harness/fakegit.py (extended here by `git merge` / `git branch -D`).

  * property oracle (C01 inclusion + C02 no-op on error): a state that `validate()` accepts must merge by
    fast-forwards only and keep the inclusion of the destination branches; a state that it rejects is not touched;
    an uncorrupted state is accepted;
  * model comparison: one line `QV <graph> <refs> <sel>` per (state, selection), answer compared key by key with
    the canonical string built from the real observation (`real_answer`).

API: phase(ctx, pid) -> Result ; replay_state(payload) -> observation."""
import functools
import glob
import hashlib
import itertools
import json
import logging
import os
import re
import time
import warnings
from multiprocessing import get_context

from . import common
from .pipeline import Result

warnings.filterwarnings('ignore')
logging.disable(logging.CRITICAL)

from . import c05_cases as cc  # noqa: E402
from .fakegit import FakeRepo, Graph  # noqa: E402

from bert_e.lib.simplecmd import CommandError  # noqa: E402

# --------------------------------------------------------------------------- sizes
CORPUS = 'QValidate'
# quick: of the single corruptions of a family that nearly always end in a rejection only 1-in-k is run (the residue
# is chosen by the seed and rotates with the case, so that every position is met on some case); thorough: all of them
SHARD_QUICK = {'move': 24, 'move-inner': 8, 'head-move': 24, 'half-inconsistent': 8, 'foreign': 8, 'advance-merged': 8,
               'dest-to-queue-other': 4, 'drop': 2}
SHARD_THOROUGH = {}
PLAUSIBLE_SHARD_QUICK = {'dest-to-queue-other': 4, 'advance': 2, 'foreign-coherent': 2}
PLAUSIBLE_SHARD_THOROUGH = {}
STALE_SHARD_QUICK = 4         # quick: the stale variant (every q/<version> present) of 1-in-k of the 2-PR queues
THREE_SHARD_QUICK = 4         # 1-in-k of the 3-PR queues get the plausible-looking single corruptions
THREE_SHARD_THOROUGH = 1
DOUBLE_JOBS_QUICK = 650       # random double corruptions: jobs x DOUBLE_PER_JOB states (x ctx.scale)
DOUBLE_JOBS_THOROUGH = 20000
DOUBLE_PER_JOB = 24
BATCH_JOBS = 4000             # jobs per pool round; the lines of one round go to the model in ONE ask_parallel
HALF_ALL_SUBSETS_UPTO = 3     # interrupted enqueue: every subset for <= 3 targets, a seeded sample of 64 beyond
P_FORCE = 0.25                # share of accepted states also evaluated with force_merge=True
MAX_REPORTED = 40
KEY_BREAK = 'qv-validated-merge-breaks-inclusion'
KEY_REJECT = 'qv-wellformed-rejected'
KEY_TOUCHED = 'qv-rejected-queues-touched'

SHAPES = cc.shapes()
DEST_PREFIXES = ('development/', 'stabilization/', 'hotfix/')


def is_dest(name):
    return name.startswith(DEST_PREFIXES)


# --------------------------------------------------------------------------- the repository behind merge_queues

class MergeRepo(FakeRepo):
    """FakeRepo + what `Branch.merge` / `Branch.remove` issue: `git merge --no-edit 'src'...` on the checked-out
    branch and `git branch -D name`."""

    def __init__(self, graph, refs, tags=()):
        super().__init__(graph, refs, tags)
        self.merges = []          # (kind, destination, source name) kind in ff / uptodate / merge
        self.deleted = []

    def cmd(self, command, *args, **kwargs):
        full = command % tuple(str(a) for a in args) if args else command
        words = full.split()
        if words[:2] == ['git', 'merge']:
            flags = [w for w in words[2:] if w.startswith('--')]
            srcs = [w.strip("'") for w in words[2:] if not w.startswith('--')]
            dst = self.checked_out
            if dst is None or dst not in self.refs or not srcs:
                raise CommandError('merge: nothing checked out')
            tip = self.refs[dst]
            tips = [self._resolve(s) for s in srcs]          # CommandError when unknown
            if len(tips) == 1 and '--no-ff' not in flags and self.g.le(tip, tips[0]):
                kind = 'uptodate' if tips[0] == tip else 'ff'
                self.refs[dst] = tips[0]
            elif all(self.g.le(t, tip) for t in tips):
                kind = 'uptodate'
            else:
                kind = 'merge'
                self.refs[dst] = self.g.commit(tip, *tips)
            self.merges.append((kind, dst, ' '.join(srcs)))
            return ''
        if words[:3] == ['git', 'branch', '-D']:
            name = words[3].strip("'")
            if name not in self.refs:
                raise CommandError("branch '%s' not found" % name)
            if name == self.checked_out:
                raise CommandError("cannot delete the checked-out branch '%s'" % name)
            del self.refs[name]
            self.deleted.append(name)
            return ''
        return super().cmd(command, *args, **kwargs)


class Host:
    """git host: every queue commit SUCCESSFUL except the listed ones."""

    def __init__(self, failed=()):
        self.failed = frozenset(failed)

    def get_build_status(self, sha_, key):
        return 'FAILED' if (int(sha_, 16) - 1) in self.failed else 'SUCCESSFUL'


_QERR = None


def queue_error_names(exc):
    """ordered class names of the errors an IncoherentQueues was built from (it keeps only their codes, in the
    order validate() appended them)"""
    global _QERR
    if _QERR is None:
        from bert_e import exceptions as ex
        _QERR = {c.code: c.__name__ for c in vars(ex).values()
                 if isinstance(c, type) and issubclass(c, ex.QueueValidationError)}
    return [_QERR.get(code, code) for code in re.findall(r'^ - \[([^\]]*)\]', str(exc.args[0]), re.M)]


def dest_of_version(version):
    if len(version) == 2:
        return 'development/%d' % version[0] if version[1] is None else 'development/%d.%d' % version
    if len(version) == 3:
        return 'stabilization/%d.%d.%d' % version
    return 'hotfix/%d.%d.%d' % version[:3]


def eval_queues(repo, host, force, rec):
    """Exactly what `handle_merge_queues` does between the clone and the push, minus the host notifications;
    `rec` receives what the collection holds on the way."""
    from bert_e.workflow.gitwaterflow.branches import (BranchCascade, QueueCollection, QueueBranch,
                                                       QueueIntegrationBranch)
    from bert_e.workflow.gitwaterflow.queueing import merge_queues
    rec['stage'] = 'cascade'
    cascade = BranchCascade()
    cascade.build(repo)
    paths = cascade.get_merge_paths()
    rec['paths'] = [[b.name for b in p] for p in paths]
    rec['stage'] = 'build'
    queues = QueueCollection(host, 'pre-merge', paths, force)
    queues.build(repo)
    coll = []
    for version, entry in queues._queues.items():
        master = entry[QueueBranch]
        coll.append([master.dst_branch.name if master else dest_of_version(version), 1 if master else 0,
                     [[b.pr_id, repo.refs[b.name]] for b in entry[QueueIntegrationBranch]]])
    rec['coll'] = coll
    rec['stage'] = 'validate'
    queues.validate()
    rec['stage'] = 'select'
    rec['sel'] = list(queues.mergeable_prs)
    if not queues.mergeable_prs:
        rec['stage'] = 'done'
        return                      # NothingToDo / QueueBuildFailed
    rec['stage'] = 'merge'
    merge_queues(queues.mergeable_queues)
    rec['stage'] = 'done'


# --------------------------------------------------------------------------- states

class State:
    """A repository state: commit graph (ancestor sets), refs, tags + where it comes from."""
    __slots__ = ('shape', 'dsts', 'stale', 'anc', 'refs', 'tags', 'corr', '_gs', '_rs')

    def __init__(self, shape, dsts, stale, anc, refs, tags, corr=()):
        self.shape, self.dsts, self.stale = shape, tuple(dsts), bool(stale)
        self.anc, self.refs, self.tags, self.corr = anc, refs, list(tags), tuple(corr)
        self._gs = self._rs = None

    def graph(self):
        g = Graph()
        g.anc = list(self.anc)
        return g

    def size(self):
        return len(self.anc) + len(self.refs)


@functools.lru_cache(maxsize=4096)
def _case(shape, dsts, stale):
    return cc.Case(shape, dsts, stale=stale)


def base_state(shape, dsts, stale):
    c = _case(shape, tuple(dsts), bool(stale))
    return State(shape, dsts, stale, c.g.anc, dict(c.refs), c.tags)


class Info:
    """what the structure-aware corruptions need to know about the well-formed queue below a state"""

    def __init__(self, shape, dsts, stale):
        c = _case(shape, tuple(dsts), bool(stale))
        self.targets = {i + 1: cc.targets_of(shape, d) for i, d in enumerate(dsts)}
        self.commit_of = dict(c.commit_of)
        self.prev_q = {}
        if dsts:
            before = _case(shape, tuple(dsts[:-1]), bool(stale)).refs
            for t in self.targets[len(dsts)]:
                q = 'q/' + cc.version_of(t)
                self.prev_q[q] = before.get(q)
        self.versions = {cc.version_of(d): d for d in cc.dest_names(shape)}


@functools.lru_cache(maxsize=4096)
def _info(shape, dsts, stale):
    return Info(shape, dsts, stale)


class Op:
    """one corruption: new commits (tuples of parents, numbered from len(anc) on), refs set, refs deleted"""
    __slots__ = ('kind', 'detail', 'new', 'sets', 'dels')

    def __init__(self, kind, detail, new=(), sets=None, dels=()):
        self.kind, self.detail, self.new, self.sets, self.dels = kind, detail, tuple(new), sets or {}, tuple(dels)

    def describe(self):
        return {'kind': self.kind, 'what': self.detail, 'new_commits': [list(p) for p in self.new],
                'set': dict(self.sets), 'delete': list(self.dels)}


def apply_op(st, op):
    anc = st.anc
    if op.new:
        anc = list(anc)
        for parents in op.new:
            s = {len(anc)}
            for p in parents:
                s |= anc[p]
            anc.append(frozenset(s))
    refs = dict(st.refs)
    for n in op.dels:
        refs.pop(n, None)
    refs.update(op.sets)
    return State(st.shape, st.dsts, st.stale, anc, refs, st.tags, st.corr + (op.describe(),))


def qw_parts(name):
    """q/w/<pr>/<version>/<src> -> (pr, version, src)"""
    _, _, pr, v, src = name.split('/', 4)
    return int(pr), v, src


def queue_commits(st):
    return sorted({c for n, c in st.refs.items() if n.startswith('q/')})


# ---- the corruption families: each yields every instance on the given state

def fam_drop(st, info):
    for n in sorted(st.refs):
        if n.startswith('q/w/'):
            yield Op('drop-qw', n, dels=[n])
        elif n.startswith('q/'):
            yield Op('drop-q', n, dels=[n])


def _rel(anc, cur, x):
    return 'older' if x in anc[cur] else 'newer' if cur in anc[x] else 'sibling'


def _move(st, info, inner):
    anc = st.anc
    tips = {c for n, c in st.refs.items() if n.startswith('q/') and not n.startswith('q/w/')}
    for name in sorted(st.refs):
        if not name.startswith('q/'):
            continue
        cur = st.refs[name]
        if (name.startswith('q/w/') and cur not in tips) != inner:
            continue
        for x in range(len(anc)):
            if x != cur:
                yield Op('move-' + _rel(anc, cur, x), '%s->%d' % (name, x), sets={name: x})


def fam_move(st, info):
    """one q/<v> ref, or one q/w ref standing on the tip of a queue, moved to another existing commit"""
    return _move(st, info, False)


def fam_move_inner(st, info):
    """one q/w ref that is NOT the newest entry of its queue moved to another existing commit (only the
    inclusion checks of validate() look at those)"""
    return _move(st, info, True)


def _heads(st):
    """(q/<v>, its q/w refs at the same commit) per version that has both"""
    for q in sorted(st.refs):
        if q.startswith('q/') and not q.startswith('q/w/'):
            v = q[2:]
            same = [n for n in sorted(st.refs) if n.startswith('q/w/') and qw_parts(n)[1] == v
                    and st.refs[n] == st.refs[q]]
            if same:
                yield q, same


def fam_head_move(st, info):
    """the head of one version's queue (q/<v> AND its newest q/w ref) moved together to another commit"""
    anc = st.anc
    for q, same in _heads(st):
        cur = st.refs[q]
        for x in range(len(anc)):
            if x != cur:
                yield Op('move-head-' + _rel(anc, cur, x), '%s+%s->%d' % (q, same[0], x),
                         sets={q: x, same[0]: x})


def fam_head_advance(st, info):
    """a commit pushed on top of the head of one version's queue (q/<v> and its newest q/w ref follow)"""
    n = len(st.anc)
    for q, same in _heads(st):
        yield Op('head-advance', '%s+%s' % (q, same[0]), new=[(st.refs[q],)], sets={q: n, same[0]: n})


def fam_advance(st, info):
    """a commit pushed on a destination branch behind the queue's back"""
    n = len(st.anc)
    for d in sorted(st.refs):
        if is_dest(d):
            yield Op('advance-dest', d, new=[(st.refs[d],)], sets={d: n})


def fam_advance_merged(st, info):
    """... that commit being a merge of the destination with some queue commit"""
    n = len(st.anc)
    qcs = queue_commits(st)
    for d in sorted(st.refs):
        if not is_dest(d):
            continue
        tip = st.refs[d]
        for c in qcs:
            if c not in st.anc[tip]:
                yield Op('advance-dest-merged', '%s with %d' % (d, c), new=[(tip, c)], sets={d: n})


def _dest_to_queue(st, info, want_own):
    qcs = queue_commits(st)
    for d in sorted(st.refs):
        if not is_dest(d):
            continue
        tip = st.refs[d]
        v = cc.version_of(d)
        own = {c for n, c in st.refs.items()
               if n == 'q/%s' % v or (n.startswith('q/w/') and qw_parts(n)[1] == v)}
        for c in qcs:
            if c != tip and tip in st.anc[c] and (c in own) == want_own:
                yield Op('dest-to-queue-commit' if want_own else 'dest-to-queue-commit-other',
                         '%s->%d' % (d, c), sets={d: c})


def fam_dest_to_queue(st, info):
    """a destination moved forward onto a queue commit of its own version, as a previous partial merge would"""
    return _dest_to_queue(st, info, True)


def fam_dest_to_queue_other(st, info):
    """... onto a queue commit of another version that contains its tip"""
    return _dest_to_queue(st, info, False)


def fam_merged_upto(st, info):
    """the destinations of the highest k >= 2 versions of one pull request already stand on its queue commits
    (a merge that was pushed but not cleaned up / pushed for the upper versions only)"""
    for pr, targets in sorted(info.targets.items()):
        for k in range(len(targets) - 1):
            sets = {}
            for t in targets[k:]:
                c = info.commit_of[(pr, t)]
                if t in st.refs and st.refs[t] != c and st.refs[t] in st.anc[c]:
                    sets[t] = c
            if len(sets) >= 2:
                yield Op('dest-merged-upto', 'pr%d from %s' % (pr, targets[k]), sets=sets)


def fam_foreign(st, info):
    n = len(st.anc)
    prs = sorted(info.targets)
    last_dev = [d for d in cc.dest_names(st.shape) if d.startswith('development/')][-1]
    cands = [(7, 'feature/TEST-0007')]
    if prs:
        cands.append((prs[-1], 'feature/TEST-%04d' % prs[-1]))
    versions = list(info.versions) + ['7.7', '10']
    for v in versions:
        d = info.versions.get(v)
        q = 'q/' + v
        here = sorted({c for nm, c in st.refs.items() if nm.startswith('q/w/') and qw_parts(nm)[1] == v})
        if d:
            places = [('dest', st.refs[d])] + ([('q', st.refs[q])] if q in st.refs else []) + \
                     [('qw', c) for c in here] + [('lastq', st.refs.get('q/' + cc.version_of(last_dev)))]
        else:
            places = [('lastdev', st.refs[last_dev]), ('lastq', st.refs.get('q/' + cc.version_of(last_dev)))]
        seen = set()
        for pr, src in cands:
            name = 'q/w/%d/%s/%s' % (pr, v, src)
            if name in st.refs:
                name = 'q/w/%d/%s/feature/TEST-0007' % (pr, v)
                if name in st.refs:
                    continue
            for what, c in places:
                if c is None or (pr, c) in seen:
                    continue
                seen.add((pr, c))
                yield Op('foreign-qw', '%s at %s %d' % (name, what, c), sets={name: c})
            top = st.refs.get(q, st.refs.get(d) if d else None)
            if top is not None:
                yield Op('foreign-qw', '%s on top of %d' % (name, top), new=[(top,)], sets={name: n})
    # q/<version> that should not be there
    extra = ['7.7', '10']
    if not any(x.startswith('stabilization/') for x in st.refs):
        extra.append('%d.%d.5' % st.shape[0][0])
    if not any(x.startswith('hotfix/') for x in st.refs):
        extra.append('4.2.17.1')
    for v in list(info.versions) + extra:
        q = 'q/' + v
        if q in st.refs:
            continue
        d = info.versions.get(v)
        places = ([('dest', st.refs[d])] if d else []) + [('lastdev', st.refs[last_dev]), ('root', 0)] + \
                 [('queue', c) for c in queue_commits(st)[-2:]]
        seen = set()
        for what, c in places:
            if c not in seen:
                seen.add(c)
                yield Op('foreign-q', '%s at %s %d' % (q, what, c), sets={q: c})


def fam_swap(st, info):
    by_v = {}
    for nm in sorted(st.refs):
        if nm.startswith('q/w/'):
            by_v.setdefault(qw_parts(nm)[1], []).append(nm)
    for v, names in sorted(by_v.items()):
        for a, b in itertools.combinations(names, 2):
            if st.refs[a] != st.refs[b]:
                yield Op('swap', '%s<->%s' % (a, b), sets={a: st.refs[b], b: st.refs[a]})


def _half(st, info, want):
    """interrupted add_to_queue of the LAST pull request: a subset of what its push wrote is missing.
    want: 'consistent' (the lowest j versions entirely: ref deleted and q/ reset), 'inconsistent', 'all'"""
    if not st.dsts:
        return
    pr = len(st.dsts)
    targets = info.targets[pr]
    items = []
    for t in targets:
        v = cc.version_of(t)
        items.append(('qw', 'q/w/%d/%s/feature/TEST-%04d' % (pr, v, pr), None))
        items.append(('q', 'q/' + v, info.prev_q['q/' + v]))
    k = len(targets)
    masks = range(1, 1 << len(items))
    if k > HALF_ALL_SUBSETS_UPTO and want != 'consistent':
        rng = common.rng_for(_SEED, 'QV', 'half', st.shape, st.dsts, st.stale)
        masks = sorted(set(rng.sample(range(1, 1 << len(items)), 64)) | {(1 << 2 * j) - 1 for j in range(1, k + 1)})
    for mask in masks:
        chosen = [i for i in range(len(items)) if mask >> i & 1]
        j = len(chosen) // 2
        consistent = chosen == list(range(2 * j)) and len(chosen) % 2 == 0
        if (want == 'consistent' and not consistent) or (want == 'inconsistent' and consistent):
            continue
        if consistent and j == k:
            kind = 'consistent-drop-pr'
        elif consistent:
            older_there = info.prev_q['q/' + cc.version_of(targets[0])] not in (None, _case(
                st.shape, st.dsts[:-1], st.stale).refs[targets[0]])
            kind = 'retarget' if (j == 1 and older_there) else 'consistent-drop-lowest'
        else:
            kind = 'half-enqueue'
        sets, dels = {}, []
        for i in chosen:
            what, name, prev = items[i]
            if what == 'qw' or prev is None:
                dels.append(name)
            else:
                sets[name] = prev
        yield Op(kind, 'pr%d without %s' % (pr, ' '.join(items[i][1] for i in chosen)), sets=sets, dels=dels)


def fam_half(st, info):
    return _half(st, info, 'all')


def fam_half_consistent(st, info):
    return _half(st, info, 'consistent')


def fam_half_inconsistent(st, info):
    return _half(st, info, 'inconsistent')


def fam_foreign_coherent(st, info):
    """the foreign refs that have a chance to look coherent: a stale q/<version> on its destination, a second
    q/w ref on a commit where one already is, or on the head of the greatest version"""
    for op in fam_foreign(st, info):
        if (op.kind == 'foreign-q' and ' at dest ' in op.detail) or \
                (op.kind == 'foreign-qw' and (' at qw ' in op.detail or ' at q ' in op.detail)):
            yield op


def fam_coherent(st, info):
    """the instances that keep the queues coherent-looking: the newest pull request consistently absent from its
    lowest versions (or altogether), a commit on top of the head of the greatest version, a stale q/<version> on
    its destination, a destination standing on the OLDEST queue commit of its version, the first pull request
    merged and not cleaned up"""
    yield from fam_half_consistent(st, info)
    last_dev = [d for d in cc.dest_names(st.shape) if d.startswith('development/')][-1]
    for op in fam_head_advance(st, info):
        if op.detail.startswith('q/%s+' % cc.version_of(last_dev)):
            yield op
    for op in fam_foreign(st, info):
        if op.kind == 'foreign-q' and ' at dest ' in op.detail:
            yield op
    for d in sorted(st.refs):
        if is_dest(d):
            v = cc.version_of(d)
            own = sorted(c for n, c in st.refs.items() if n.startswith('q/w/') and qw_parts(n)[1] == v
                         and c != st.refs[d] and st.refs[d] in st.anc[c])
            if own:
                yield Op('dest-to-queue-commit', '%s->%d' % (d, own[0]), sets={d: own[0]})
    for op in fam_merged_upto(st, info):
        if op.detail.startswith('pr1 '):
            yield op


FAMILIES = {
    'drop': fam_drop, 'move': fam_move, 'move-inner': fam_move_inner, 'head-move': fam_head_move, 'head-advance': fam_head_advance,
    'advance': fam_advance, 'advance-merged': fam_advance_merged, 'dest-to-queue': fam_dest_to_queue,
    'dest-to-queue-other': fam_dest_to_queue_other,
    'merged-upto': fam_merged_upto, 'foreign': fam_foreign, 'foreign-coherent': fam_foreign_coherent,
    'swap': fam_swap, 'half': fam_half, 'half-consistent': fam_half_consistent,
    'half-inconsistent': fam_half_inconsistent, 'coherent': fam_coherent,
}
# every single corruption of the queues with <= 2 pull requests (some families sharded in the quick tier)
SINGLE = ['half-consistent', 'half-inconsistent', 'drop', 'swap', 'advance', 'advance-merged', 'dest-to-queue',
          'dest-to-queue-other', 'merged-upto', 'head-advance', 'foreign', 'move', 'move-inner', 'head-move']
# the plausible-looking ones, also on 3-PR queues
SINGLE_PLAUSIBLE = ['half-consistent', 'dest-to-queue', 'dest-to-queue-other', 'merged-upto', 'head-advance', 'advance',
                    'foreign-coherent']
# second-order corruptions: the plausible-looking families more often than the ones that nearly always fail
DOUBLE_WEIGHTS = [('coherent', 22), ('half-consistent', 3), ('dest-to-queue', 4), ('merged-upto', 3),
                  ('head-advance', 4), ('advance', 2), ('foreign-coherent', 3), ('foreign', 1), ('half-inconsistent', 1),
                  ('drop', 1), ('move', 1), ('move-inner', 1), ('head-move', 1), ('swap', 1), ('advance-merged', 1),
                  ('dest-to-queue-other', 1)]


# --------------------------------------------------------------------------- observation

def observe(st, failed=(), force=False):
    """Run the real classes on the state. Returns the canonical observation (JSON-able)."""
    g = st.graph()
    n0 = len(g.anc)
    repo = MergeRepo(g, st.refs, st.tags)
    rec = {}
    obs = {'cascade': 'ok', 'paths': None, 'coll': None, 'errs': None, 'sel': [], 'exc': None,
           'failed': sorted(failed), 'force': bool(force)}
    try:
        eval_queues(repo, Host(failed), force, rec)
    except Exception as e:        # noqa: every exception of the real code is an observation
        stage = rec.get('stage')
        name = type(e).__name__
        if stage == 'cascade':
            obs['cascade'] = name
        elif stage == 'validate':
            obs['errs'] = queue_error_names(e) if name == 'IncoherentQueues' else '!' + name
        else:
            obs['exc'] = '%s:%s' % (stage, name)
    obs['paths'] = rec.get('paths')
    obs['coll'] = rec.get('coll')
    obs['sel'] = rec.get('sel', [])
    obs['dests_after'] = {n: (c if c < n0 else 'new') for n, c in sorted(repo.refs.items()) if is_dest(n)}
    obs['gone'] = sorted(repo.deleted)
    obs['merges'] = [list(m) for m in repo.merges]
    obs['created'] = len(g.anc) - n0
    obs['changed'] = sorted(n for n in set(repo.refs) | set(st.refs) if repo.refs.get(n) != st.refs.get(n))
    obs['_after'] = (g, dict(repo.refs))
    return obs


def accepted(obs):
    return obs['cascade'] == 'ok' and obs['errs'] is None and (obs['exc'] is None or
                                                               not obs['exc'].startswith('build'))


# --------------------------------------------------------------------------- the property, in its own words

def _dev_key(name):
    parts = name.split('/')[1].split('.')
    return (int(parts[0]), float('inf') if len(parts) == 1 else int(parts[1]))


def inclusion_breaks(le, tips):
    """pairs (a, b) of destination branches where a must be included in b and is not.
    development branches by (major, minor), `development/M` after every `development/M.*`;
    stabilization/M.m.u below every development branch from M.m on; hotfix branches are free."""
    devs = sorted((n for n in tips if n.startswith('development/')), key=_dev_key)
    bad = []
    for i, a in enumerate(devs):
        for b in devs[i + 1:]:
            if not le(tips[a], tips[b]):
                bad.append([a, b])
    for s in sorted(n for n in tips if n.startswith('stabilization/')):
        M, m = (int(x) for x in s.split('/')[1].split('.')[:2])
        for b in devs:
            if _dev_key(b) >= (M, m) and not le(tips[s], tips[b]):
                bad.append([s, b])
    return bad


def cascade_ok(tips):
    devs = {n for n in tips if n.startswith('development/')}
    for s in tips:
        if s.startswith('stabilization/'):
            M, m = s.split('/')[1].split('.')[:2]
            if 'development/%s.%s' % (M, m) not in devs:
                return False
    return True


def oracle(st, obs):
    """(verdict, failure-or-None); verdict is a distribution key"""
    before = {n: c for n, c in st.refs.items() if is_dest(n)}
    g_after, refs_after = obs['_after']
    if not st.corr and not accepted(obs):
        return 'wellformed-rejected', {'key': KEY_REJECT,
                                       'what': 'queues built as add_to_queue builds them are rejected: %s'
                                               % (obs['errs'] or obs['exc'] or obs['cascade'])}
    if not accepted(obs):
        if obs['changed'] or obs['created']:
            return 'rejected-touched', {'key': KEY_TOUCHED, 'what': 'the evaluation raised %s and yet changed %s'
                                        % (obs['errs'] or obs['exc'] or obs['cascade'], obs['changed'])}
        return 'rejected-untouched', None
    if not cascade_ok(before):
        return 'skipped:cascade-not-ok', None
    le0 = st.graph().le
    if inclusion_breaks(le0, before):
        return 'skipped:incl-broken-before', None
    after = {n: c for n, c in refs_after.items() if is_dest(n)}
    why = None
    if obs['exc']:
        why = 'the evaluation of validated queues raised %s' % obs['exc']
    if why is None and set(after) != set(before):
        why = 'destination branches %s disappeared' % sorted(set(before) - set(after))
    if why is None:
        for n in sorted(before):
            if not g_after.le(before[n], after[n]):
                why = '%s moved from %d to a commit that does not contain it' % (n, before[n])
                break
    if why is None:
        notff = [m for m in obs['merges'] if m[0] == 'merge']
        if notff or obs['created']:
            why = 'the merge of %s into %s is not a fast-forward (a commit was created)' % (notff[0][2], notff[0][1]) \
                if notff else 'commits were created'
    if why is None:
        bad = inclusion_breaks(g_after.le, after)
        if bad:
            why = 'after the merge %s is not included in %s' % (bad[0][0], bad[0][1])
    if why:
        return 'validated-merge-breaks', {'key': KEY_BREAK, 'what': why}
    return 'validated-merge-ok', None


# --------------------------------------------------------------------------- encoding

def encode_line(st, sel):
    if st._gs is None:
        st._gs = ';'.join(','.join(str(x) for x in sorted(a)) for a in st.anc)
        st._rs = ','.join('%s:%d' % (n, c) for n, c in sorted(st.refs.items()))
    return 'QV %s %s %s' % (st._gs, st._rs, ','.join(str(p) for p in sel) or '-')


KEYS = ['cascade', 'paths', 'coll', 'errs', 'dests', 'gone']


def real_answer(obs):
    """the canonical answer line, from the real observation"""
    if obs['cascade'] != 'ok':
        return 'cascade=%s' % obs['cascade']
    paths = '|'.join(','.join(p) or '~' for p in obs['paths'])
    if obs['coll'] is None:
        return 'cascade=ok paths=%s coll=!%s' % (paths, obs['exc'])
    coll = ';'.join('%s:%d:%s' % (d, m, ','.join('%d@%d' % (p, c) for p, c in ints) or '-')
                    for d, m, ints in obs['coll']) or '-'
    if obs['errs'] is not None:
        errs = obs['errs'] if isinstance(obs['errs'], str) else ','.join(obs['errs'])
        return 'cascade=ok paths=%s coll=%s errs=%s dests=unchanged gone=-' % (paths, coll, errs)
    if obs['exc']:
        dests = '!' + obs['exc']
    else:
        dests = ','.join('%s:%s' % (n, c) for n, c in sorted(obs['dests_after'].items())) or '-'
    gone = ','.join(n for n in obs['gone'] if n.startswith('q/w/')) or '-'
    return 'cascade=ok paths=%s coll=%s errs=- dests=%s gone=%s' % (paths, coll, dests, gone)


def parse_answer(ans):
    d = {}
    for part in ans.strip().split(' '):
        k, eq, v = part.partition('=')
        if eq:
            d[k] = v
    return d


def compare(real, model):
    """None when the model's answer says what the real observation says, else the first differing key"""
    r, m = parse_answer(real), parse_answer(model)
    for k in KEYS:
        if k not in r:
            break
        if r[k] != m.get(k):
            return k
    return None


def input_of(st, obs=None):
    return {'shape': [[list(k) for k in st.shape[0]], list(st.shape[1]), st.shape[2]],
            'dsts': list(st.dsts), 'stale': st.stale, 'corruption': list(st.corr),
            'refs': dict(sorted(st.refs.items())), 'graph': [sorted(a) for a in st.anc], 'tags': list(st.tags),
            'failed': list(obs['failed']) if obs else [], 'force': bool(obs['force']) if obs else False}


def state_of_input(inp):
    devs, stabs, hotfix = inp['shape']
    shape = (tuple(tuple(x) for x in devs), tuple(bool(x) for x in stabs), bool(hotfix))
    anc = [frozenset(a) for a in inp['graph']]
    return State(shape, tuple(inp['dsts']), bool(inp.get('stale')), anc, dict(inp['refs']),
                 inp.get('tags', []), tuple(inp.get('corruption', ())))


def public(obs):
    return {k: v for k, v in obs.items() if not k.startswith('_')}


# --------------------------------------------------------------------------- one state

def keep_smallest(failures, per_key):
    """[(size key, failure)] -> the `per_key` smallest of every fingerprint, smallest first"""
    out, seen, n = [], set(), {}
    for size, f in sorted(failures, key=lambda x: (x[0], json.dumps(x[1]['input'], sort_keys=True))):
        sig = json.dumps([f['key'], f['input']['refs'], f['input']['graph'], f['input']['failed'], f['input']['force']])
        if sig in seen or n.get(f['key'], 0) >= per_key:
            continue
        seen.add(sig)
        n[f['key']] = n.get(f['key'], 0) + 1
        out.append((size, f))
    return out



class Acc:
    def __init__(self):
        self.n = 0
        self.states = 0
        self.dist = {}
        self.distinct = set()
        self.failures = []
        self.samples = []
        self.records = []        # (line, real answer, size, source) for the model
        self.seen = set()
        self.cpu = 0.0

    def count(self, k, n=1):
        self.dist[k] = self.dist.get(k, 0) + n


KEEP_LINES = False


def kind_of(st):
    if not st.corr:
        return 'none'
    if len(st.corr) == 1:
        return st.corr[0]['kind']
    return 'double'


def _hash(s):
    return int.from_bytes(hashlib.blake2b(s.encode(), digest_size=8).digest(), 'big')


def run_state(st, acc, rng, variants=True):
    """every evaluation of one state: all builds green; the newest entries failed; a seeded failure pattern;
    sometimes force merge. Returns False when the state was seen before in this job."""
    sig = _hash(encode_line(st, ()))
    if sig in acc.seen:
        acc.count('qv:duplicate-in-job')
        return False
    acc.seen.add(sig)
    kind = kind_of(st)
    acc.states += 1
    acc.count('qv:kind:' + kind)
    if kind == 'double':
        for c in st.corr:
            acc.count('qv:kind:double/' + c['kind'])
    acc.count('qv:prs=%d' % len(st.dsts))
    obs = observe(st)
    ok = accepted(obs)
    acc.count('qv:pass' if ok else 'qv:fail')
    if ok:
        acc.count('qv:pass:' + kind)
        if kind == 'double':
            for c in st.corr:
                acc.count('qv:pass:double/' + c['kind'])
    elif isinstance(obs['errs'], list):
        for e in sorted(set(obs['errs'])):
            acc.count('qv:err:' + e)
        acc.count('qv:errors=%d' % min(len(obs['errs']), 6))
    else:
        acc.count('qv:err:' + str(obs['errs'] or obs['exc'] or obs['cascade']))
    if obs['coll']:
        anc = st.anc
        for _, _, ints in obs['coll']:
            for (_, x), (_, y) in zip(ints, ints[1:]):
                if x != y and x in anc[y]:
                    acc.count('qv:finalize:older-entry-first' + ('(accepted)' if ok else ''))
                elif y not in anc[x]:
                    acc.count('qv:finalize:incomparable-neighbours' + ('(accepted)' if ok else ''))
    todo = [obs]
    if ok and variants:
        qws = sorted({c for _, _, ints in obs['coll'] for _, c in ints})
        if qws:
            heads = sorted({ints[0][1] for _, _, ints in obs['coll'] if ints})
            if len({p for _, _, ints in obs['coll'] for p, _ in ints}) >= 2:
                todo.append(observe(st, heads, False))          # the newest entry of every version failed
            if not st.corr or rng.random() < 0.5:
                pat = [c for c in qws if rng.random() < 0.4]
                if pat and pat != heads:
                    todo.append(observe(st, pat, False))
            if rng.random() < P_FORCE:
                todo.append(observe(st, qws, True))
    lines = set()
    for o in todo:
        acc.n += 1
        verdict, fail = oracle(st, o)
        acc.count('qv:oracle:' + verdict)
        if accepted(o):
            acc.count('qv:selected=%d' % len(o['sel']))
            for m in o['merges']:
                acc.count('qv:merge:' + m[0])
            if o['force']:
                acc.count('qv:force')
        if fail:
            acc.count('qv:oracle-failure:' + fail['key'])
            fail = dict(fail, input=input_of(st, o), observation=public(o))
            acc.failures.append(((len(st.corr), st.size()), fail))
            acc.failures = keep_smallest(acc.failures, 4)
        line = encode_line(st, o['sel'] if accepted(o) else ())
        if line in lines:
            continue
        lines.add(line)
        acc.distinct.add(_hash(line))
        real = real_answer(o)
        if len(acc.samples) < 2 and st.corr and (acc.states % 97 == 1):
            acc.samples.append({'line': line, 'real': real, 'corruption': [c['kind'] + ' ' + c['what'] for c in st.corr]})
        if KEEP_LINES:
            acc.records.append((line, real, st.size(),
                                json.dumps([SHAPES.index(st.shape), st.dsts, st.stale, st.corr, o['failed'],
                                            o['force'], st.tags])))
    return True


# --------------------------------------------------------------------------- enumeration

def all_cases(nprs):
    return [(i, d) for i, sh in enumerate(SHAPES) for d in itertools.product(cc.dest_names(sh), repeat=nprs)]


_SEED = 0


def work(job):
    t = time.process_time()
    acc = _work(job)
    acc.cpu = time.process_time() - t
    acc.seen = None
    return acc


def _work(job):
    global _SEED
    mode, si, dsts, stale, param, seed = job
    _SEED = seed
    shape = SHAPES[si]
    acc = Acc()
    rng = common.rng_for(seed, 'QV', mode, si, dsts, stale, param)
    if mode == 'double':
        names = [n for n, _ in DOUBLE_WEIGHTS]
        weights = [w for _, w in DOUBLE_WEIGHTS]
        for _ in range(param):
            nprs = rng.choice([1, 2, 2, 3, 3])
            sh = SHAPES[rng.randrange(len(SHAPES))]
            d = tuple(rng.choice(cc.dest_names(sh)) for _ in range(nprs))
            stl = rng.random() < 0.3
            st = base_state(sh, d, stl)
            info = _info(sh, d, stl)
            for fam in rng.choices(names, weights, k=2):
                ops = list(FAMILIES[fam](st, info))
                if ops:
                    st = apply_op(st, ops[rng.randrange(len(ops))])
            if len(st.corr) == 2:
                run_state(st, acc, rng)
        return acc
    st0 = base_state(shape, dsts, stale)
    info = _info(shape, tuple(dsts), bool(stale))
    run_state(st0, acc, rng)
    shards, rot = param
    for fam in (SINGLE if mode == 'single' else SINGLE_PLAUSIBLE):
        k = shards.get(fam, 1)
        r = (shards.get('residue', 0) + rot) % k
        for i, op in enumerate(FAMILIES[fam](st0, info)):
            if i % k == r:
                run_state(apply_op(st0, op), acc, rng)
    return acc


def plan(ctx):
    thorough = ctx.tier == 'thorough'
    rng = common.rng_for(ctx.seed, 'QV', 'plan')
    note = {}
    jobs = []
    shards = dict(SHARD_THOROUGH if thorough else SHARD_QUICK)
    shards['residue'] = rng.randrange(720720)
    note['shards'] = {k: '1-in-%d' % v for k, v in shards.items() if k != 'residue'} or 'none (every single corruption)'
    ks = 1 if thorough else STALE_SHARD_QUICK
    rs = rng.randrange(ks)
    note['stale_2pr_shard'] = '%d/%d' % (rs, ks)
    rot = 0
    for n in (0, 1, 2):
        for i, (si, d) in enumerate(all_cases(n)):
            for stale in (False, True):
                if stale and n == 2 and i % ks != rs:
                    continue
                rot += 1
                jobs.append(('single', si, d, stale, (shards, rot), ctx.seed))
    k3 = THREE_SHARD_THOROUGH if thorough else THREE_SHARD_QUICK
    r3 = rng.randrange(k3)
    note['three_pr_shard'] = '%d/%d' % (r3, k3)
    pshards = dict(PLAUSIBLE_SHARD_THOROUGH if thorough else PLAUSIBLE_SHARD_QUICK)
    note['three_pr_family_shards'] = {k: '1-in-%d' % v for k, v in pshards.items()} or 'none'
    pshards['residue'] = shards['residue']
    for i, (si, d) in enumerate(all_cases(3)):
        if i % k3 == r3:
            jobs.append(('plausible', si, d, bool(rng.getrandbits(1)), (pshards, i), ctx.seed))
    nd = (DOUBLE_JOBS_THOROUGH if thorough else DOUBLE_JOBS_QUICK) * ctx.scale
    note['double_jobs'] = '%d x %d' % (nd, DOUBLE_PER_JOB)
    for i in range(nd):
        jobs.append(('double', 0, (), False, DOUBLE_PER_JOB, '%s/%d' % (ctx.seed, i)))
    return jobs, note


RULE = ('QValidate: real BranchCascade + QueueCollection (build, finalize, validate, mergeable_prs, mergeable_queues) '
        '+ real queueing.merge_queues over the in-memory commit graph, on CORRUPTED queue states: queues built as '
        'add_to_queue builds them (26 cascade shapes x every destination choice, fresh and on top of stale q/ branches) '
        'then corrupted - q/ or q/w/ ref dropped, moved to an older/newer/incomparable commit, two q/w refs swapped, the '
        'head of a version moved or advanced, a destination advanced behind the queue (fresh commit, merge with a queue '
        'commit, onto a queue commit of its own / another version, the upper versions of a pull request already merged), '
        'foreign q/ and q/w/ refs (unknown pull request / version), every subset of an interrupted add_to_queue of the '
        'last pull request. EVERY single corruption of every queue with <= 2 pull requests [quick: 1-in-k shards of the '
        'families that nearly always end in a rejection, see qvalidate.plan.shards], the plausible-looking ones on 3-PR '
        'queues, seeded double corruptions on 1-3 PR queues; accepted states are merged with all builds green, the newest '
        'entries failed, a seeded failure pattern and sometimes force merge. Oracle: an accepted state merges by '
        'fast-forwards and keeps inclusion, a rejected one is not touched, an uncorrupted one is accepted. '
        'distinct = distinct model line (state, selection)')


def load_corpus():
    out = []
    for f in sorted(glob.glob(os.path.join(common.CORPUS_DIR, CORPUS, '*.json'))):
        with open(f) as fh:
            out.append((os.path.basename(f), json.load(fh)))
    return out


def _input_from_record(line, src):
    si, dsts, stale, corr, failed, force, tags = json.loads(src)
    _, gs, rs, _ = line.split(' ')
    sh = SHAPES[si]
    return {'shape': [[list(k) for k in sh[0]], list(sh[1]), sh[2]], 'dsts': dsts, 'stale': stale,
            'corruption': corr, 'refs': {n: int(c) for n, c in (x.rsplit(':', 1) for x in rs.split(','))},
            'graph': [[int(x) for x in a.split(',')] for a in gs.split(';')], 'tags': tags,
            'failed': failed, 'force': force, 'line': line}


def model_speaks_qv(model):
    try:
        ans = model.ask(['QV 0;0,1 development/4.3:1 -'])[0]
    except Exception as e:       # noqa
        return False, '%s: %s' % (type(e).__name__, str(e)[-300:])
    return 'cascade=' in ans, ans[:300]


def phase(ctx, pid):
    """corpus replay + exhaustive single corruptions + seeded double corruptions; see RULE"""
    global KEEP_LINES
    t0 = time.time()
    res = Result()
    res.rule = RULE
    use_model = bool(ctx.model and ctx.model.available())
    speaks = None
    if use_model:
        ok, speaks = model_speaks_qv(ctx.model)
        if not ok:
            res.disagreements.append({'input': 'QV 0;0,1 development/4.3:1 -', 'real': 'cascade=ok ...',
                                      'model': speaks, 'what': 'the model driver does not answer the QV protocol'})
            use_model = False
    KEEP_LINES = use_model
    acc0 = Acc()
    rng0 = common.rng_for(ctx.seed, 'QV', 'corpus')
    for name, payload in load_corpus():
        inp = payload.get('input') or payload.get('failure', {}).get('input') or payload
        st = state_of_input(inp)
        run_state(st, acc0, rng0)
        o = observe(st, inp.get('failed', ()), inp.get('force', False))
        verdict, fail = oracle(st, o)
        if fail:
            acc0.failures.append(((len(st.corr), st.size()), dict(fail, input=input_of(st, o), observation=public(o))))
        acc0.count('qv:corpus')
    jobs, note = plan(ctx)
    failures = []
    bad = []
    asked = set()
    state = {'states': 0, 'cpu': 0.0, 'real_s': 0.0, 'model_s': 0.0}

    def absorb(accs):
        """aggregate what the workers of one batch found; ONE model call for all its lines"""
        records = {}
        for a in accs:
            res.evaluations += a.n
            state['states'] += a.states
            state['cpu'] += a.cpu
            res.distinct |= a.distinct
            for k, v in a.dist.items():
                res.count(k, v)
            failures.extend(a.failures)
            for smp in a.samples:
                if len(res.samples) < 6:
                    res.samples.append(smp)
            for rec in a.records:
                h = _hash(rec[0])
                if h not in asked:
                    asked.add(h)
                    records[rec[0]] = rec
            a.records = None
        failures[:] = keep_smallest(failures, MAX_REPORTED // 2)
        if use_model and records:
            t = time.time()
            lines = sorted(records)
            answers = ctx.model.ask_parallel(lines)
            for line, ans in zip(lines, answers):
                res.model_compared += 1
                _, real, size, src = records[line]
                what = compare(real, ans)
                if what:
                    res.count('qv:disagreement:' + what)
                    bad.append((size, line, real, ans, what, src))
            bad.sort(key=lambda b: (b[0], b[1]))
            del bad[MAX_REPORTED:]
            state['model_s'] += time.time() - t

    absorb([acc0])
    with get_context('fork').Pool(common.NCPU) as pool:
        for i in range(0, len(jobs), BATCH_JOBS):
            t = time.time()
            accs = pool.map(work, jobs[i:i + BATCH_JOBS], chunksize=4)
            state['real_s'] += time.time() - t
            absorb(accs)
    res.oracle_failures = [f for _, f in failures][:MAX_REPORTED]
    for size, line, real, ans, what, src in bad:
        res.disagreements.append({'input': _input_from_record(line, src), 'real': real, 'model': ans, 'what': what})
    states = state['states']
    # statistics
    d = res.distribution
    kinds = sorted(k[len('qv:kind:'):] for k in d if k.startswith('qv:kind:'))
    per_kind = {k: {'states': d['qv:kind:' + k], 'accepted': d.get('qv:pass:' + k, 0),
                    'ratio': round(d.get('qv:pass:' + k, 0) / d['qv:kind:' + k], 3)} for k in kinds}
    corrupted = sum(v['states'] for k, v in per_kind.items() if k != 'none' and '/' not in k)
    corrupted_ok = sum(v['accepted'] for k, v in per_kind.items() if k != 'none' and '/' not in k)
    res.extra['qvalidate'] = {
        'plan': dict(note, jobs=len(jobs)),
        'states': states, 'evaluations': res.evaluations, 'model_lines': len(res.distinct),
        'corrupted_states': corrupted, 'corrupted_states_accepted_by_validate': corrupted_ok,
        'accepted_ratio_of_corrupted': round(corrupted_ok / corrupted, 3) if corrupted else None,
        'accepted_and_oracle_evaluated': d.get('qv:oracle:validated-merge-ok', 0) + d.get('qv:oracle:validated-merge-breaks', 0),
        'per_kind': per_kind,
        'errors_hit': {k[len('qv:err:'):]: v for k, v in sorted(d.items()) if k.startswith('qv:err:')},
        'model': ('compared %d lines' % res.model_compared) if use_model else ('not compared: %s' % (speaks or 'no driver')),
        'real_side_s': round(state['real_s'], 1), 'real_side_cpu_s': round(state['cpu'], 1),
        'model_side_s': round(state['model_s'], 1), 'wall_s': round(time.time() - t0, 1),
    }
    res.exhaustive = False
    return res


def replay_state(payload):
    """re-run one saved input (the 'input' dict of an oracle failure / disagreement) on the real classes"""
    inp = payload.get('input') or payload.get('failure', {}).get('input') or payload
    st = state_of_input(inp)
    obs = observe(st, inp.get('failed', ()), inp.get('force', False))
    verdict, fail = oracle(st, obs)
    out = public(obs)
    out['oracle'] = verdict
    out['failure'] = fail
    out['line'] = encode_line(st, obs['sel'] if accepted(obs) else ())
    out['real'] = real_answer(obs)
    return out


def replay_input(payload):
    """the queue state a replay file refers to (an oracle failure or a disagreement of this phase), or None"""
    cands = [(payload.get('failure') or {}).get('input') or {}]
    cands += [(b.get('first') or {}).get('input') or {} for b in payload.get('no_longer_checks', [])]
    cands.append(payload.get('input') or {})
    cands.append(payload)
    for inp in cands:
        if isinstance(inp, dict) and 'refs' in inp and 'graph' in inp and 'shape' in inp:
            return inp
    return None


def replay(ctx, inp):
    """re-run one saved state on the real classes (oracle) and, when the driver is there, on the model"""
    res = Result()
    out = replay_state({'input': inp})
    res.evaluations = 1
    if out.get('failure'):
        res.oracle_failures.append(dict(out['failure'], input=inp,
                                        observation={k: v for k, v in out.items() if k != 'failure'}))
    res.samples.append({'line': out['line'], 'real': out['real'], 'oracle': out['oracle']})
    if ctx.model is not None and ctx.model.available():
        ans = ctx.model.ask([out['line']])[0]
        res.model_compared = 1
        what = compare(out['real'], ans)
        if what:
            res.disagreements.append({'input': inp, 'real': out['real'], 'model': ans, 'what': what})
    return res
