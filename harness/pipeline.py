"""The check pipeline of DESIGN.md section 4:
tables -> build -> audit -> corpus + correspondence (+ property oracle on every real run)
-> search when a proof or the correspondence broke -> known findings -> evidence -> verdict.

A property module `harness/<pid lower>.py` provides
  PID, TABLES, LEAN_TARGETS, ASSUMPTIONS, TRUSTED
  correspondence(ctx) -> Result          (real code vs model, oracle on the real side)
  search(ctx) -> Result                  (optional; default: correspondence with ctx.scale = 4)
  replay(ctx, payload) -> Result         (optional)
"""
import importlib
import json
import os
import signal
import sys
import time
import traceback

from . import common
from . import extract_tables


class Ctx:
    def __init__(self, pid, tier, seed, model):
        self.pid = pid
        self.tier = tier
        self.seed = seed
        self.model = model          # common.Model or None
        self.scale = 1              # 4 when searching for a failing input
        self.searching = False
        self.tables = {}


class Result:
    """What a correspondence / search run covered and found."""

    def __init__(self):
        self.evaluations = 0
        self.distinct = set()        # hashes of distinct non-trivial cases
        self.rule = ''
        self.samples = []
        self.exhaustive = False
        self.distribution = {}
        self.disagreements = []      # model != real: {'input', 'real', 'model'}
        self.oracle_failures = []    # property false on the real code: {'key', 'what', 'input', 'observation'}
        self.extra = {}              # additional coverage keys
        self.model_compared = 0

    def count(self, key, n=1):
        self.distribution[key] = self.distribution.get(key, 0) + n

    def merge(self, other):
        self.evaluations += other.evaluations
        self.distinct |= other.distinct
        self.rule = self.rule or other.rule
        self.samples = (self.samples + other.samples)[:12]
        self.exhaustive = self.exhaustive and other.exhaustive
        for k, v in other.distribution.items():
            self.count(k, v)
        self.disagreements += other.disagreements
        self.oracle_failures += other.oracle_failures
        self.extra.update(other.extra)
        self.model_compared += other.model_compared


class CheckTimeout(Exception):
    pass


def _alarm(signum, frame):
    raise CheckTimeout()


def main(argv):
    if len(argv) < 2:
        print('usage: check <Cxx> <quick|thorough> [--replay FILE]', file=sys.stderr)
        return 3
    pid, tier = argv[0], argv[1]
    replay_file = None
    if '--replay' in argv:
        replay_file = argv[argv.index('--replay') + 1]
    tier = os.environ.get('VERIF_TIER', tier)
    if tier not in ('quick', 'thorough'):
        tier = 'quick'
    seed = int(os.environ.get('VERIF_SEED', '0') or 0)
    limit = int(os.environ.get('VERIF_TIMEOUT', '1700' if tier == 'quick' else '10000'))
    signal.signal(signal.SIGALRM, _alarm)
    signal.alarm(limit)
    try:
        return _main(pid, tier, seed, replay_file)
    except CheckTimeout:
        print('TIMEOUT property=%s after %d s (no verdict)' % (pid, limit))
        return 2
    finally:
        signal.alarm(0)


def _main(pid, tier, seed, replay_file):
    t0 = time.time()
    mod = importlib.import_module('harness.' + pid.lower())
    log = common.log
    broken = []          # what no longer checks: proof obligations / correspondence
    notes = []

    # 1 tables ---------------------------------------------------------------
    tables = {}
    try:
        tables = extract_tables.generate_isolated(mod.TABLES) if mod.TABLES else {}
    except Exception as e:       # source no longer has the shape the translator understands
        broken.append({'kind': 'table-extraction', 'what': '%s: %s' % (type(e).__name__, e)})
        log('table extraction failed:', e)
    # every other generated file is brought in line with the tree under check as well (the driver imports all
    # of them); a table of another property that cannot be extracted is that property's business
    try:
        others = sorted(set(extract_tables.all_tables()) - set(mod.TABLES))
    except Exception as e:
        others = []
        log('table registry could not be loaded: %s' % e)
    for other in others:
        try:
            extract_tables.generate_isolated([other])
        except Exception as e:
            log('table %s (not used by %s) could not be regenerated: %s' % (other, pid, e))

    # 2 build ----------------------------------------------------------------
    ok_driver, out_driver = common.lake_build(['driver'])
    if not ok_driver:
        broken.append({'kind': 'model-build', 'what': 'the model/driver no longer builds',
                       'errors': common.failing_declarations(out_driver)[:10]})
        log('driver build failed')
    ok_props, out_props = common.lake_build(mod.LEAN_TARGETS)
    theorems = common.property_theorems(pid, mod.LEAN_TARGETS)
    if not ok_props:
        errs = common.failing_declarations(out_props)
        broken.append({'kind': 'proof-obligation',
                       'what': 'lake build %s failed' % ' '.join(mod.LEAN_TARGETS),
                       'errors': errs[:10],
                       'tail': out_props[-1500:] if not errs else ''})
        log('proof build failed:', [e['declaration'] for e in errs][:5])

    # 3 audit ----------------------------------------------------------------
    axioms = {}
    audit_ok = False
    forbidden = common.grep_forbidden()
    if ok_props:
        audit_ok, axioms, raw = common.axiom_audit(pid, extra_modules=mod.LEAN_TARGETS)
        if not audit_ok:
            notes.append('axiom audit failed: %s' % json.dumps(axioms))
    if forbidden:
        audit_ok = False
        notes.append('forbidden constructs: %s' % forbidden[:5])
    if tier == 'thorough' and ok_props and os.environ.get('VERIF_LEANCHECKER', '1') == '1':
        rc, out = common.run(['lake', 'env', 'leanchecker'] + mod.LEAN_TARGETS,
                             cwd=common.LEAN_DIR, timeout=3000)
        if rc != 0:
            audit_ok = False
            notes.append('leanchecker failed: %s' % out[-500:])
        else:
            notes.append('leanchecker ok')

    # 4-6 corpus, correspondence, oracle -------------------------------------
    model = common.Model() if ok_driver else None
    ctx = Ctx(pid, tier, seed, model)
    ctx.tables = tables
    res = Result()
    try:
        if replay_file:
            with open(replay_file) as fh:
                payload = json.load(fh)
            res = mod.replay(ctx, payload)
        else:
            res = mod.correspondence(ctx)
    except common_timeout():
        raise
    except Exception as e:
        broken.append({'kind': 'correspondence-harness',
                       'what': 'harness raised %s: %s' % (type(e).__name__, e),
                       'trace': traceback.format_exc()[-3000:]})
        log('harness raised', traceback.format_exc())
    if res.disagreements:
        d0 = res.disagreements[0]
        broken.append({'kind': 'correspondence', 'what': 'model and code differ on %d input(s)'
                       % len(res.disagreements), 'first': d0})
        log('correspondence: %d disagreement(s); first: %s' % (len(res.disagreements), d0))

    # search when something no longer checks and no failing input is known yet
    if broken and not res.oracle_failures and not replay_file:
        log('searching for a failing input on the real code')
        ctx.scale = 4
        ctx.searching = True
        try:
            sres = (mod.search(ctx) if hasattr(mod, 'search') else mod.correspondence(ctx))
            res.oracle_failures += sres.oracle_failures
            res.evaluations += sres.evaluations
            res.distinct |= sres.distinct
        except common_timeout():
            raise
        except Exception as e:
            notes.append('search raised %s: %s' % (type(e).__name__, e))

    # 7 verdict --------------------------------------------------------------
    known = [k for k in common.known_findings() if k['property'] == pid]
    known_keys = {k['key']: k for k in known}
    seen_known = {}
    new_failures = []
    for f in res.oracle_failures:
        if f.get('key') in known_keys:
            seen_known.setdefault(f['key'], f)
        else:
            new_failures.append(f)
    for key, f in sorted(seen_known.items()):
        print('KNOWN-FINDING: property=%s %s' % (pid, known_keys[key]['what']))

    violations = 0
    rc = 0
    if new_failures:
        f = new_failures[0]
        path = common.write_replay(pid, 'violation', {
            'property': pid, 'kind': 'failing-input', 'seed': seed, 'tier': tier,
            'repo': common.repo_head(), 'failure': f, 'others': new_failures[1:10],
            'no_longer_checks': broken})
        print('VIOLATION property=%s replay=%s' % (pid, path))
        violations = len(new_failures)
        rc = 1
    elif broken:
        path = common.write_replay(pid, 'unproved', {
            'property': pid, 'kind': 'no-failing-input-found', 'seed': seed, 'tier': tier,
            'repo': common.repo_head(), 'no_longer_checks': broken,
            'searched': res.evaluations})
        print('VIOLATION property=%s replay=%s no-failing-input-found' % (pid, path))
        violations = 1
        rc = 1
    elif not audit_ok:
        print('BROKEN-CHECK property=%s audit failed: %s' % (pid, notes))
        rc = 3

    # evidence ---------------------------------------------------------------
    discharged = sum(1 for t in theorems if axioms.get(t) is not None
                     and set(axioms[t]) <= common.ALLOWED_AXIOMS) if ok_props else 0
    coverage = {
        'obligations': len(theorems),
        'discharged': discharged,
        'checker_cmd': 'cd lean && lake build %s && lake env lean .lake/audit/%s.lean'
                       % (' '.join(mod.LEAN_TARGETS), pid)
                       + (' && lake env leanchecker %s' % ' '.join(mod.LEAN_TARGETS)
                          if tier == 'thorough' else ''),
        'trusted_base': mod.TRUSTED,
        'theorems': {t: axioms.get(t) for t in theorems},
        'tables_regenerated': {k: {kk: vv for kk, vv in v.items() if kk != '_rewritten'}
                               for k, v in tables.items()},
        'evaluations': res.evaluations,
        'distinct_nontrivial': len(res.distinct),
        'rule': res.rule,
        'samples': res.samples[:12],
        'exhaustive': bool(res.exhaustive),
        'model_vs_code_compared': res.model_compared,
        'disagreements': len(res.disagreements),
        'oracle_failures_known': sorted(seen_known),
        'oracle_failures_new': len(new_failures),
        'input_distribution': res.distribution,
        'no_longer_checks': broken,
        'notes': notes,
        'repo': common.repo_head(),
    }
    if discharged < 1:
        # the proof build is broken (a violation is being reported): the schema wants `discharged` >= 1 when the key
        # is present, so the zero is recorded under another name and the exploration counts carry the evidence
        del coverage['discharged']
        coverage['proofs_discharged'] = 0
    coverage.update(res.extra)
    common.write_evidence(pid, tier, seed, coverage, mod.ASSUMPTIONS, time.time() - t0, violations)
    log('%s %s: rc=%d evaluations=%d distinct=%d theorems=%d/%d wall=%.1fs'
        % (pid, tier, rc, res.evaluations, len(res.distinct), discharged, len(theorems),
           time.time() - t0))
    return rc


def common_timeout():
    return CheckTimeout
