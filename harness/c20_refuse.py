"""C20 while the git server refuses ONE ref of the pushes of a queue admin job (helper of harness/c20.py).

The states of harness/c20.py are visited with a server that accepts every push (ASSUMPTIONS of c20.py: "the remote
accepts the operations of the job"). Here the server refuses exactly one ref: an `update` hook in the bare repository
(the mechanism of harness/c02_faults.py / harness/gittie.py: real git then shows the real behaviour of a plain push
- the other refs are updated - and of `--atomic` - nothing is updated) refuses the update of ONE ref name
  * `once`   - transiently: the first attempt only (a hiccup of the host; every later attempt is accepted),
  * `always` - persistently: every attempt while the job runs (a branch permission, a server-side hook).
States (`STATES`, scripted, every run; `gen_state`, seeded): queues on, 2-3 pull requests queued on several versions
(development, stabilization, two on the same branch, hotfix queue included). On each state the jobs rebuild_queues,
delete_queues and create_branch of a development branch newer than the existing ones (its nested rebuild_queues; the
new branch itself is one of the refs) are first run with a server that accepts everything, to learn which refs the
job's own pushes change (the evaluations of the re-submitted pull requests are not part of the job); then once per
such ref and per mode with the refusal of that ref. After every run the refs and tags of the bare repository are put
back and the task queue is emptied (`c20.restore`).

Oracle (the property text, independent of the model): "A job that refuses leaves the remote untouched; queue rebuild
and delete jobs remove only q/* branches, and rebuild re-submits exactly the pull requests that were queued, in queue
order." Under a refusal of the server the job either gets through or it does not:
  * a rebuild_queues / delete_queues job that does NOT answer JobSuccess (JobFailure, PushFailedException,
    RemoveFailedException, anything) has changed no ref and no tag and left no job in the task queue
    (keys `push-refused/failed-but-changed`, `push-refused/failed-but-resubmitted`): otherwise pull requests have
    left the queue, or are evaluated, without anybody being told;
  * one that answers JobSuccess has removed every q/* branch and nothing else and (rebuild) left exactly the
    previously queued pull requests in the task queue, in queue order (the clauses of `c20.oracle`, keys prefixed
    `push-refused/`);
  * create_branch: the same two statements about the q/* branches and the task queue (the nested rebuild); the new
    branch is judged by `c20.oracle` (a JobFailure must have changed nothing at all).
Whether the hook refused anything during the job is observed (`hits`): a run in which it did not is counted apart."""
import os
import re
import stat
import time
import traceback

from . import common

KEY_PREFIX = 'push-refused/'
MODES = ('once', 'always')
NSHARD = 2                   # the scripted units are split to keep them short

HOOK = """#!/bin/sh
# installed by harness/c20_refuse.py: refuse the ref named in the control file (mode `once`: the first attempt only)
f="%s"
if [ -f "$f" ]; then
  read ref mode < "$f"
  if [ "$ref" = "$1" ]; then
    echo "$1" >> "$f.hits"
    if [ "$mode" = once ]; then rm -f "$f"; fi
    echo "verif: update of $1 refused" >&2
    exit 1
  fi
fi
exit 0
"""


class Refuser:
    def __init__(self, w):
        self.ctl = os.path.join(w.bare, 'verif-refuse')
        hook = os.path.join(w.bare, 'hooks', 'update')
        os.makedirs(os.path.dirname(hook), exist_ok=True)
        with open(hook, 'w') as fh:
            fh.write(HOOK % self.ctl)
        os.chmod(hook, os.stat(hook).st_mode | stat.S_IXUSR | stat.S_IXGRP | stat.S_IXOTH)

    def arm(self, ref, mode):
        self.disarm()
        with open(self.ctl, 'w') as fh:
            fh.write('refs/heads/%s %s\n' % (ref, mode))

    def disarm(self):
        """returns the number of refused updates since `arm`"""
        hits = 0
        if os.path.exists(self.ctl + '.hits'):
            with open(self.ctl + '.hits') as fh:
                hits = len(fh.read().split())
            os.unlink(self.ctl + '.hits')
        if os.path.exists(self.ctl):
            os.unlink(self.ctl)
        return hits


# ----------------------------------------------------------------------------- states

D3 = ['development/4.3', 'development/5.1', 'development/10.0']
D5 = ['development/4.3', 'stabilization/5.1.4', 'development/5.1', 'development/10.0', 'hotfix/4.2.17']
D2H = ['development/4.3', 'development/5.1', 'hotfix/4.2.17']
STATES = [
    # label, dests, tags, destinations of the queued pull requests (queue order)
    ('three-versions', D3, [], ['development/4.3', 'development/5.1', 'development/4.3']),
    ('stabilization+hotfix-queue', D5, ['5.1.3'], ['hotfix/4.2.17', 'stabilization/5.1.4', 'development/10.0']),
    ('two-on-the-hotfix-queue', D2H, [], ['hotfix/4.2.17', 'development/5.1', 'hotfix/4.2.17']),
]


def _config(dests, tags, rng=None):
    from .system import Config
    return Config(list(dests), sorted(set(tags) | {'4.2.17.0'}), use_queue=True, skip_queue=False,
                  no_octopus=bool(rng and rng.random() < 0.3), create_prs=bool(rng and rng.random() < 0.5),
                  create_branches=True, peers=0, leaders=0, author_approval=False,
                  options=['bypass_jira_check', 'bypass_build_status'])


def _events(dsts, rng=None):
    evs = []
    for k, dst in enumerate(dsts, 1):
        kind = rng.choice(['feature', 'bugfix', 'improvement']) if rng else 'bugfix'
        evs += [{'op': 'open', 'pr': k, 'dst': dst, 'src': '%s/TEST-%04d' % (kind, k)}, {'op': 'progress', 'pr': k}]
    return evs


def scripted_states():
    return [(label, _config(dests, tags), _events(dsts)) for label, dests, tags, dsts in STATES]


def gen_state(rng):
    """seeded: a cascade template of C01 (a hotfix branch added to half of those without one; never a hotfix branch
    x.y.z together with development/x.y: that coexistence is the subject of a known finding of C20), 2-3 pull requests
    queued on random destinations"""
    from .histories import TEMPLATES
    dests, tags = rng.choice([t for t in TEMPLATES if len(t[0]) >= 2])
    dests = list(dests)
    if not any(d.startswith('hotfix/') for d in dests) and rng.random() < 0.5:
        dests.append('hotfix/4.2.17')
    dsts = [rng.choice(dests) for _ in range(rng.choice([2, 2, 3]))]
    return 'seeded', _config(dests, tags, rng), _events(dsts, rng)


# ----------------------------------------------------------------------------- one job under a refusal

def run_job(w, step, use_queue, refuser=None, ref=None, mode=None):
    """the observation `c20.oracle` needs, of one admin job; the re-submitted pull requests are NOT evaluated"""
    from . import c20
    refs0, tags0 = w.refs(), w.tags()
    kind = step['job']
    settings = {'branch': step['branch']} if kind == 'create_branch' else {}
    qorder = {}
    for n, s in refs0.items():
        m = re.match(r'^q/w/(\d+)/([0-9.]+)/', n)
        if m:
            qorder.setdefault(m.group(2), []).append((int(m.group(1)), s))
    for v, l in qorder.items():
        qorder[v] = [(p, s, sorted(p2 for p2, s2 in l if p2 != p and w.is_ancestor(s2, s))) for p, s in l]
    del c20._TRACE[:]
    if refuser is not None and ref is not None:
        refuser.arm(ref, mode)
    try:
        try:
            status = w.job(kind, **settings)
        except Exception as e:                      # (process_task turns every Exception into a status)
            status = 'raised:' + type(e).__name__
    finally:
        hits = refuser.disarm() if refuser is not None else 0
    job = w.berte.tasks_done[0]
    trace = list(c20._TRACE)
    refs1, tags1 = w.refs(), w.tags()
    pending = []
    for j in list(w.berte.task_queue.queue):
        pr = getattr(j, 'pull_request', None)
        pending.append(pr.id if pr is not None else None)
    casc = incl = None
    if kind == 'create_branch' and step['branch'] in refs1 and step['branch'] not in refs0:
        casc = c20.real_cascade_error(w)
        incl = w.inclusion_breaks(refs1)
    return {'step': step, 'use_queue': use_queue, 'status': status,
            'why': c20.why_code(job.details) if status == 'JobFailure' else None,
            'ops': [c20.canon_push(c, tags1) for c in trace], 'pushes': len(trace),
            'refs0': refs0, 'tags0': tags0, 'refs1': refs1, 'tags1': tags1, 'pending': pending,
            'cascade_error': casc, 'inclusion_breaks': incl, 'qorder': qorder, 'hits': hits,
            'refused': ref, 'mode': mode}


def oracle(obs):
    """the property on one job run under a refusal (see the module text)"""
    from . import c20
    st = obs['step']
    kind, status = st['job'], obs['status']
    r0, r1, t0, t1 = obs['refs0'], obs['refs1'], obs['tags0'], obs['tags1']
    what = '%s%s while the server refuses %s (%s)' % (kind, ' ' + st['branch'] if st.get('branch') else '',
                                                      obs['refused'], obs['mode'])
    out = []

    def bad(key, text, **o):
        out.append({'key': KEY_PREFIX + key, 'what': '%s: %s' % (what, text),
                    'observation': dict(o, status=status, step=st, refused=obs['refused'], mode=obs['mode'],
                                        refusals=obs['hits'], pushes=obs['ops'])})
    changed = sorted(n for n in set(r0) | set(r1) if r0.get(n) != r1.get(n))
    if kind == 'create_branch':
        changed = [n for n in changed if n.startswith('q/')]      # the new branch: judged by c20.oracle below
    if status != 'JobSuccess':
        if changed or (kind != 'create_branch' and t0 != t1):
            gone = [n for n in changed if n not in r1]
            bad('failed-but-changed',
                'the job answered %s but %d of the %d q/* branches are gone (%s) and nothing was re-submitted: pull '
                'requests %s were queued before, %s still have a queue-integration branch'
                % (status, len([n for n in gone if n.startswith('q/')]), len([n for n in r0 if n.startswith('q/')]),
                   ', '.join(gone[:6]) + (' ...' if len(gone) > 6 else ''), c20.queued_ids(r0), c20.queued_ids(r1))
                if not obs['pending'] else
                'the job answered %s but changed %s' % (status, changed[:8]),
                changed=changed, queued_before=c20.queued_ids(r0), queued_after=c20.queued_ids(r1),
                resubmitted=obs['pending'])
        if obs['pending']:
            bad('failed-but-resubmitted', 'the job answered %s and left %s in the task queue' % (status, obs['pending']),
                resubmitted=obs['pending'])
    for f in c20.oracle(obs):
        f = dict(f)
        f['key'] = KEY_PREFIX + f['key']
        f['what'] = '%s: %s' % (what, f['what'])
        f['observation'] = dict(f['observation'], refused=obs['refused'], mode=obs['mode'], refusals=obs['hits'],
                                pushes=obs['ops'])
        out.append(f)
    if kind == 'create_branch' and status == 'JobSuccess':
        # the nested rebuild: every q/* branch gone, the queued pull requests re-submitted (c20.oracle judges the
        # re-submission of a create_branch only when something is pending)
        left = sorted(n for n in r1 if n.startswith('q/'))
        if left and c20.DEST_RE.match(st['branch']) and st['branch'].startswith('development/'):
            bad('queues-left', 'the job succeeded but q/* branches remain: %s' % left[:4], left=left)
        elif not left and not obs['pending'] and c20.queued_ids(r0):
            bad('rebuild-resubmits', 're-submitted nothing, queued were %s' % c20.queued_ids(r0))
    return out


def newer_development(refs):
    from . import c20
    devs = sorted((c20.dev_key(n) for n in refs if n.startswith('development/')), key=c20.dev_sort_key)
    return 'development/%d.0' % (devs[-1][0] + 1)


def steps_for(refs):
    return [{'job': 'rebuild_queues'}, {'job': 'delete_queues'},
            {'job': 'create_branch', 'branch': newer_development(refs), 'from': None}]


def select_refs(refs, tier, rng=None, sample=None):
    """the refs to refuse, in ls-remote order (the order in which the job names them)"""
    refs = sorted(refs)
    if sample is not None and len(refs) > sample:
        keep = {refs[0], refs[-1]} | set(rng.sample(refs[1:-1], sample - 2))
        refs = [r for r in refs if r in keep]
    return refs


def run_unit(cfg, events, base, step_index, tier, sample=None, rng=None, only=None, shard=(0, 1)):
    """reach the state, run ONE of the three jobs under every refusal (`only`: a recorded (ref, mode))"""
    from . import c20
    from .histories import Run
    c20._install_trace()
    run = Run(cfg, base)
    out = {'runs': [], 'state': None, 'plain': None}
    try:
        w = run.w
        for ev in events:
            run.execute(ev)
        refs, tags = w.refs(), w.tags()
        queued = c20.queued_ids(refs)
        out['state'] = {'queued': queued, 'queues': sorted(n for n in refs if re.match(r'^q/[0-9.]+$', n)),
                        'qw': len([n for n in refs if n.startswith('q/w/')]),
                        'hotfix_queue': any(re.match(r'^q/\d+\.\d+\.\d+\.\d+$', n) for n in refs)}
        if len(queued) < 2:
            return out                              # not a state of this block
        step = steps_for(refs)[step_index]
        refuser = Refuser(w)
        plain = run_job(w, step, cfg.use_queue, refuser)
        c20.restore(w, refs, tags)
        touched = sorted(n for n in set(plain['refs0']) | set(plain['refs1'])
                         if plain['refs0'].get(n) != plain['refs1'].get(n))
        out['plain'] = {'step': step, 'status': plain['status'], 'touched': len(touched), 'pushes': plain['pushes'],
                        'pending': plain['pending'], 'failures': c20.oracle(plain)}
        if only is not None:
            todo = [tuple(only)]
        else:
            todo = [(r, m) for r in select_refs(touched, tier, rng, sample) for m in MODES][shard[0]::shard[1]]
        for ref, mode in todo:
            obs = run_job(w, step, cfg.use_queue, refuser, ref, mode)
            c20.restore(w, refs, tags)
            out['runs'].append({'ref': ref, 'mode': mode, 'status': obs['status'], 'hits': obs['hits'],
                                'pushes': obs['pushes'], 'changed': obs['refs0'] != obs['refs1'],
                                'pending': obs['pending'], 'failures': oracle(obs)})
    finally:
        run.close()
    return out


# ----------------------------------------------------------------------------- pool work and collection

def units(seed, tier, scale):
    """(tag, label, cfg-dict, events, index of the job, sample, rng tags). quick: the three scripted states x 3 jobs
    with every ref x {once, always}; 3 seeded states x 3 jobs with 4 refs sampled (first and last of the ls-remote order
    always). thorough: 40 seeded states, every ref."""
    out = []
    for label, cfg, evs in scripted_states():
        for j in range(3):
            for i in range(NSHARD):
                out.append(('scripted', label, cfg.as_dict(), evs, j, None, None, (i, NSHARD)))
    quick = tier == 'quick'
    for i in range((3 if quick else 40) * scale):
        rng = common.rng_for(seed, 'c20-refuse', i)
        label, cfg, evs = gen_state(rng)
        for j in range(3):
            out.append(('seeded', '%s-%d' % (label, i), cfg.as_dict(), evs, j, 4 if quick else None,
                        (seed, 'c20-refuse-sample', i, j), (0, 1)))
    return out


def work(args):
    from .system import Config
    tag, label, cfgd, evs, j, sample, rtags, shard, tier, base = args
    cfgd2 = dict(cfgd)
    cfg = Config(cfgd2.pop('dests'), **cfgd2)
    rng = common.rng_for(*rtags) if rtags else None
    t0 = time.time()
    try:
        out = run_unit(cfg, evs, base, j, tier, sample, rng, shard=shard)
    except Exception:
        return {'error': traceback.format_exc()[-3000:], 'label': label, 'j': j}
    out.update(tag=tag, label=label, cfg=cfgd, events=evs, j=j, shard=shard, seconds=round(time.time() - t0, 1))
    return out


def submit(pool, ctx, base):
    us = units(ctx.seed, ctx.tier, ctx.scale)
    return pool.map_async(work, [u + (ctx.tier, base) for u in us], chunksize=1)


def ref_class(ref):
    if re.match(r'^q/w/', ref):
        return 'q/w/<pr>/<version>/<src>'
    if re.match(r'^q/\d+\.\d+\.\d+\.\d+$', ref):
        return 'q/<hotfix line>'
    if ref.startswith('q/'):
        return 'q/<version>'
    return 'the new branch'


def collect(res, outs):
    errors = [o for o in outs if 'error' in o]
    if errors:
        raise RuntimeError('C20 refusal harness failed on %d units; first (%s, job %s): %s'
                           % (len(errors), errors[0]['label'], errors[0]['j'], errors[0]['error']))
    summary = res.extra.setdefault('push_refused_scripted', {})
    n = 0
    found = []
    for o in outs:
        if o['plain'] is None:
            res.count('refusal:state-skipped:%d-queued' % len(o['state']['queued']))
            continue
        step = o['plain']['step']
        kind = step['job']
        inp = {'cfg': o['cfg'], 'events': o['events'], 'jobs': [[step]]}
        first = o.get('shard', (0, 1))[0] == 0
        if o['j'] == 0 and first:
            res.count('refusal:state:%s:queued-prs=%d%s' % (o['tag'], len(o['state']['queued']),
                                                           ':hotfix-queue' if o['state']['hotfix_queue'] else ''))
        if first:
            res.evaluations += 1
            res.count('refusal:%s:no-refusal:%s' % (kind, o['plain']['status']))
            for f in o['plain']['failures']:
                f = dict(f)
                f['input'] = inp
                res.oracle_failures.append(f)
        s = None
        if o['tag'] == 'scripted':
            s = summary.setdefault(o['label'], {'state': o['state']}).setdefault(kind, {
                'refs': o['plain']['touched'], 'pushes': o['plain']['pushes'], 'outcomes': {}, 'seconds': 0})
            s['seconds'] = round(s['seconds'] + o['seconds'], 1)
        for x in o['runs']:
            n += 1
            res.evaluations += 1
            what = '%s:%s:%s' % (kind, x['mode'], ref_class(x['ref']))
            res.count('refusal:%s -> %s%s' % (what, x['status'], '' if x['hits'] else ' (the hook refused nothing)'))
            res.count('refusal:attempts-refused:%s:%d' % (x['mode'], min(x['hits'], 9)))
            res.count('refusal:remote-after-the-job:%s:%s' % (x['status'], 'changed' if x['changed'] else 'untouched'))
            res.distinct.add('refusal|%s|%s|%s|%s|%s' % (o['label'], kind, x['ref'], x['mode'], x['status']))
            if s is not None:
                k = '%s:%s' % (x['mode'], x['status'])
                s['outcomes'][k] = s['outcomes'].get(k, 0) + 1
            for f in x['failures']:
                f = dict(f)
                f['input'] = dict(inp, refuse={'ref': x['ref'], 'mode': x['mode'], 'job': o['j']})
                res.count('refusal:oracle:%s' % f['key'])
                found.append(f)
    # the most telling witness first: pull requests that have left the queue without being re-submitted
    found.sort(key=lambda f: len(f['observation'].get('queued_after', [0] * 99)))
    res.oracle_failures += found
    res.extra['push_refused_runs'] = res.extra.get('push_refused_runs', 0) + n
    return res


def replay(ctx, inp):
    """a failing input of this module: {'cfg', 'events', 'jobs', 'refuse': {'ref', 'mode', 'job'}}"""
    from .pipeline import Result
    from .system import Config
    cfgd = dict(inp['cfg'])
    cfg = Config(cfgd.pop('dests'), **cfgd)
    r = inp['refuse']
    out = run_unit(cfg, inp['events'], common.scratch(), r['job'], 'quick', only=(r['ref'], r['mode']))
    out.update(tag='replay', label='replay', cfg=cfg.as_dict(), events=inp['events'], j=r['job'], shard=(0, 1), seconds=0)
    return collect(Result(), [out])


def is_refusal_input(inp):
    return isinstance(inp, dict) and isinstance(inp.get('refuse'), dict)
