"""C15 — `reset` never silently discards manual work and only touches its own pull request: tie and oracle.

Real side: the real BertE on the mock git host and REAL git (harness/system.py). Seeded histories: one to
three pull requests (similar source names) on a cascade with at least two targets are opened and evaluated
so that integration branches (and integration pull requests) exist; then, in random order: the source branch
is extended / amended / rebased onto its destination / reset to an older commit (force-push), destinations
move (another pull request is merged by the robot), commits and merge commits are made BY HAND on the
integration branches (of this and of the other pull requests), evaluations in between; then the author
comments `reset` or `force_reset` and the pull request is evaluated; after a completed reset it is
evaluated once more (rebuild).

A second family (`GEN_MERGE`) plays the DEVELOPER'S SIDE OF THE CONFLICT WORKFLOW, i.e. what Bert-E's own Conflict
message tells the author to do: (a) `git checkout -B w/X/<src> origin/<destination X>; git merge origin/<src>`,
conflicts resolved, push - the integration branch is made by hand and its tip is a merge commit of the user's
with parents [destination tip, source tip]; after a Conflict "I have not created the integration branch"
(another pull request has put a conflicting file on that target) and also when the robot reported nothing;
(b) the same on an integration branch that exists (`checkout -B` starts it again: forced push of w/);
(c) the destination branch, once it has moved, merged by hand INTO the integration branch (parents [w tip,
destination tip]), robot-built or hand-made; commits on top; then `reset` / `force_reset`, with and without an
evaluation in between (the robot then builds the rest of the cascade on the hand-made branch).

Observed at the command: job status, every ref and every pull request of the host before and after, the
commits `Branch.get_commit_diff` returned to `_reset` (wrapped from outside), and the whole commit graph of
the bare repository (`git log --all`: parents and author names).

Model side: the graph is exported (commits numbered in topological order, parents, author = robot?) with
the refs, the pull-request table and the cascade, and `BertE.Reset.reset` answers outcome, refs after,
declined pull requests and, per integration branch, what git lists and whether it is lossy; the rebuild is
asked to the system model (`Flow.step`, evaluation at the stage the real gates allowed).

Oracle (the property text, independent of the model): the harness KNOWS which commits it made by hand on
which integration branch (ghost set `manual`) and which commits ever were on the source branch (ghost set
`ever`). If an integration branch of the pull request still holds such a commit (reachable from it, not from
its destination, never on the source branch) `reset` must answer LossyResetWarning and change no ref and no
pull request. The three conditions of the text, as the oracle reads them for a commit `c`:
  * "not the robot's": `c` was committed by the contributor (every entry of `manual` is);
  * "not part of the current or a previous version of the source branch": `c` is reachable from no tip the source
    branch ever had (`ever`, noted after every event);
  * "made on top of the integration branch itself": `c` was committed WITH THE INTEGRATION BRANCH CHECKED OUT -
    its first parent is what `w/X/<src>` pointed to in the developer's clone at that moment and `c` became the
    new tip of `w/X/<src>` (the harness asserts the first parent) - as opposed to a commit that reached the
    integration branch by being merged into it (commits of the source or of the destination).
    READING FOR THE CONFLICT WORKFLOW: after `git checkout -B w/X/<src> origin/<destination X>` the integration
    branch IS the destination tip in the developer's clone, and `git merge origin/<src>` + the conflict resolution
    is committed on that branch: the merge commit [destination tip, source tip] is made on top of the integration
    branch itself although BOTH its parents lie outside `w/X/<src>..` (one on the destination, one on the source
    branch). Its content (the resolution) exists nowhere else, Bert-E's Conflict message asks for exactly this
    commit, the unchanged `_reset` refuses on it (a merge commit never joins the `feature` set), and
    `Lemmas/Reset.lean: Own.merge` reads it the same way (a merge that is neither on the destination nor ever on
    the source branch is the integration branch's own, whatever its parents). "On top of" is therefore NOT read
    as "its parent is a commit that only the integration branch holds": that reading would leave the conflict
    resolution unprotected and is the reading seeded change C15-3 implements.
A commit stays held as long as SOME integration branch of the pull request reaches it (a forced push of w/X
drops what only w/X reached; what the robot had already merged down the cascade is still held by the later
branches). Further: a completed command must remove exactly the `w/<version>/<source>` branches of this pull
request, decline exactly the open pull requests whose source is one of them, and change nothing else;
the evaluation that follows must put the integration branches back (unless it reports a conflict).

A fault block (harness/c15_faults.py, scripted, every run) evaluates the non-forced `reset` of histories with manual
work on an integration branch while ONE git command of that job fails once (every command before its last push, one
at a time: the refresh of the mirror cache, the clone, the checkouts, the `git log`s ...) and judges the first sentence
of the property on the real remote whatever the job answered (keys `reset-under-fault/...`)."""
import json
import os
import re
from multiprocessing import Pool

from . import common
from .pipeline import Result

PID = 'C15'
TABLES = ['Reset']
LEAN_TARGETS = ['BertE.Props.C15']
ASSUMPTIONS = [
    '`git log` lists a non-robot single-parent commit after its children (true of git when commit dates do not '
    'decrease along the ancestry; the harness clock makes the hand-made commits so, and the order of every list git '
    'returned to `_reset` is checked); only the converse "no refusal without a commit outside the closure" needs '
    'it - the refusal itself is proved for every order',
    'the author test `rev.author == job.settings.robot` is a function of the commit (exported as: author name of '
    'the commit is the robot\'s login)',
    'every target branch of the pull request exists on the remote (the cascade is computed from existing branches)',
    'rebuild: the pull request is not in the merge queue and its source branch exists and is not merged',
]
TRUSTED = [
    'Lean 4 kernel; axioms of every theorem audited (subset of propext, Classical.choice, Quot.sound)',
    'hand-written models lean/BertE/Model/Reset.lean (on Model/Git.lean, Model/Flow.lean), tied to the code by '
    'the differential run of every reset / force_reset of every history on the exported real commit graph',
    'harness/tables/reset.py (AST extraction of the ignore_merges switches, prune/do_push flags, name template)',
    'harness/c15.py, harness/system.py, harness/histories.py (mock git host, real git, graph export, ghost sets)',
    'harness/c15_faults.py on harness/c08_faults.py (wrapper around bert_e.lib.git.cmd that numbers the git commands of the '
    'resetting job and raises CommandError for one of them, once; fork/snapshot of the world per fault)',
]

KEY_MERGE = 'manual-merge-discarded'
KEY_COMMIT = 'manual-commit-discarded'
N_MERGE_QUICK = 48

_REC = None          # recorder of Branch.get_commit_diff during _reset
_WRAPPED = False


def _wrap_real():
    """Record what `get_commit_diff` hands to `_reset` (wrapping from outside, nothing in /repo changes)."""
    global _WRAPPED
    if _WRAPPED:
        return
    import bert_e.lib.git as libgit
    import bert_e.workflow.gitwaterflow.commands as commands
    orig_diff = libgit.Branch.get_commit_diff
    orig_reset = commands._reset

    def get_commit_diff(self, source_branch, *a, **kw):
        res = list(orig_diff(self, source_branch, *a, **kw))
        if _REC is not None:
            _REC.append({'of': str(self.name), 'minus': str(source_branch), 'shas': [c.sha1 for c in res]})
        return iter(res)

    def _reset(job, force=False):
        global _REC
        _REC = []
        job._c15_calls = _REC
        try:
            return orig_reset(job, force=force)
        finally:
            _LAST.append(_REC)
            _REC = None

    libgit.Branch.get_commit_diff = get_commit_diff
    commands._reset = _reset
    _WRAPPED = True


_LAST = []


# ----------------------------------------------------------------------------- the cascade, independently

def targets_of(dests, dst):
    """names of the branches a pull request on `dst` is merged into (cascade order)"""
    from .system import version_key
    if dst.startswith('hotfix/'):
        return [dst]
    kind, v = dst.split('/')
    parts = [int(x) for x in v.split('.')]
    out = [dst]
    for d in sorted((d for d in dests if d.startswith('development/')), key=version_key):
        if d == dst:
            continue
        dv = [int(x) for x in d.split('/')[1].split('.')]
        if kind == 'stabilization':
            key = (parts[0], parts[1])
            dk = (dv[0], dv[1] if len(dv) > 1 else 10 ** 6)
            if dk >= key:
                out.append(d)
        else:
            key = (parts[0], parts[1] if len(parts) > 1 else 10 ** 6)
            dk = (dv[0], dv[1] if len(dv) > 1 else 10 ** 6)
            if dk > key:
                out.append(d)
    return out


# ----------------------------------------------------------------------------- generator

C15_TEMPLATES = [
    (['development/4.3', 'development/5.1'], []),
    (['development/4.3', 'development/5.1', 'development/10.0'], []),
    (['development/4.3', 'development/5.1', 'development/10.0'], []),
    (['development/4.3', 'stabilization/5.1.4', 'development/5.1', 'development/10.0'], ['5.1.3']),
    (['development/4.3', 'development/4', 'development/5.1'], []),
    (['stabilization/4.3.18', 'development/4.3', 'development/5.1'], ['4.3.17']),
]


def GEN(rng):
    from .system import Config
    dests, tags = rng.choice(C15_TEMPLATES)
    mode = rng.choice(['queue', 'noqueue', 'noqueue', 'queue-skip'])
    cfg = Config(dests, tags, use_queue=mode != 'noqueue', skip_queue=mode == 'queue-skip',
                 no_octopus=rng.random() < 0.3, create_prs=rng.random() < 0.6, create_branches=True,
                 peers=0, leaders=0, author_approval=False, options=['bypass_jira_check'])
    # destinations with at least two targets
    cands = [d for d in dests if len(targets_of(dests, d)) >= 2]
    evs = []
    dst1 = rng.choice(cands)
    prefix = rng.choice(['feature', 'bugfix', 'improvement'])
    src1 = '%s/TEST-0001' % prefix
    evs.append({'op': 'open', 'pr': 1, 'dst': dst1, 'src': src1})
    for _ in range(rng.choice([0, 1, 1, 2])):
        evs.append({'op': 'src_commit', 'pr': 1, 'shared': rng.choice([None, None, None, 'shared_a'])})
    nprs = rng.choice([1, 2, 2, 2, 3])
    for k in range(2, nprs + 1):
        # a source name that has the first one as a prefix: w/5.1/feature/TEST-0001 vs w/5.1/feature/TEST-00010
        name = src1 + rng.choice(['0', '-bis', '1x']) if k == 2 else '%s/TEST-0003' % prefix
        evs.append({'op': 'open', 'pr': k, 'dst': rng.choice(cands if rng.random() < 0.7 else dests), 'src': name})
        if rng.random() < 0.3:
            evs.append({'op': 'src_commit', 'pr': k, 'shared': rng.choice([None, 'shared_a'])})
    order = list(range(1, nprs + 1))
    rng.shuffle(order)
    for k in order:
        evs.append({'op': 'eval_pr', 'pr': k})
    others = [k for k in range(2, nprs + 1)]

    def move_destination():
        k = rng.choice(others)
        evs.append({'op': 'progress', 'pr': k})
        if mode != 'noqueue':
            evs.append({'op': 'progress', 'pr': k})      # queued, then merged
    moved = False
    for _ in range(rng.randint(2, 9)):
        r = rng.random()
        if r < 0.09:
            evs.append({'op': 'src_commit', 'pr': 1, 'shared': rng.choice([None, None, 'shared_a'])})
        elif r < 0.16:
            evs.append({'op': 'src_amend', 'pr': 1})
        elif r < 0.24:
            if not moved and others and rng.random() < 0.7:
                move_destination()
                moved = True
            evs.append({'op': 'src_rebase', 'pr': 1})
        elif r < 0.31:
            evs.append({'op': 'src_reset', 'pr': 1, 'n': rng.choice([1, 1, 2])})
        elif r < 0.36:
            if not moved and others and rng.random() < 0.7:
                move_destination()
                moved = True
            evs.append({'op': 'src_merge', 'pr': 1})       # the destination merged into the source by hand
        elif r < 0.48 and others:
            move_destination()
            moved = True
        elif r < 0.62:
            evs.append({'op': 'w_commit', 'pr': 1, 'k': rng.randint(0, 2)})
        elif r < 0.74:
            evs.append({'op': 'w_merge', 'pr': 1, 'k': rng.randint(0, 2), 'what': rng.choice(['dst', 'dst', 'src'])})
        elif r < 0.80 and others:
            evs.append({'op': rng.choice(['w_commit', 'w_commit', 'w_merge']), 'pr': rng.choice(others),
                        'k': rng.randint(0, 2), 'what': 'dst'})
        elif r < 0.93:
            evs.append({'op': 'eval_pr', 'pr': 1})
        elif others:
            evs.append({'op': 'eval_pr', 'pr': rng.choice(others)})
    force = rng.random() < 0.3
    if rng.random() < 0.03:
        evs.append({'op': 'src_delete', 'pr': 1})      # outside the property: the command raises, nothing changes
    evs.append({'op': 'reset', 'pr': 1, 'force': force})
    if rng.random() < 0.35:
        if rng.random() < 0.5:
            evs.append({'op': rng.choice(['w_commit', 'src_amend', 'src_commit', 'w_merge']), 'pr': 1, 'k': 0,
                        'shared': None, 'what': 'dst'})
        evs.append({'op': 'reset', 'pr': 1, 'force': rng.random() < 0.6})
    return cfg, mode, evs



# ----------------------------------------------------------------------------- generator, Conflict workflow

# The developer's side of Bert-E's Conflict message. Each slot is played (len(MERGE_KINDS) divides the tier sizes):
#  conflict-create   (a) another pull request puts a conflicting file on a later target; the evaluation answers
#                        Conflict "I have not created the integration branch"; the developer creates w/X/<src> from
#                        the destination branch and merges the source into it, resolving the conflict
#  fresh-create      (a) the same actions although the robot reported no conflict (before its first evaluation)
#  recreate          (b) the same on an integration branch the robot built (`checkout -B`: forced push of w/)
#  merge-dst         (c) the destination has moved and is merged BY HAND into the robot-built integration branch
#  create-then-dst   (a)/(b) then (c) on the hand-made integration branch
MERGE_KINDS = ['conflict-create', 'fresh-create', 'recreate', 'merge-dst', 'conflict-create', 'create-then-dst',
               'recreate', 'conflict-create']


def GEN_MERGE(rng, i):
    from .system import Config
    kind = MERGE_KINDS[i % len(MERGE_KINDS)]
    dests, tags = rng.choice(C15_TEMPLATES)
    mode = rng.choice(['queue', 'noqueue', 'noqueue', 'queue-skip'])
    cfg = Config(dests, tags, use_queue=mode != 'noqueue', skip_queue=mode == 'queue-skip',
                 no_octopus=rng.random() < 0.3, create_prs=rng.random() < 0.6, create_branches=True,
                 peers=0, leaders=0, author_approval=False, options=['bypass_jira_check'])
    cands = [d for d in dests if len(targets_of(dests, d)) >= 2]
    dst1 = rng.choice(cands)
    targets = targets_of(dests, dst1)
    t = rng.randrange(len(targets) - 1)            # the integration branch worked on: target 1 + t
    prefix = rng.choice(['feature', 'bugfix', 'improvement'])
    src1 = '%s/TEST-0001' % prefix
    conflict = kind.startswith('conflict')
    evs = [{'op': 'open', 'pr': 1, 'dst': dst1, 'src': src1}]
    if conflict:
        evs.append({'op': 'src_commit', 'pr': 1, 'shared': 'shared_a'})
    for _ in range(rng.choice([0, 0, 1])):
        evs.append({'op': 'src_commit', 'pr': 1, 'shared': None})
    # pull request 2 moves destinations (and brings the conflicting file); pull request 3 is a bystander with a
    # similar name that keeps its integration branches, and can move a destination later
    if conflict:
        dst2 = targets[1 + t]
    elif kind in ('merge-dst', 'create-then-dst'):
        dst2 = rng.choice(targets[:2 + t])          # its merge reaches target 1 + t
    else:
        dst2 = rng.choice(targets)
    evs.append({'op': 'open', 'pr': 2, 'dst': dst2, 'src': src1 + rng.choice(['0', '-bis', '1x'])})
    if conflict:
        evs.append({'op': 'src_commit', 'pr': 2, 'shared': 'shared_a'})
    nprs = 3 if rng.random() < 0.6 else 2
    if nprs == 3:
        evs.append({'op': 'open', 'pr': 3, 'dst': rng.choice(cands), 'src': '%s/TEST-0003' % prefix})
        evs.append({'op': 'eval_pr', 'pr': 3})
    unmerged = list(range(2, nprs + 1))

    def move_destination(k):
        unmerged.remove(k)
        evs.append({'op': 'progress', 'pr': k})
        if mode != 'noqueue':
            evs.append({'op': 'progress', 'pr': k})      # queued, then merged

    def create(what=None):
        evs.append({'op': 'w_create', 'pr': 1, 't': t, 'what': what or rng.choice(['src', 'src', 'src', 'prev'])})

    def maybe_eval(p=0.5):
        if rng.random() < p:
            evs.append({'op': 'eval_pr', 'pr': 1})

    if kind == 'conflict-create':
        evs.append({'op': 'eval_pr', 'pr': 2})
        move_destination(2)
        evs.append({'op': 'eval_pr', 'pr': 1})           # Conflict: the integration branch is not created
        create()
    elif kind == 'fresh-create':
        if rng.random() < 0.4:
            evs.append({'op': 'eval_pr', 'pr': 2})
            move_destination(2)
        create('src')
        # the first evaluation greets: a command commented before it is never run, so the robot must have seen the
        # pull request once (it finds the hand-made branch and builds the rest of the cascade on it)
        evs.append({'op': 'eval_pr', 'pr': 1})
        if rng.random() < 0.5:
            evs.append({'op': 'w_commit', 'pr': 1, 't': t})
    elif kind == 'recreate':
        evs.append({'op': 'eval_pr', 'pr': 1})
        r = rng.random()
        if r < 0.3:
            evs.append({'op': 'w_commit', 'pr': 1, 't': t})                      # dropped by the forced push
        elif r < 0.6:
            evs.append({'op': rng.choice(['src_commit', 'src_amend']), 'pr': 1, 'shared': None})
        create()
    elif kind == 'merge-dst':
        order = [1, 2]
        rng.shuffle(order)
        for k in order:
            evs.append({'op': 'eval_pr', 'pr': k})
        move_destination(2)
        evs.append({'op': 'w_merge', 'pr': 1, 't': t, 'what': 'dst'})
    else:                                                                           # create-then-dst
        first = rng.random() < 0.5
        if first:
            evs.append({'op': 'eval_pr', 'pr': 1})
        create('src')
        maybe_eval(0.5 if first else 1.0)                # (the robot has greeted before the command)
        evs.append({'op': 'eval_pr', 'pr': 2})
        move_destination(2)
        evs.append({'op': 'w_merge', 'pr': 1, 't': t, 'what': 'dst'})
    maybe_eval(0.5)                                       # the robot builds the rest of the cascade on top - or not
    for _ in range(rng.choice([0, 0, 1, 1, 2, 3])):
        r = rng.random()
        if r < 0.15:
            evs.append({'op': 'w_commit', 'pr': 1, 't': t})                        # on top of the hand-made merge
        elif r < 0.25:
            evs.append({'op': 'w_commit', 'pr': 1, 'k': rng.randint(0, 2)})
        elif r < 0.37:
            evs.append({'op': 'w_merge', 'pr': 1, 'k': rng.randint(0, 2), 'what': rng.choice(['dst', 'src'])})
        elif r < 0.52:
            evs.append({'op': rng.choice(['src_commit', 'src_amend', 'src_amend', 'src_reset']), 'pr': 1, 'n': 1,
                        'shared': None})
        elif r < 0.62 and unmerged:
            k = rng.choice(unmerged)
            if k == 2 and {'op': 'eval_pr', 'pr': 2} not in evs:
                evs.append({'op': 'eval_pr', 'pr': 2})
            move_destination(k)
        elif r < 0.74:
            evs.append({'op': 'w_create', 'pr': 1, 't': rng.choice([t, t, rng.randint(0, 2)]),
                        'what': rng.choice(['src', 'prev'])})
        else:
            evs.append({'op': 'eval_pr', 'pr': 1})
    evs.append({'op': 'reset', 'pr': 1, 'force': rng.random() < 0.25})
    if rng.random() < 0.35:
        r = rng.random()
        if r < 0.35:
            create('src')                                 # after a completed reset: on the rebuilt branch
            maybe_eval(0.5)
        elif r < 0.5:
            evs.append({'op': rng.choice(['src_amend', 'w_commit']), 'pr': 1, 't': t})
        evs.append({'op': 'reset', 'pr': 1, 'force': rng.random() < 0.6})
    return cfg, mode + ':' + kind, evs


# ----------------------------------------------------------------------------- executor

def make_run(cfg, base_dir=None):
    from .histories import Run
    from .system import CONTRIB, git

    class Run15(Run):
        """histories.Run plus: force-push of the source to an older commit, merge commits made by hand on an
        integration branch, the reset command with its observations, and the ghost sets."""

        def __init__(self, cfg, base_dir=None):
            super().__init__(cfg, base_dir)
            self.ever = {}        # pr index -> set of source tips ever seen
            self.manual = {}      # pr index -> [{'sha', 'kind', 'branch', 'how', 'onto'}]
            self.last_status = {}  # pr index -> status of the last evaluation of the pull request
            _wrap_real()

        # -- ghost bookkeeping ------------------------------------------------
        def note_tips(self):
            refs = self.w.refs()
            for k, pr in self.prs.items():
                if pr['src'] in refs:
                    self.ever.setdefault(k, set()).add(refs[pr['src']])

        def wnames(self, pr, refs):
            return sorted(n for n in refs if re.match(r'^w/[0-9.]+/%s$' % re.escape(pr['src']), n))

        # -- the graph of the bare repository ------------------------------------
        def graph(self):
            out = git(self.w.bare, 'log', '--all', '--topo-order', '--reverse', '--format=%H|%P|%an')
            shas, commits = {}, []
            for line in out.splitlines():
                h, ps, an = line.split('|', 2)
                shas[h] = len(commits)
                commits.append({'sha': h, 'parents': ps.split(), 'author': an})
            return shas, commits

        def reach(self, sha):
            return set(git(self.w.bare, 'rev-list', sha).split())

        # -- events -----------------------------------------------------------------
        def execute(self, ev):
            w = self.w
            op = ev['op']
            if op not in ('src_reset', 'src_amend', 'src_merge', 'src_delete', 'w_commit', 'w_merge', 'w_create',
                          'reset'):
                r = super().execute(ev)
                if r[0] == 'job' and r[1] and r[1].get('kind') == 'pr' and ev.get('pr') in self.prs:
                    self.last_status[ev['pr']] = r[1].get('status')
                return r
            refs = self.refs = w.refs()
            pr = self.prs.get(ev.get('pr'))
            if pr is None:
                return 'skip', None
            if op == 'src_amend':
                if pr['src'] not in refs or len(self._parents(refs[pr['src']])) != 1:
                    return 'skip', None
                w.user_amend(pr['src'])
                return 'ext', {'amended': pr['src']}
            if op == 'src_delete':
                if pr['src'] not in refs:
                    return 'skip', None
                w._fetch()
                git(w.work, 'push', '-q', 'origin', ':refs/heads/' + pr['src'])
                return 'ext', {'deleted': pr['src']}
            if op == 'src_merge':
                if pr['src'] not in refs or pr['dst'] not in refs or \
                        w.is_ancestor(refs[pr['dst']], refs[pr['src']]):
                    return 'skip', None
                if not self.hand_merge(pr['src'], pr['dst']):
                    return 'skip', None
                return 'ext', {'merged': pr['src']}
            if op == 'src_reset':
                if pr['src'] not in refs or pr['dst'] not in refs:
                    return 'skip', None
                out = git(w.bare, 'rev-parse', '--verify', '-q', '%s~%d' % (refs[pr['src']], ev.get('n', 1)),
                          check=False).strip()
                if not out or w.is_ancestor(out, refs[pr['dst']]):
                    return 'skip', None          # the branch would hold nothing of its own
                w._fetch()
                git(w.work, 'push', '-q', '-f', 'origin', '%s:refs/heads/%s' % (out, pr['src']))
                return 'ext', {'xpoint': (pr['src'], out)}
            if op in ('w_commit', 'w_merge'):
                ws = self.wnames(pr, refs)
                if not ws:
                    return 'skip', None
                name = ws[ev.get('k', 0) % len(ws)]
                if ev.get('t') is not None:
                    # the integration branch of the t-th target after the first one (cascade order)
                    name = self.wname_of(pr, ev['t'])[0]
                    if name not in refs:
                        return 'skip', None
                onto = refs[name]
                if op == 'w_commit':
                    w.user_commit(name, author=CONTRIB)
                    kind = 'commit'
                else:
                    ver = name.split('/')[1]
                    dname = [d for d in self.cfg.dests if d.split('/')[1] == ver and not d.startswith('hotfix/')][0]
                    # what the developer merges by hand: the destination or the source, whichever brings something
                    cands = [pr['src'], dname] if ev.get('what') == 'src' else [dname, pr['src']]
                    cands = [o for o in cands if o in refs and not w.is_ancestor(refs[o], refs[name])]
                    if not cands or not self.hand_merge(name, cands[0]):
                        return 'skip', None      # already up to date
                    kind = 'merge'
                sha = w.refs()[name]
                assert self._parents(sha)[0] == onto, (sha, onto)     # made on top of the integration branch
                how = 'on-top' if kind == 'commit' else 'merged-into'
                self.manual.setdefault(ev['pr'], []).append({'sha': sha, 'kind': kind, 'branch': name, 'how': how,
                                                             'onto': onto})
                return 'ext', {'manual': (name, sha, kind), 'how': how}
            if op == 'w_create':
                # the developer's part of the Conflict workflow ("I have not created the integration branch"):
                #   git fetch; git checkout -B w/X/<src> origin/<destination X>; git merge origin/<source>;
                #   <conflict resolution>; git commit; git push -u origin w/X/<src>
                # also done when the robot reported nothing of the kind, and on a branch that already exists
                # (`checkout -B` starts it again from the destination: the push is then a forced one)
                name, dname = self.wname_of(pr, ev.get('t', 0))
                if name is None or dname not in refs or pr['src'] not in refs:
                    return 'skip', None
                other = pr['src']
                if ev.get('what') == 'prev':
                    # what the message names: the previous integration branch of the cascade (when it is on the remote)
                    pname = self.wname_of(pr, ev.get('t', 0) - 1)[0] if ev.get('t', 0) > 0 else None
                    if pname in refs:
                        other = pname
                if w.is_ancestor(refs[other], refs[dname]) or w.is_ancestor(refs[dname], refs[other]):
                    return 'skip', None          # `git merge` would make no commit (up to date / fast-forward)
                sha = self.hand_create(name, dname, other, force=name in refs)
                if sha is None:
                    return 'skip', None
                ps = self._parents(sha)
                assert ps == [refs[dname], refs[other]], (ps, refs[dname], refs[other])
                how = 'recreated' if name in refs else \
                    ('created-after-conflict' if self.last_status.get(ev['pr']) == 'Conflict' else 'created')
                self.manual.setdefault(ev['pr'], []).append({'sha': sha, 'kind': 'merge', 'branch': name, 'how': how,
                                                             'onto': refs[dname]})
                return 'ext', {'manual': (name, sha, 'merge'), 'how': how + (':prev' if other != pr['src'] else ':src')}
            if op == 'reset':
                return 'job', self.do_reset(ev, pr)
            raise ValueError(op)

        def wname_of(self, pr, t):
            """(name of the integration branch, name of its destination) for the t-th target after the first"""
            ts = targets_of(self.cfg.dests, pr['dst'])[1:]
            if not ts:
                return None, None
            d = ts[t % len(ts)]
            return 'w/%s/%s' % (d.split('/')[1], pr['src']), d

        def hand_create(self, name, dname, other, force):
            """`git checkout -B <name> origin/<dname>; git merge origin/<other>` by the contributor, conflicts resolved by
            hand, pushed (forced when the branch exists). Returns the merge commit or None when git made none."""
            import subprocess
            w = self.w
            w._fetch()
            git(w.work, 'checkout', '-q', '-B', name, 'origin/' + dname)
            start = git(w.work, 'rev-parse', 'HEAD').strip()
            ident = ['-c', 'user.name=%s' % CONTRIB, '-c', 'user.email=c@x']

            def leave():
                git(w.work, 'checkout', '-q', '--detach')
                git(w.work, 'branch', '-q', '-D', name, check=False)
            p = subprocess.run(['git'] + ident + ['merge', '--no-edit', '-q', 'origin/' + other],
                               cwd=w.work, env=w._env(), stdout=subprocess.PIPE, stderr=subprocess.PIPE)
            if p.returncode != 0:
                files = git(w.work, 'diff', '--name-only', '--diff-filter=U').split()
                ok = bool(files)
                for fn in files:
                    with open(os.path.join(w.work, fn), 'w') as fh:
                        fh.write('resolved by hand %d\n' % w.counter)
                    w.counter += 1
                if ok:
                    git(w.work, 'add', '-A')
                    p = subprocess.run(['git'] + ident + ['commit', '-q', '--no-edit'], cwd=w.work, env=w._env(),
                                       stdout=subprocess.PIPE, stderr=subprocess.PIPE)
                    ok = p.returncode == 0
                if not ok:
                    git(w.work, 'merge', '--abort', check=False)
                    leave()
                    return None
                self.resolved = getattr(self, 'resolved', 0) + 1
            sha = git(w.work, 'rev-parse', 'HEAD').strip()
            ps = git(w.work, 'rev-parse', 'HEAD^@', check=False).split()
            if sha == start or len(ps) != 2 or ps[0] != start:
                leave()
                return None
            git(w.work, 'push', '-q', *(['-f'] if force else []), 'origin', '%s:refs/heads/%s' % (name, name))
            leave()
            return sha

        def hand_merge(self, name, other):
            """a merge commit made by the contributor on the integration branch (conflicts resolved by hand)"""
            w = self.w
            w._fetch()
            git(w.work, 'checkout', '-q', '-B', 'tmpwork', 'origin/' + name)
            ident = ['-c', 'user.name=%s' % CONTRIB, '-c', 'user.email=c@x']
            import subprocess
            p = subprocess.run(['git'] + ident + ['merge', '--no-ff', '--no-edit', '-q', 'origin/' + other],
                               cwd=w.work, env=w._env(), stdout=subprocess.PIPE, stderr=subprocess.PIPE)
            if p.returncode != 0:
                # resolve every conflict by writing a new content, as a developer would
                files = git(w.work, 'diff', '--name-only', '--diff-filter=U').split()
                if not files:
                    git(w.work, 'merge', '--abort', check=False)
                    git(w.work, 'checkout', '-q', '--detach')
                    return False
                for fn in files:
                    with open(os.path.join(w.work, fn), 'w') as fh:
                        fh.write('resolved by hand %d\n' % w.counter)
                    w.counter += 1
                git(w.work, 'add', '-A')
                p = subprocess.run(['git'] + ident + ['commit', '-q', '--no-edit'], cwd=w.work, env=w._env(),
                                   stdout=subprocess.PIPE, stderr=subprocess.PIPE)
                if p.returncode != 0:
                    git(w.work, 'merge', '--abort', check=False)
                    git(w.work, 'checkout', '-q', '--detach')
                    return False
            git(w.work, 'push', '-q', 'origin', 'tmpwork:' + name)
            git(w.work, 'checkout', '-q', '--detach')
            return True

        def do_reset(self, ev, pr):
            w = self.w
            before = w.refs()
            host_before = w.prs()
            shas, commits = self.graph()
            del _LAST[:]
            w.comment(pr['id'], CONTRIB, '@%s %s' % ('robot', 'force_reset' if ev.get('force') else 'reset'))
            status = w.eval_pr(pr['id'])
            calls = _LAST[-1] if _LAST else None
            after = w.refs()
            host_after = w.prs()
            info = {'kind': 'reset', 'pr': pr, 'force': bool(ev.get('force')), 'status': status,
                    'before': before, 'after': after, 'host_before': host_before, 'host_after': host_after,
                    'shas': shas, 'commits': commits, 'calls': calls}
            self.last_status[ev['pr']] = status
            if status == 'ResetComplete':
                info['rebuild_status'] = self.last_status[ev['pr']] = w.eval_pr(pr['id'])
                info['rebuild_refs'], info['rebuild_anc'] = self.observe()
                info['rebuild_host'] = w.prs()
            return info

    return Run15(cfg, base_dir)


# ----------------------------------------------------------------------------- model line

def export_line(run, info):
    from .histories import ref_code, dest_code
    pr = info['pr']
    shas, commits = info['shas'], info['commits']
    graph = ','.join('%s/%d' % ('.'.join(str(shas[p]) for p in c['parents']) or '-',
                                1 if c['author'] == 'robot' else 0) for c in commits)
    refs = ','.join('%s=%d' % (ref_code(n), shas[s]) for n, s in sorted(info['before'].items()))
    prs = ','.join('%d:%d:%s' % (p['id'], 1 if p['state'] == 'OPEN' else 0, ref_code(p['src']))
                   for p in info['host_before']) or '-'
    dests = ','.join(dest_code(d) for d in run.cfg.dests)
    return 'C15 reset %d g g %d %s %s %d %s %s %s %s' % (
        1 if info['force'] else 0, pr['id'], pr['src'], dest_code(pr['dst']), 1 if run.cfg.use_queue else 0,
        dests, refs, graph, prs)


def eval_line(run, info, stage, orc):
    from .histories import ref_code, dest_code, no_octopus_of
    pr = info['pr']
    shas, commits = info['shas'], info['commits']
    graph = ','.join('%s/%d' % ('.'.join(str(shas[p]) for p in c['parents']) or '-',
                                1 if c['author'] == 'robot' else 0) for c in commits)
    refs = ','.join('%s=%d' % (ref_code(n), shas[s]) for n, s in sorted(info['after'].items()))
    dests = ','.join(dest_code(d) for d in run.cfg.dests)
    return 'C15 eval %d %s %s %d %d %s %s %s %s %s %d' % (
        pr['id'], pr['src'], dest_code(pr['dst']), 1 if run.cfg.use_queue else 0, 1 if run.cfg.skip_queue else 0,
        dests, refs, graph, stage, orc, 1 if no_octopus_of(run, pr) else 0)


def real_summary(run, info):
    """what the real command did, in the vocabulary of the model's answer"""
    from .histories import ref_code
    shas = info['shas']
    refs_after = ','.join('%s=%d' % (c, n) for c, n in sorted((ref_code(n), shas[s])
                                                              for n, s in info['after'].items() if s in shas))
    st_b = {p['id']: p['state'] for p in info['host_before']}
    declined = [p['id'] for p in info['host_after'] if p['state'] == 'DECLINED' and st_b.get(p['id']) == 'OPEN']
    return refs_after, declined


def compare_reset(run, info, answer):
    """model answer vs real observation; returns (reason or None, details)"""
    from .histories import version_dest_code
    parts = answer.split('|')
    if len(parts) != 4:
        return 'model answered %r' % answer[:200], None
    outcome, mrefs, mdecl, mbranches = parts
    status = info['status']
    if outcome == 'crash' and status == 'CommandError':      # `git log dst..src` on a missing source branch
        outcome = status
    if outcome != status:
        return 'outcome: real %s, model %s' % (status, outcome), None
    refs_after, declined = real_summary(run, info)
    if any(s not in info['shas'] for s in info['after'].values()):
        return 'the command created commits', None
    if mrefs != refs_after:
        return 'refs after: real %s, model %s' % (refs_after, mrefs), None
    md = sorted(int(x) for x in mdecl.split(',') if x)
    if md != sorted(declined):
        return 'declined: real %s, model %s' % (sorted(declined), md), None
    # what git listed to _reset, branch by branch: feature = src..dst, then the walk
    calls = info['calls'] or []
    shas = info['shas']
    src = info['pr']['src']
    real_br = {}
    for i in range(0, len(calls) - 1, 2):
        f, wl = calls[i], calls[i + 1]
        if f['of'] != src or not wl['of'].startswith('w/'):
            return 'unexpected get_commit_diff sequence %s' % [(c['of'], c['minus']) for c in calls], None
        ver = wl['of'].split('/')[1]
        real_br[version_dest_code(ver)] = (sorted(shas[s] for s in f['shas']), [shas[s] for s in wl['shas']])
    model_br = {}
    for b in (mbranches.split(';') if mbranches else []):
        f = b.split('~')
        if status == 'CommandError' and f[1:] == ['missing']:
            continue
        if len(f) != 5:
            return 'model branch detail %r' % b, None
        nums = lambda s: [int(x) for x in s.split('.') if x]
        model_br[f[0]] = (f[1] == '1', nums(f[2]), nums(f[3]), nums(f[4]))
    if calls and set(real_br) != set(model_br):
        return 'integration branches walked: real %s, model %s' % (sorted(real_br), sorted(model_br)), None
    order_ok = True
    for d, (rf, rw) in real_br.items():
        lossy, mf, mw, mfe = model_br[d]
        if rf != sorted(mf):
            return 'git log dst..src for %s: real %s, model %s' % (d, rf, sorted(mf)), None
        if sorted(rw) != sorted(mw):
            return 'git log dst..w for %s: real %s, model %s' % (d, sorted(rw), sorted(mw)), None
        # the assumption on git's order, exactly as the theorem `C15_walk_exact` needs it: the single parent of a
        # listed commit, when that parent could itself join the `feature` set (not the robot's, one parent),
        # is listed after it (git lists children first)
        pos = {c: i for i, c in enumerate(rw)}
        for c in rw:
            ps = info['commits'][c]['parents']
            if len(ps) != 1:
                continue
            pn = shas[ps[0]]
            pc = info['commits'][pn]
            if pc['author'] != 'robot' and len(pc['parents']) == 1 and pn in pos and pos[pn] < pos[c]:
                order_ok = False
    return None, {'order_ok': order_ok, 'lossy': {d: v[0] for d, v in model_br.items()},
                  'sizes': {d: (len(v[1]), len(v[2])) for d, v in model_br.items()}}


def compare_rebuild(run, info, model):
    from .histories import compare, parse_model_obs, INTEGRATION_STATUS, orc_candidates, no_octopus_of
    st = info.get('rebuild_status')
    if st in INTEGRATION_STATUS:
        alts = [('i', '-')]
    elif st == 'Conflict':
        alts = [('i', o) for o in orc_candidates(no_octopus_of(run, info['pr']))]
    else:
        return 'skip', None
    lines = [eval_line(run, info, stage, orc) for stage, orc in alts]
    why0 = None
    for a in model.ask(lines):
        if a.startswith('bad-op'):
            why0 = why0 or a
            continue
        mobs = parse_model_obs(a)
        r = compare(info['rebuild_refs'], info['rebuild_anc'], mobs, dict(info['shas']))
        if not isinstance(r, str):
            if st in INTEGRATION_STATUS and mobs[0] != 'gate':
                why0 = why0 or 'outcome: real %s, model %s' % (st, mobs[0])
                continue
            return 'ok', None
        why0 = why0 or r
    return 'differ', why0


# ----------------------------------------------------------------------------- the property, in its own words

def held_work(run, k, pr, before):
    """(integration branches of pull request `k` in the refs `before`, the manual work they hold): the entries of
    the ghost set `manual` that an integration branch of the pull request reaches, its destination does not, and
    that never were on the source branch - decided on the real graph of the bare repository"""
    wnames = [n for n in before if re.match(r'^w/[0-9.]+/%s$' % re.escape(pr['src']), n)]
    ever = set()
    for t in run.ever.get(k, ()):
        ever |= run.reach(t)
    # manual work still held by an integration branch of this pull request
    held = []
    for n in wnames:
        ver = n.split('/')[1]
        dst = [d for d in run.cfg.dests if d.split('/')[1] == ver and not d.startswith('hotfix/')]
        if not dst or dst[0] not in before:
            continue
        inw = run.reach(before[n]) - run.reach(before[dst[0]])
        for m in run.manual.get(k, ()):
            if m['sha'] in inw and m['sha'] not in ever and m not in held:
                held.append(m)
    return wnames, held


def oracle_reset(run, ev, info):
    """The property text on one executed command."""
    fails = []
    pr = info['pr']
    k = ev['pr']
    before, after = info['before'], info['after']
    status = info['status']
    wnames, held = held_work(run, k, pr, before)
    obs = {'status': status, 'force': info['force'], 'held': [(m['kind'], m['branch']) for m in held],
           'integration_branches': sorted(wnames)}
    st_b = {p['id']: (p['state'], p['src']) for p in info['host_before']}
    st_a = {p['id']: (p['state'], p['src']) for p in info['host_after']}
    if status not in ('ResetComplete', 'LossyResetWarning'):
        return fails, obs, held
    if held and not info['force'] and status != 'LossyResetWarning':
        only_merges = all(m['kind'] == 'merge' for m in held)
        fails.append({'key': KEY_MERGE if only_merges else KEY_COMMIT,
                      'what': 'reset answered %s and deleted %s although %s holds %s made by hand (%s)'
                              % (status, sorted(set(before) - set(after)), held[0]['branch'],
                                 'a merge commit' if held[0]['kind'] == 'merge' else 'a commit', held[0]['sha'][:8]),
                      'observation': obs})
    if status == 'LossyResetWarning':
        if info['force']:
            fails.append({'key': 'force-refused', 'what': 'force_reset answered LossyResetWarning', 'observation': obs})
        if after != before or st_a != st_b:
            fails.append({'key': 'refusal-changed-something',
                          'what': 'reset refused but refs or pull requests changed: %s'
                                  % sorted(set(before.items()) ^ set(after.items())), 'observation': obs})
    if status == 'ResetComplete':
        want = {n: s for n, s in before.items() if n not in wnames}
        if after != want:
            fails.append({'key': 'scope-refs',
                          'what': 'a completed reset must remove exactly %s; difference with the expected refs: %s'
                                  % (sorted(wnames), sorted(set(want.items()) ^ set(after.items()))),
                          'observation': obs})
        for i, (state, src) in st_b.items():
            exp = 'DECLINED' if (state == 'OPEN' and src in wnames) else state
            if st_a.get(i, (None,))[0] != exp:
                fails.append({'key': 'scope-prs',
                              'what': 'pull request %d (source %s) is %s after the reset, expected %s'
                                      % (i, src, st_a.get(i, (None,))[0], exp), 'observation': obs})
        if set(st_a) != set(st_b):
            fails.append({'key': 'scope-prs', 'what': 'pull requests appeared during the reset', 'observation': obs})
        rs = info.get('rebuild_status')
        obs['rebuild'] = rs
        from .histories import INTEGRATION_STATUS
        if rs in INTEGRATION_STATUS or rs in ('Queued', 'ApprovalRequired'):
            ts = targets_of(run.cfg.dests, pr['dst'])[1:]
            missing = ['w/%s/%s' % (d.split('/')[1], pr['src']) for d in ts
                       if 'w/%s/%s' % (d.split('/')[1], pr['src']) not in info['rebuild_refs']]
            if missing:
                fails.append({'key': 'not-rebuilt', 'what': 'the evaluation after the reset (%s) left %s missing'
                                                             % (rs, missing), 'observation': obs})
    return fails, obs, held


# ----------------------------------------------------------------------------- one history

def play15(cfg, events, model, base_dir=None):
    run = make_run(cfg, base_dir)
    out = {'failures': [], 'disagreement': None, 'stats': {}, 'compared': 0, 'statuses': [], 'resets': []}
    stats = out['stats']

    def count(k, n=1):
        stats[k] = stats.get(k, 0) + n
    hand_since_eval = False      # a hand-made commit on an integration branch that no evaluation has seen yet
    try:
        run.note_tips()
        for n, ev in enumerate(events):
            kind, info = run.execute(ev)
            count('ev:' + ev['op'])
            if kind == 'skip':
                count('skipped:' + ev['op'])
                continue
            run.note_tips()
            if kind == 'ext' and info and info.get('how'):
                count('hand:' + info['how'])
                hand_since_eval = True
            if ev['op'] in ('eval_pr', 'progress') and ev.get('pr') == 1:
                hand_since_eval = False
                if info and info.get('status') == 'Conflict':
                    count('conflict-reported-on-pr1')
            if kind == 'job' and info and info.get('status'):
                out['statuses'].append(info['status'])
                count('status:' + info['status'])
            if ev['op'] != 'reset':
                continue
            status = info['status']
            fails, obs, held = oracle_reset(run, ev, info)
            for f in fails:
                f = dict(f)
                f['at'] = n
                out['failures'].append(f)
            count('reset:%s:%s' % ('force' if info['force'] else 'plain', status))
            count('reset:held=%d' % min(len(held), 3))
            for m in held:
                count('held:' + m['kind'])
                count('held-how:' + m.get('how', '?'))
            if held:
                count('reset-with-held:%s:%s' % ('force' if info['force'] else 'plain',
                                                 'not-evaluated-since' if hand_since_eval else 'evaluated-since'))
            hand_since_eval = False
            if status == 'LossyResetWarning' and not held:
                count('refusal-without-manual-work')
            if 'rebuild_status' in info:
                count('rebuild:' + str(info['rebuild_status']))
            count('graph:%d+' % (10 * (len(info['commits']) // 10)))
            out['resets'].append({'force': info['force'], 'status': status, 'held': obs['held'],
                                  'rebuild': info.get('rebuild_status'), 'commits': len(info['commits'])})
            if model is None or status not in ('ResetComplete', 'LossyResetWarning', 'CommandError'):
                if status not in ('ResetComplete', 'LossyResetWarning', 'CommandError'):
                    count('reset-not-run')
                continue
            if out['disagreement'] is not None:
                continue
            line = export_line(run, info)
            ans = model.ask([line])[0]
            why, det = compare_reset(run, info, ans)
            out['compared'] += 1
            if why is None and not det['order_ok']:
                why = 'git listed a parent before one of its children (assumption of the order)'
            if why is None and status == 'ResetComplete':
                r, w2 = compare_rebuild(run, info, model)
                count('rebuild-compare:' + r)
                if r == 'ok':
                    out['compared'] += 1
                if r == 'differ':
                    why = 'rebuild (%s): %s' % (info.get('rebuild_status'), w2)
                    line = eval_line(run, info, 'i', '-')
            if why is not None:
                out['disagreement'] = {'at': n, 'why': why, 'status': status, 'line': line, 'answer': ans[:2000]}
            else:
                for d, (nf, nw) in det['sizes'].items():
                    count('walk:%d' % min(nw, 6))
                for d, l in det['lossy'].items():
                    count('branch-lossy:%d' % l)
    finally:
        run.close()
    return out


def _work(args):
    seed, i, use_model, base = args
    from . import common as c
    if isinstance(i, tuple) and i[0] == 'corpus':
        return _corpus_one(i[1], use_model, base)
    if isinstance(i, tuple):                       # ('merge', j): the Conflict-workflow family
        rng = c.rng_for(seed, PID, i[0], i[1])
        cfg, mode, evs = GEN_MERGE(rng, i[1])
    else:
        rng = c.rng_for(seed, PID, i)
        cfg, mode, evs = GEN(rng)
    model = c.Model() if use_model else None
    try:
        out = play15(cfg, evs, model, base)
    except Exception:
        import traceback
        return {'i': i, 'cfg': cfg.as_dict(), 'events': evs, 'error': traceback.format_exc()[-3000:]}
    out.update({'i': i, 'mode': mode, 'cfg': cfg.as_dict(), 'events': evs})
    return out


def _corpus_files():
    d = os.path.join(common.CORPUS_DIR, PID)
    if not os.path.isdir(d):
        return []
    return [fn for fn in sorted(os.listdir(d)) if fn.endswith('.json')]


def _corpus_one(fn, use_model, base):
    from .system import Config
    with open(os.path.join(common.CORPUS_DIR, PID, fn)) as fh:
        h = json.load(fh)
    cfgd = dict(h['cfg'])
    cfg = Config(cfgd.pop('dests'), **cfgd)
    try:
        out = play15(cfg, h['events'], common.Model() if use_model else None, base)
    except Exception:
        import traceback
        return {'i': 'corpus:' + fn, 'cfg': cfg.as_dict(), 'events': h['events'],
                'error': traceback.format_exc()[-3000:]}
    out.update({'i': 'corpus:' + fn, 'mode': 'corpus', 'cfg': cfg.as_dict(), 'events': h['events']})
    return out


RULE = ('seeded histories on the real system: 1-3 pull requests with similar source names on 6 cascade templates '
        '(2-3 targets, stabilization, major-only) x {queue, queue+skip, no queue} x octopus on/off x integration '
        'pull requests on/off; integration branches created, then 2-9 events in random order among source '
        'commit/amend/rebase/reset-to-older-commit, destination moved by merging another pull request, 0-3 commits '
        'and merge commits made by hand on the integration branches of this and of the other pull requests, '
        'evaluations; then reset or force_reset (sometimes a second one), then the rebuilding evaluation. '
        'Conflict-workflow family (8 scripted slots, every slot played): w/X/<src> made by hand from the destination '
        'tip with a merge of the source (after a reported Conflict on that target / unprompted / on an existing '
        'branch = forced push), the moved destination merged by hand into a robot-built or hand-made integration '
        'branch, commits on top, 0-3 further random events, reset / force_reset with and without an evaluation in '
        'between. Every '
        'command: status, all refs, all pull requests, the lists git returned to _reset, compared with the model on '
        'the exported commit graph; oracle = the property text with the ghost sets `manual` and `ever`; '
        'non-trivial = a command that ran with at least one integration branch')


def absorb(res, o):
    res.evaluations += 1
    res.model_compared += o['compared']
    for k, v in o['stats'].items():
        res.count(k, v)
    mode = str(o.get('mode'))
    res.count('mode:%s' % mode.split(':')[0])
    if ':' in mode:
        res.count('family:%s' % mode.split(':', 1)[1])
    if any(r['status'] in ('ResetComplete', 'LossyResetWarning') for r in o['resets']):
        res.distinct.add(json.dumps([o['cfg'], o['events']], sort_keys=True, default=str))
    if o['disagreement']:
        d = o['disagreement']
        res.disagreements.append({'input': {'cfg': o['cfg'], 'events': o['events'][:d['at'] + 1]},
                                  'real': d.get('status'), 'model': d.get('why'), 'at': d.get('at'),
                                  'line': d.get('line'), 'answer': d.get('answer')})
    for f in o['failures']:
        f = dict(f)
        f['input'] = {'cfg': o['cfg'], 'events': o['events'][:f.get('at', len(o['events'])) + 1]}
        res.oracle_failures.append(f)
    if len(res.samples) < 4 and o['resets']:
        res.samples.append({'cfg': {k: o['cfg'][k] for k in ('dests', 'use_queue', 'create_prs')},
                            'events': o['events'], 'resets': o['resets']})


def correspondence(ctx):
    res = Result()
    res.rule = RULE
    n = (120 if ctx.tier == 'quick' else 2500) * ctx.scale
    n_merge = (N_MERGE_QUICK if ctx.tier == 'quick' else 1200) * ctx.scale
    base = common.scratch()
    use_model = ctx.model is not None
    # corpus first, then the Conflict-workflow family, then the uniform histories - all through the one pool
    items = [('corpus', fn) for fn in _corpus_files()] + [('merge', j) for j in range(n_merge)] + list(range(n))
    from . import c15_faults
    import time
    with Pool(common.NCPU) as pool:
        t0 = time.time()
        fault_async = c15_faults.submit(pool, ctx, base)       # scripted, every run; shares the pool with the histories
        outs = pool.map(_work, [(ctx.seed, i, use_model, base) for i in items], chunksize=1)
        t1 = time.time()
        fault_outs = fault_async.get()
        t2 = time.time()
    errors = [o for o in outs if 'error' in o]
    if errors:
        raise RuntimeError('history harness failed on %d histories; first: %s' % (len(errors), errors[0]['error']))
    for o in outs:
        absorb(res, o)
    c15_faults.collect(res, fault_outs)
    res.extra['wall_s_by_part'] = {'histories (fault units in the same pool)': round(t1 - t0, 1),
                                   'waiting for the fault units after the histories': round(t2 - t1, 1),
                                   'fault units, summed over the workers': round(sum(o.get('seconds', 0)
                                                                                     for o in fault_outs), 1)}
    res.rule += (' || FAULT BLOCK (harness/c15_faults.py, scripted, every run): %d histories {commit on the last / first '
                 'integration branch, hand-made merge of the moved destination, integration branch re-created by hand, '
                 'work before and after an evaluation, stabilization cascade with a merge and a commit} x {no queue, queue, '
                 'queue+skip} x integration pull requests on/off; the evaluation that executes the non-forced `reset` is run '
                 'once per git command it issues before its last push, that command failing once (CommandError); after a '
                 'fault that leaves state in the mirror cache the pull request is evaluated once more; oracle: manual work '
                 'held => nothing deleted, every integration branch and every held commit still there, whatever the answer'
                 % len(c15_faults.scripted()))
    res.extra['commands_compared_with_model'] = res.model_compared
    return res


def replay(ctx, payload):
    from .system import Config
    inp = payload['failure']['input'] if 'failure' in payload else payload['input']
    from . import c15_faults
    if c15_faults.is_fault_input(inp):
        return c15_faults.replay(ctx, inp)
    cfgd = dict(inp['cfg'])
    cfg = Config(cfgd.pop('dests'), **cfgd)
    out = play15(cfg, inp['events'], ctx.model)
    out.update({'i': 'replay', 'mode': 'replay', 'cfg': cfg.as_dict(), 'events': inp['events']})
    res = Result()
    absorb(res, out)
    return res
