"""C13 — tie between the Lean model of the job dispatcher (Model/Dispatcher.lean) and the real
`BertE.put_job` / `BertE.process_task` / job `__eq__`, by controlled scheduling of the real code.

The real methods run in real threads (request threads calling `put_job`, one worker running
`while True: process_task()`) under a cooperative scheduler built on `sys.settrace`: every source line
of `put_job`, `process_task` and of the jobs' `__eq__` is a yield point; exactly one thread runs from
one yield point to its next; the worker's `task_queue.get()` line is enabled only when the queue is not
empty. `BertE.process` is the real one (server mode: `backtrace=True`); only `dispatch` (the workflow) is
a stub that ends the way the scenario says (no exception / silent / template / internal / JobFailure /
other Exception / SystemExit), and `git_repo.reset` does nothing.

Each execution yields
  * the action trace (accept / check / checkFail / put / skip / get / finish) with the real
    queue / current-job marker / tasks_done after every action: the driver must accept the trace and show
    the same states (real executions are traces of the model);
  * raw marks (request received, put_job returned or raised, evaluation started, process_task returned),
    on which the property oracle is evaluated independently of the model.
Schedules: depth-first with a preemption bound, then random ones from the seed.
"""
import ast
import glob
import inspect
import json
import multiprocessing
import os
import sys
import threading
import time
from collections import deque
from types import SimpleNamespace
from unittest import mock

from . import common
from .pipeline import Result

PID = 'C13'
TABLES = ['Dispatcher']
LEAN_TARGETS = ['BertE.Props.C13']
ASSUMPTIONS = [
    'an HTTP request is "accepted" when put_job returns normally (the handler then answers 200/202); when the '
    'membership test of put_job raises RuntimeError (deque mutated during iteration) the request is answered 500',
    'a statement of put_job / process_task / __eq__ is atomic except at the Python-level calls it makes '
    '(CPython, GIL): deque.__contains__ either answers for the deque as it was when the walk began or raises '
    'RuntimeError; Queue.put / Queue.get / deque.appendleft / dict.pop are atomic; checked on the real objects '
    'at source-line granularity, trusted below',
    'a job ends with no exception or with an Exception; SystemExit / KeyboardInterrupt raised inside a job '
    '(requests to stop the process) end the worker thread and are outside the property (C13_scope_exit)',
    'str(err) and logging do not raise; every webhook thread and the worker are scheduled fairly '
    '(the theorems give safety and enabledness, not a time bound)',
]
TRUSTED = [
    'Lean 4 kernel; axioms of every theorem audited (subset of propext, Classical.choice, Quot.sound)',
    'harness/tables/dispatcher.py (AST extraction of put_job, process_task, the worker loop, the __eq__ methods, '
    'tasks_done bound and exception MROs)',
    'harness/c13.py: the line-level cooperative scheduler (sys.settrace), the mapping of line events to model '
    'actions and the stub `dispatch`',
    'modelled, not verified: CPython sub-line atomicity of deque / Queue / dict operations; Flask turning an '
    'exception of put_job into a 500 answer',
]

KINDS = {'p': 'PullRequestJob', 'c': 'CommitJob', 'a': 'APIJob'}
# outcome name -> (family of the model, how the stub ends)
OUTCOMES = ['ok', 'silent', 'template', 'internal', 'failure', 'other', 'keyerror', 'exit', 'empty']
PROPERTY_OUTCOMES = {'ok', 'silent', 'template', 'internal', 'failure', 'other', 'keyerror', 'empty'}


class _Stop(BaseException):
    """Raised inside a parked thread to end an execution."""


# --------------------------------------------------------------------------- the real system under test

_SYS = {}


def _load():
    """Import the real modules once; locate the traced code objects and their interesting lines."""
    if _SYS:
        return _SYS
    import bert_e.bert_e as bmod
    import bert_e.exceptions as exc
    import bert_e.job as jobmod
    put_code = bmod.BertE.put_job.__code__
    task_code = bmod.BertE.process_task.__code__
    eq_codes = set()
    for cls in (jobmod.PullRequestJob, jobmod.CommitJob, jobmod.QueuesJob, jobmod.APIJob):
        fn = vars(cls).get('__eq__')
        if fn is not None:
            eq_codes.add(fn.__code__)
    # lines of put_job: the test of the `if`, the put call
    src_lines, first = inspect.getsourcelines(bmod.BertE.put_job)
    import textwrap
    tree = ast.parse(textwrap.dedent(''.join(src_lines)))
    fn = tree.body[0]
    off = first - 1
    test_lines, put_lines = set(), set()
    for node in ast.walk(fn):
        if isinstance(node, ast.If) and not test_lines:
            for n in ast.walk(node.test):
                if hasattr(n, 'lineno'):
                    test_lines.update(range(n.lineno + off, getattr(n, 'end_lineno', n.lineno) + off + 1))
            test_lines.add(node.lineno + off)
        if isinstance(node, ast.Call) and ast.unparse(node.func).endswith('task_queue.put'):
            put_lines.add(node.lineno + off)
    src_lines, first = inspect.getsourcelines(bmod.BertE.process_task)
    get_line = proc_line = None
    for i, l in enumerate(src_lines):
        if 'task_queue.get()' in l and get_line is None:
            get_line = first + i
        if 'self.process(' in l and proc_line is None:
            proc_line = first + i
    import logging
    logging.disable(logging.CRITICAL)          # the dispatcher logs every job; nothing of it is observed
    _SYS.update(bmod=bmod, exc=exc, jobmod=jobmod, put_code=put_code, task_code=task_code,
                eq_codes=eq_codes, traced={put_code, task_code} | eq_codes,
                test_lines=test_lines, put_lines=put_lines, get_line=get_line, proc_line=proc_line)
    return _SYS


def _make_berte():
    """A real BertE built by the real __init__ (host client, git repository and option setup stubbed)."""
    S = _load()
    bmod = S['bmod']
    settings = mock.MagicMock()
    settings.repository_host = 'mock'
    settings.robot_password = 'pw'
    settings.cmd_line_options = []
    settings.disable_queues = False
    repo = SimpleNamespace(full_name='owner/slug', owner='owner', slug='slug', git_url='file:///nowhere')
    client = SimpleNamespace(get_repository=lambda **kw: repo)
    with mock.patch.object(bmod, 'client_factory', lambda *a, **k: client), \
            mock.patch.object(bmod, 'GitRepository', lambda *a, **k: SimpleNamespace(
                tmp_directory='/nonexistent', reset=lambda: None)), \
            mock.patch.object(bmod.gwf, 'setup', lambda *a, **k: None):
        b = bmod.BertE(settings)
    from bert_e.lib.settings_dict import SettingsDict
    b.settings = SettingsDict({'backtrace': True, 'quiet': True})     # server mode: setup_bert_e sets backtrace
    return b


def _raise_outcome(name):
    exc = _load()['exc']
    if name == 'ok':
        return
    if name == 'silent':
        raise exc.NothingToDo()
    if name == 'template':
        raise _template()
    if name == 'internal':
        raise exc.UnsupportedTokenType('x')
    if name == 'failure':
        raise exc.JobFailure('queues are incoherent')
    if name == 'other':
        raise ValueError('boom')
    if name == 'keyerror':
        raise KeyError('current job')
    if name == 'empty':
        raise RuntimeError()        # an arbitrary exception whose message is empty
    if name == 'exit':
        raise SystemExit(3)
    raise AssertionError(name)


def _template():
    """A real TemplateException instance, rendered by its real template."""
    S = _load()
    if 'template_proto' not in S:
        S['template_proto'] = S['exc'].QueueOutOfOrder(active_options=[])     # rendered by the real template
    proto = S['template_proto']
    e = type(proto).__new__(type(proto))
    e.__dict__.update(proto.__dict__)
    e.args = proto.args
    return e


def outcome_family(name):
    return {'ok': None, 'silent': 'silent', 'template': 'template', 'internal': 'internal',
            'failure': 'failure', 'other': 'other', 'keyerror': 'other', 'exit': 'exit', 'empty': 'other'}[name]


def outcome_class(name):
    return {'ok': None, 'silent': 'NothingToDo', 'template': 'QueueOutOfOrder', 'internal': 'UnsupportedTokenType',
            'failure': 'JobFailure', 'other': 'ValueError', 'keyerror': 'KeyError', 'exit': 'SystemExit',
            'empty': 'RuntimeError'}[name]


def _make_job(b, kind, key):
    jobmod = _load()['jobmod']
    if kind == 'p':
        return jobmod.PullRequestJob(bert_e=b, pull_request=SimpleNamespace(id=key, author='x'))
    if kind == 'c':
        return jobmod.CommitJob(bert_e=b, commit='%040x' % key)
    if kind == 'a':
        return jobmod.APIJob(bert_e=b)
    if kind == 'q':
        return jobmod.QueuesJob(bert_e=b)
    raise AssertionError(kind)


# --------------------------------------------------------------------------- one controlled execution

class Execution:
    """Runs one scenario under one schedule.

    scenario: {'threads': [[(kind, key, outcome), ...], ...]}   (one list of requests per request thread)
    chooser(step, enabled, current) -> thread id   (worker = len(threads))
    """

    def __init__(self, scenario, chooser, max_steps=2000):
        self.S = _load()
        self.scenario = scenario
        self.chooser = chooser
        self.max_steps = max_steps
        self.b = _make_berte()
        self.nreq = len(scenario['threads'])
        self.wid = self.nreq                      # logical id of the worker
        self.parked = {}                          # tid -> (code, lineno) or 'start'
        self.finished = set()
        self.stop = False
        self.tids = {}                            # thread ident -> logical id
        # observation
        self.actions = []                         # [token, snapshot]   (model actions, in order)
        self.marks = []                           # raw marks for the oracle
        self.next_id = 0
        self.choices = []                         # (enabled tuple, chosen, current-before)
        self.open_check = {}                      # tid -> index in self.actions of the placeholder
        self.thread_job = {}                      # tid -> job inside put_job
        self.worker_state = 'idle'
        self.worker_inflight = False
        self.worker_pending = None                # 'get' awaiting the job / None
        self.worker_job = None
        self.put_pending = {}                     # tid -> index of a put action awaiting its snapshot
        self.errors = []
        self.b.dispatch = self._dispatch
        self.jobs = []

    # ---- stub workflow
    def _dispatch(self, job, default=None):
        self.marks.append(('started', job._mid, len(self.marks)))
        _raise_outcome(job._outcome)

    # ---- snapshots
    def snap(self, mask=False):
        b = self.b
        pend = tuple(getattr(j, '_mid', -1) for j in list(b.task_queue.queue))
        if mask:
            return (pend, None, None, None)
        cur = b.status.get('current job')
        done = list(b.tasks_done)
        return (pend, getattr(cur, '_mid', None) if cur is not None else None,
                (len(done), tuple((j._mid, j.status) for j in done[:3])), self.worker_state)

    def _tok(self, job):
        return '%d.%s.%d' % (job._mid, job._kind, job._key)

    # ---- tracing
    def _global_trace(self, frame, event, arg):
        if event != 'call':
            return None
        code = frame.f_code
        if code not in self.S['traced']:
            return None
        tid = self.tids.get(threading.get_ident())
        if tid is None:
            return None
        if code is self.S['put_code']:
            job = frame.f_locals.get('job')
            if job is None:     # parameter renamed
                job = list(frame.f_locals.values())[1]
            job._mid = self.next_id
            self.next_id += 1
            self.thread_job[tid] = job
            frame_state = {'phase': 'entered', 'raised': False}
            self.marks.append(('accepted', tid, job._mid, len(self.marks)))
            self.actions.append(['a.%d.%s' % (tid, self._tok(job)), self.snap(self.worker_inflight)])
            return lambda f, e, a: self._put_trace(tid, frame_state, f, e, a)
        if code is self.S['task_code']:
            return lambda f, e, a: self._task_trace(tid, f, e, a)
        return lambda f, e, a: self._eq_trace(tid, f, e, a)

    def _eq_trace(self, tid, frame, event, arg):
        if event == 'line':
            self._yield(tid, frame)
        return None if event == 'return' else (lambda f, e, a: self._eq_trace(tid, f, e, a))

    def _close_check(self, tid, result):
        idx = self.open_check.pop(tid, None)
        if idx is None:
            return
        act = self.actions[idx]
        act[0] = ('x.%d' % tid) if result is None else 'c.%d.%d' % (tid, 1 if result else 0)

    def _put_trace(self, tid, st, frame, event, arg):
        S = self.S
        me = lambda f, e, a: self._put_trace(tid, st, f, e, a)   # noqa: E731
        job = self.thread_job[tid]
        if event == 'line':
            ln = frame.f_lineno
            self._finish_put(tid)
            if st['phase'] == 'checking' and ln not in S['test_lines']:
                if ln in S['put_lines']:
                    self._close_check(tid, False)
                    st['phase'] = 'will-put'
                else:
                    self._close_check(tid, True)
                    st['phase'] = 'will-skip'
            elif st['phase'] == 'entered' and ln not in S['test_lines']:
                # a put_job without a test before this line
                st['phase'] = 'will-put' if ln in S['put_lines'] else st['phase']
            self._yield(tid, frame)
            # resumed: what is about to run
            if st['phase'] == 'entered' and ln in S['test_lines']:
                st['phase'] = 'checking'
                self.open_check[tid] = len(self.actions)
                self.actions.append(['c.%d.?' % tid, self.snap(self.worker_inflight)])
            elif st['phase'] == 'will-put' and ln in S['put_lines']:
                st['phase'] = 'putting'
                self.put_pending[tid] = len(self.actions)
                self.actions.append(['p.%d.%s' % (tid, self._tok(job)), None])
            elif st['phase'] == 'will-skip':
                st['phase'] = 'skipped'
                self.actions.append(['s.%d.%s' % (tid, self._tok(job)), self.snap(self.worker_inflight)])
            return me
        if event == 'exception':
            st['raised'] = True
            if st['phase'] == 'checking':
                self._close_check(tid, None)
                st['phase'] = 'failed'
            self._finish_put(tid)
            return me
        if event == 'return':
            self._finish_put(tid)
            if st['phase'] == 'checking':            # the test was the last thing that ran
                self._close_check(tid, True)
                self.actions.append(['s.%d.%s' % (tid, self._tok(job)), self.snap(self.worker_inflight)])
                st['phase'] = 'skipped'
            elif st['phase'] == 'will-skip':
                self.actions.append(['s.%d.%s' % (tid, self._tok(job)), self.snap(self.worker_inflight)])
                st['phase'] = 'skipped'
            # put_job has no try statement: an exception seen in its frame leaves it
            self.marks.append(('raised' if st['raised'] else 'returned', tid, job._mid, len(self.marks)))
            return None
        return me

    def _finish_put(self, tid):
        idx = self.put_pending.pop(tid, None)
        if idx is not None:
            self.actions[idx][1] = self.snap(self.worker_inflight)

    def _task_trace(self, tid, frame, event, arg):
        S = self.S
        me = lambda f, e, a: self._task_trace(tid, f, e, a)   # noqa: E731
        if event == 'line':
            ln = frame.f_lineno
            if self.worker_pending == 'get':
                job = self.b.status.get('current job')
                loc = [v for v in frame.f_locals.values() if hasattr(v, '_mid')]
                job = loc[0] if loc else job
                self.worker_pending = None
                self.worker_job = job
                self.worker_state = 'run%d' % job._mid
                self.actions.append(['g.%s' % self._tok(job), self.snap()])
                self.marks.append(('got', job._mid, len(self.marks)))
            self._yield(tid, frame)
            if ln == S['get_line']:
                self.worker_pending = 'get'
            elif ln == S['proc_line']:
                self.worker_inflight = True
            return me
        if event == 'return':
            job = self.worker_job
            if job is None:                 # stopped while waiting at the get line
                return None
            died = arg is None
            self.worker_state = 'dead' if died else 'idle'
            self.worker_inflight = False
            self.worker_job = None
            fam = outcome_family(job._outcome)
            tok = 'f.ok' if fam is None else 'f.%s.%s' % (fam, outcome_class(job._outcome))
            self.actions.append([tok, self.snap()])
            cur = self.b.status.get('current job')
            head = self.b.tasks_done[0] if self.b.tasks_done else None
            self.marks.append(('finished', job._mid, job.status, cur is None,
                               head is job, not died, len(self.marks)))
            return None
        return me

    # ---- cooperative scheduling: one semaphore per thread, one for the controller
    def _yield(self, tid, frame):
        self.parked[tid] = (frame.f_code, frame.f_lineno) if frame is not None else 'start'
        self.ctl.release()
        self.sem[tid].acquire()
        if self.stop:
            raise _Stop()
        del self.parked[tid]

    def _enabled(self, tid):
        at = self.parked.get(tid)
        if at is None:
            return False
        if tid == self.wid and at != 'start' and at[0] is self.S['task_code'] and at[1] == self.S['get_line']:
            return self.b.task_queue.qsize() > 0
        return True

    def _thread_main(self, tid, body):
        self.tids[threading.get_ident()] = tid
        try:
            self._yield(tid, None)
            sys.settrace(self._global_trace)
            body()
        except _Stop:
            pass
        except BaseException as e:     # noqa
            self.errors.append('%s: %r' % (tid, e))
        finally:
            sys.settrace(None)
            self.parked.pop(tid, None)
            self.finished.add(tid)
            if not self.stop:
                self.ctl.release()

    def _request_body(self, tid, reqs):
        def body():
            for job in reqs:
                try:
                    self.b.put_job(job)
                except Exception as e:      # put_job raised: the request is answered with an error, not accepted
                    self.marks.append(('request-failed', tid, getattr(job, '_mid', None), repr(e)))
        return body

    def _worker_body(self):
        b = self.b
        try:
            while True:
                b.process_task()
        except _Stop:
            raise
        except BaseException as e:    # the exception that ends the real worker thread
            self.marks.append(('worker-died', type(e).__name__))

    def run(self):
        threads = []
        for tid, reqs in enumerate(self.scenario['threads']):
            jobs = []
            for kind, key, outcome in reqs:
                j = _make_job(self.b, kind, key)
                j._kind, j._key, j._outcome = kind, key, outcome
                jobs.append(j)
            self.jobs.append(jobs)
            threads.append(threading.Thread(target=self._thread_main,
                                            args=(tid, self._request_body(tid, jobs)), daemon=True))
        threads.append(threading.Thread(target=self._thread_main, args=(self.wid, self._worker_body),
                                        daemon=True))
        n = len(threads)
        self.sem = [threading.Semaphore(0) for _ in range(n)]
        self.ctl = threading.Semaphore(0)
        for t in threads:
            t.start()
        for _ in range(n):
            self.ctl.acquire()              # every thread is parked at its start
        current = None
        steps = 0
        while True:
            enabled = tuple(t for t in range(n) if self._enabled(t))
            if not enabled or steps >= self.max_steps:
                break
            cur = current if current in enabled else None
            choice = self.chooser(steps, enabled, cur)
            if choice not in enabled:
                choice = cur if cur is not None else enabled[0]
            self.choices.append((enabled, choice, cur))
            current = choice
            steps += 1
            self.sem[choice].release()
            self.ctl.acquire()              # until it parks again or ends
        self.quiescent = not enabled
        self.worker_alive_at_end = self.wid not in self.finished
        self.stop = True
        for sm in self.sem:
            sm.release()
        for t in threads:
            t.join(5)
        return self


# --------------------------------------------------------------------------- schedules

def default_chooser(prefix):
    """Follow `prefix`, then run without preemption (keep the current thread, else the lowest enabled)."""
    def choose(step, enabled, cur):
        if step < len(prefix):
            return prefix[step]
        return cur if cur is not None else enabled[0]
    return choose


def random_chooser(rng, stickiness):
    def choose(step, enabled, cur):
        if cur is not None and rng.random() < stickiness:
            return cur
        return enabled[rng.randrange(len(enabled))]
    return choose


# --------------------------------------------------------------------------- oracle (on the raw marks)

def same_target(a, b):
    """Are two requests about the same pull request / commit (admin jobs: only the very same job)."""
    if a['kind'] in ('a', 'q') or b['kind'] in ('a', 'q'):
        return a['mid'] == b['mid']
    return a['kind'] == b['kind'] and a['key'] == b['key']


def oracle(ex):
    """The property on one real execution. Returns a list of (key, what)."""
    fails = []
    jobs = {}
    for tjobs in ex.jobs:
        for j in tjobs:
            if hasattr(j, '_mid'):
                jobs[j._mid] = {'mid': j._mid, 'kind': j._kind, 'key': j._key, 'outcome': j._outcome}
    in_scope = all(j['outcome'] in PROPERTY_OUTCOMES for j in jobs.values())
    accepted_at = {}
    returned = set()
    started = []          # (mid, time)
    for m in ex.marks:
        if m[0] == 'accepted':
            accepted_at[m[2]] = m[3]
        elif m[0] == 'returned':
            returned.add(m[2])
        elif m[0] == 'started':
            started.append((m[1], m[2]))
    # 1. every accepted request is followed by an evaluation of the same target started after it
    if ex.quiescent and in_scope:
        for mid in sorted(returned):
            ok = any(t > accepted_at[mid] and same_target(jobs[s], jobs[mid]) for s, t in started)
            if not ok:
                fails.append(('lost-event', 'request %d (%s %s) was accepted but no evaluation of its target '
                              'started after it, and the queue is empty'
                              % (mid, KINDS.get(jobs[mid]['kind'], jobs[mid]['kind']), jobs[mid]['key'])))
    # 2. a request is dropped as a duplicate only while an equal job is waiting
    checks = {}
    for tok, snap in ex.actions:
        p = tok.split('.')
        if p[0] == 'a':
            checks[int(p[1])] = None
        elif p[0] == 'c':
            checks[int(p[1])] = snap[0]           # the real queue when the walk began
        elif p[0] == 's':
            t, mid = int(p[1]), int(p[2])
            seen = checks.get(t)
            if seen is None or not any(q in jobs and q != mid and same_target(jobs[q], jobs[mid]) for q in seen):
                fails.append(('dedup-not-pending', 'request %d was dropped as a duplicate although no job for '
                              'its target was waiting when put_job looked (queue: %s)' % (mid, list(seen or ()))))
    # 3. the worker: whatever the job raised
    for m in ex.marks:
        if m[0] == 'finished':
            _, mid, status, cleared, recorded, alive, _ = m
            out = jobs[mid]['outcome']
            if out not in PROPERTY_OUTCOMES:
                continue
            want = outcome_class(out) or ''
            if not alive:
                fails.append(('worker-died', 'the worker thread ended after job %d raised %s' % (mid, want)))
            if not cleared:
                fails.append(('marker-not-cleared', 'current-job marker still set after job %d (%s)' % (mid, out)))
            if not recorded:
                fails.append(('done-not-recorded', 'job %d (%s) is not at the head of tasks_done' % (mid, out)))
            elif status != want:
                fails.append(('status-wrong', 'job %d finished with status %r, expected %r' % (mid, status, want)))
    if in_scope and any(m[0] == 'worker-died' for m in ex.marks) and not any(k == 'worker-died' for k, _ in fails):
        fails.append(('worker-died', 'the worker thread ended: %s' % [m for m in ex.marks if m[0] == 'worker-died']))
    if in_scope and ex.quiescent and not ex.worker_alive_at_end and not any(k == 'worker-died' for k, _ in fails):
        fails.append(('worker-died', 'the worker thread is not running at the end'))
    return fails


# --------------------------------------------------------------------------- canonical forms

def model_line(ex):
    return 'C13 ' + ' '.join(tok for tok, _ in ex.actions)


def show_snap(s):
    pend, cur, done, w = s
    p = 'P' + ','.join(str(i) for i in pend)
    if cur is None and done is None:
        return p + '|*'
    return '%s|C%s|D%d:%s|W%s' % (p, '-' if cur is None else cur, done[0],
                                  ','.join('%d=%s' % e for e in done[1]), w)


def compare(ex, answer):
    """None when the driver's answer shows the same states as the real execution."""
    states = answer.split(';')
    real = [show_snap(s) for _, s in ex.actions]
    if len(states) != len(real):
        return 'model: %d states (%s), real: %d actions' % (len(states), states[-1:], len(real))
    for i, (m, r) in enumerate(zip(states, real)):
        if r.endswith('|*'):
            if m.split('|')[0] != r.split('|')[0]:
                return 'after action %d (%s): model %s, real %s' % (i, ex.actions[i][0], m, r)
        elif m != r:
            return 'after action %d (%s): model %s, real %s' % (i, ex.actions[i][0], m, r)
    return None


# --------------------------------------------------------------------------- scenarios

def scenarios(tier):
    """Request threads x requests x keys x outcomes. (kind, key, outcome) per request."""
    P1, P2, C1 = ('p', 1), ('p', 2), ('c', 1)
    A = ('a', 0)
    S = []

    def sc(name, *threads):
        S.append({'name': name, 'threads': [[(k, key, o) for (k, key), o in th] for th in threads]})
    # two threads, same pull request: the classic duplicate
    sc('2x1-same', [(P1, 'ok')], [(P1, 'other')])
    sc('2x2-same', [(P1, 'silent'), (P1, 'template')], [(P1, 'other'), (P1, 'ok')])
    sc('2x2-two-keys', [(P1, 'ok'), (P2, 'internal')], [(P2, 'silent'), (P1, 'failure')])
    sc('2x2-pr-and-commit', [(P1, 'template'), (C1, 'ok')], [(C1, 'other'), (P1, 'silent')])
    sc('3x1-same', [(P1, 'other')], [(P1, 'silent')], [(P1, 'internal')])
    sc('3x1-two-keys', [(P1, 'ok')], [(P2, 'other')], [(P1, 'template')])
    sc('3x2-two-keys', [(P1, 'ok'), (P2, 'other')], [(P2, 'silent'), (P1, 'internal')],
       [(P1, 'template'), (P2, 'failure')])
    sc('admin-and-pr', [(A, 'failure'), (P1, 'ok')], [(A, 'other'), (P1, 'keyerror')])
    sc('2x2-exit', [(P1, 'exit'), (P2, 'ok')], [(P1, 'ok'), (P2, 'other')])
    sc('1x2-same', [(P1, 'keyerror'), (P1, 'ok')])
    return S


def all_outcome_scenarios():
    return [{'name': 'outcome-' + o, 'threads': [[('p', 1, o), ('p', 1, 'ok')], [('c', 1, o)]]}
            for o in OUTCOMES]


LONG_SCENARIO = {'name': 'long-1003', 'threads': [[('p', i % 2 + 1, OUTCOMES[i % 7]) for i in range(1003)]]}


def worker_first(nreq):
    def choose(step, enabled, cur):
        return nreq if nreq in enabled else enabled[0]
    return choose


# --------------------------------------------------------------------------- exploration tasks (one per process)

def merge_real(old, new):
    """Two observations of the states along the same action trace: masked states (`P..|*`, taken while the
    worker was inside try/except/finally) are completed by unmasked ones; None when they contradict."""
    if old == new:
        return old
    a, b = old.split(';'), new.split(';')
    if len(a) != len(b):
        return None
    out = []
    for x, y in zip(a, b):
        if x == y:
            out.append(x)
        elif x.endswith('|*') and y.split('|')[0] == x[:-2]:
            out.append(y)
        elif y.endswith('|*') and x.split('|')[0] == y[:-2]:
            out.append(x)
        else:
            return None
    return ';'.join(out)


class Acc:
    """What one task observed."""

    def __init__(self):
        self.n = 0
        self.lines = {}            # model line -> real states (joined)
        self.variants = []         # same line, different real states: non-determinism below the action level
        self.fails = {}            # oracle key -> first failure
        self.dist = {}
        self.distinct = set()
        self.samples = []
        self.harness_errors = []
        self.complete = None
        self.witness = {}          # interesting shapes -> (scenario, schedule)

    def count(self, k, n=1):
        self.dist[k] = self.dist.get(k, 0) + n

    def add(self, ex):
        sc = ex.scenario
        self.n += 1
        line = model_line(ex)
        real = ';'.join(show_snap(s) for _, s in ex.actions)
        old = self.lines.get(line)
        if old is None:
            self.lines[line] = real
        else:
            m = merge_real(old, real)
            if m is not None:
                self.lines[line] = m
            elif len(self.variants) < 5:
                self.variants.append((line, old, real))
        toks = [t for t, _ in ex.actions]
        nontrivial = any(t.startswith('s.') or t.startswith('x.') for t in toks) or \
            len({t.split('.')[1] for t in toks if t[0] in 'acpsx'}) > 1
        if nontrivial:
            self.distinct.add(hash((sc['name'], line)))
        if ex.errors:
            self.harness_errors.append({'scenario': sc['name'], 'errors': ex.errors[:3]})
        if '?' in line and len(self.harness_errors) < 5:
            self.harness_errors.append({'scenario': sc['name'], 'errors': ['unresolved check: ' + line]})
        sched = [c for _, c, _ in ex.choices]
        for key, what in oracle(ex):
            if key not in self.fails:
                self.fails[key] = {'key': key, 'what': what,
                                   'input': {'scenario': sc, 'schedule': sched},
                                   'observation': {'trace': line, 'marks': [list(map(str, m)) for m in ex.marks][:60]}}
        # distribution
        self.count('threads=%d' % len(sc['threads']))
        self.count('actions=%d' % (len(toks) // 10 * 10))
        pre = sum(1 for _, c, cur in ex.choices if cur is not None and c != cur)
        self.count('preemptions=%s' % (pre if pre < 6 else '6+'))
        kinds = {'c1': 'check-found', 'c0': 'check-not-found', 'x': 'check-raised-RuntimeError'}
        for t in toks:
            p = t.split('.')
            if p[0] == 'c':
                self.count(kinds['c' + p[2]] if p[2] in '01' else 'check-unresolved')
            elif p[0] == 'x':
                self.count(kinds['x'])
            elif p[0] == 'f':
                self.count('outcome:' + (p[1] if p[1] == 'ok' else p[2]))
        # shapes worth keeping
        for i, t in enumerate(toks):
            if t.startswith('c.') and t.endswith('.1'):
                th = t.split('.')[1]
                for u in toks[i + 1:]:
                    if u.startswith('g.'):
                        self.witness.setdefault('get-between-check-and-skip', (sc, sched))
                        self.count('shape:get-between-check-and-skip')
                        break
                    if u.startswith('s.%s.' % th):
                        break
        if any(t.startswith('x.') for t in toks):
            self.witness.setdefault('check-raised', (sc, sched))
        if ex.worker_state == 'dead':
            self.witness.setdefault('worker-dead', (sc, sched))
            self.count('shape:worker-dead')
        puts = [t.split('.')[3:] for t in toks if t.startswith('p.')]
        if len(ex.actions) and any(len(s[0]) >= 2 for _, s in ex.actions):
            for _, s in ex.actions:
                ids = s[0]
                keys = [(j._kind, j._key) for tj in ex.jobs for j in tj if getattr(j, '_mid', None) in ids
                        and j._kind != 'a']
                if len(keys) != len(set(keys)):
                    self.witness.setdefault('duplicate-in-queue', (sc, sched))
                    self.count('shape:two-equal-jobs-waiting')
                    break
        if len(self.samples) < 2 and nontrivial:
            self.samples.append({'scenario': sc['name'], 'schedule_length': len(sched), 'trace': line[4:][:400]})

    def pack(self):
        return {'n': self.n, 'lines': self.lines, 'variants': self.variants, 'fails': self.fails,
                'dist': self.dist, 'distinct': self.distinct, 'samples': self.samples,
                'harness_errors': self.harness_errors[:5], 'complete': self.complete,
                'witness': self.witness}


def explore_bounded(scenario, bound, limit, acc, part=0, nparts=1):
    """Schedules in order of preemption count (0, 1, ..., bound); at most `limit` executions.
    The search tree is split below the non-preemptive root schedule: part `part` of `nparts` explores the
    subtrees of the root's alternatives number part, part + nparts, ... (disjoint subtrees)."""
    import heapq
    heap = [(0, 0, ())]
    counter = 1
    seen = 0
    while heap and seen < limit:
        cost0, _, prefix = heapq.heappop(heap)
        ex = Execution(scenario, default_chooser(prefix)).run()
        seen += 1
        if prefix or part == 0:
            acc.add(ex)
        used = 0
        alts = []
        for i, (enabled, chosen, cur) in enumerate(ex.choices):
            if i >= len(prefix):
                for a in enabled:
                    if a == chosen:
                        continue
                    cost = used + (1 if cur is not None and a != cur else 0)
                    if cost <= bound:
                        alts.append((cost, tuple(c for _, c, _ in ex.choices[:i]) + (a,)))
            if cur is not None and chosen != cur:
                used += 1
        if not prefix:
            alts = [a for k, a in enumerate(alts) if k % nparts == part]
        for cost, pre in alts:
            heapq.heappush(heap, (cost, counter, pre))
            counter += 1
    return seen, not heap


def run_task(task):
    kind = task[0]
    acc = Acc()
    try:
        if kind == 'dfs':
            _, scenario, bound, limit, part, nparts = task
            n, complete = explore_bounded(scenario, bound, limit, acc, part, nparts)
            acc.complete = (scenario['name'], bound, n, complete)
        elif kind == 'random':
            _, scenario, seed, tag, count = task
            rng = common.rng_for(seed, 'C13', scenario['name'], tag)
            for _ in range(count):
                stick = rng.choice((0.0, 0.5, 0.8, 0.9))
                acc.add(Execution(scenario, random_chooser(rng, stick)).run())
        elif kind == 'long':
            ex = Execution(LONG_SCENARIO, worker_first(1), max_steps=100000).run()
            acc.add(ex)
        elif kind == 'replay':
            _, scenario, schedule = task
            acc.add(Execution(scenario, default_chooser(tuple(schedule))).run())
    except Exception as e:       # noqa
        import traceback
        acc.harness_errors.append({'task': str(task)[:200], 'errors': [traceback.format_exc()[-1500:]]})
    return acc.pack()


def plan(ctx):
    quick = ctx.tier == 'quick'
    scale = ctx.scale
    tasks = []
    scs = scenarios(ctx.tier) + all_outcome_scenarios()
    bound = 2 if quick else 3
    limit = (2000 if quick else 24000) * scale
    nrand = (400 if quick else 8000) * scale
    nparts = 4 if quick else 8
    for sc in scs:
        for part in range(nparts):
            # the two smallest scenarios are searched completely within the bound
            small = sc['name'] in ('2x1-same', '1x2-same')
            tasks.append(('dfs', sc, bound, limit if small else limit // nparts, part, nparts))
    chunk = 200 if quick else 1000
    for sc in scs:
        for k in range(0, nrand, chunk):
            tasks.append(('random', sc, ctx.seed, k, min(chunk, nrand - k)))
    tasks.append(('long',))
    return tasks


def corpus_tasks():
    tasks = []
    for f in sorted(glob.glob(os.path.join(common.CORPUS_DIR, PID, '*.json'))):
        with open(f) as fh:
            data = json.load(fh)
        for entry in data if isinstance(data, list) else [data]:
            sc = entry['scenario']
            sc['threads'] = [[tuple(r) for r in th] for th in sc['threads']]
            tasks.append(('replay', sc, entry['schedule']))
    return tasks


def _merge(res, packs, model):
    lines = {}
    for p in packs:
        res.evaluations += p['n']
        res.distinct |= p['distinct']
        for k, v in p['dist'].items():
            res.count(k, v)
        for line, real in p['lines'].items():
            old = lines.get(line)
            if old is None:
                lines[line] = real
            else:
                m = merge_real(old, real)
                if m is not None:
                    lines[line] = m
                else:
                    p['variants'].append((line, old, real))
        for v in p['variants'][:3]:
            res.disagreements.append({'input': v[0], 'real': v[1], 'model': 'same actions, other real states: ' + v[2]})
        for key, f in p['fails'].items():
            if not any(g['key'] == key for g in res.oracle_failures):
                res.oracle_failures.append(f)
        for e in p['harness_errors']:
            res.extra.setdefault('harness_errors', []).append(e)
        if p['complete']:
            name, bnd, n, comp = p['complete']
            bs = res.extra.setdefault('bounded_search', {})
            e = bs.setdefault(name, {'preemption_bound': bnd, 'executions': 0, 'all_schedules_within_bound': True})
            e['executions'] += n
            e['all_schedules_within_bound'] = e['all_schedules_within_bound'] and comp
        for k, v in p['witness'].items():
            res.extra.setdefault('_witness', {}).setdefault(k, v)
        for smp in p['samples']:
            if all(smp['scenario'] != o['scenario'] for o in res.samples):
                res.samples.append(smp)
    res.samples = res.samples[:8]
    res.extra['distinct_action_traces'] = len(lines)
    if model is not None:
        keys = list(lines)
        answers = model.ask_parallel(keys)
        for line, ans in zip(keys, answers):
            res.model_compared += 1
            real = lines[line]
            states = ans.split(';')
            rs = real.split(';')
            bad = None
            if len(states) != len(rs):
                bad = 'the model stops at action %d: %s' % (len(states) - 1, states[-1])
            else:
                for i, (m, r) in enumerate(zip(states, rs)):
                    if (r.endswith('|*') and m.split('|')[0] != r[:-2]) or (not r.endswith('|*') and m != r):
                        bad = 'after action %d: model %s, real %s' % (i, m, r)
                        break
            if bad and len(res.disagreements) < 20:
                res.disagreements.append({'input': line, 'real': real[:600], 'model': bad})
    return lines


def correspondence(ctx):
    _load()
    res = Result()
    res.rule = ('real put_job/process_task/__eq__ in real threads under a line-level cooperative scheduler: '
                '18 scenarios (1-3 request threads x 1-2 requests x 2 keys, pull request / commit / admin jobs, '
                'every outcome kind) x schedules in order of preemption count up to the bound, then random '
                'schedules from the seed; one 1003-request run for the bound of tasks_done; distinct = distinct '
                '(scenario, action trace) with a duplicate, a failed test or two request threads')
    res.exhaustive = False
    tasks = corpus_tasks() + plan(ctx)
    t0 = time.time()
    with multiprocessing.get_context('fork').Pool(common.NCPU) as pool:
        packs = pool.map(run_task, tasks, chunksize=1)
    res.extra['real_side_wall_s'] = round(time.time() - t0, 1)
    _merge(res, packs, ctx.model)
    herr = res.extra.get('harness_errors')
    if herr and not ctx.searching:
        # (while searching for a failing input on a tree whose tie already broke, executions the model cannot
        # follow are expected: the oracle verdicts of the real executions are what is wanted then)
        raise RuntimeError('scheduler/harness error: %s' % herr[:2])
    res.extra.pop('_witness', None)
    # the step before the dispatcher: an accepted DELIVERY becomes a job whatever the build-status cache holds
    from . import hookjobs
    hookjobs.phase(ctx, res)
    return res


def replay(ctx, payload):
    _load()
    f = payload['failure']['input']
    if f.get('kind') == 'hook':
        from . import hookjobs
        return hookjobs.replay(ctx, Result(), f)
    sc = f['scenario']
    sc['threads'] = [[tuple(r) for r in th] for th in sc['threads']]
    res = Result()
    packs = [run_task(('replay', sc, f['schedule']))]
    _merge(res, packs, ctx.model)
    res.extra.pop('_witness', None)
    return res
