"""C19 — integration branches and integration pull requests stay one-to-one with their pull request:
tie of the pull-request-table model (lean/BertE/Model/Prs.lean) to the real code, and the property oracle.

Real side (harness/c19_sys.py): seeded histories on the real BertE + mock git host + real git, with recorders
around `_handle_pull_request`, `handle_merge_queues`, `create_integration_pull_requests`,
`handle_declined_pull_request` and the host's `get_pull_requests`. Per Bert-E job the model is asked, on the
exported table,
  * which pull request the event is finally evaluated for (`redirectPr` / `handleCommit`) — compared with the
    pull request `_handle_pull_request` was really entered for (or the queue evaluation);
  * what `create_integration_pull_requests` does to the table and returns (`createChildren`, incl. ids, titles,
    descriptions, listing order) and which branch list it was given (`wbranchesOf`);
  * what the loop of `handle_declined_pull_request` does to the table (`declineChildren`) for the names it asked
    the host for (`declinedOf`).
Oracle (independent of the model): the property text on the host's pull-request list and the remote refs after
every job."""
import json
import os
import re
import traceback
from multiprocessing import Pool

from . import common
from .pipeline import Result

PID = 'C19'
TABLES = ['Prs', 'Names']
LEAN_TARGETS = ['BertE.Props.C19']
ASSUMPTIONS = [
    'events are handled one after the other (two evaluations racing on the host are out of scope)',
    'only the robot opens pull requests from integration branches and nobody re-opens or retitles them; a '
    'user may decline a child by hand (the next evaluation then opens a new one: the old one is not OPEN)',
    'the host lists for `get_pull_requests(src_branch=names)` the OPEN pull requests whose source is one of the '
    'names, gives a new pull request an unused id, and `get_pull_request(id)` returns the pull request of that id',
    'texts are ASCII (Python `\\d` would also match other Unicode digits in a description)',
    'the textual name of the ref `w d src` is `w/<version of d>/<src>` (C18 proves the round trip); the ref-level '
    'theorems (C19_w_only, C19_decline_refs, C19_merge, C19_merge_queue) are about the system model tied to the '
    'code by the differential runs of C01/C03',
    'two OPEN pull requests with the same source branch share their integration branches and children (same '
    'names): a commit event is then handled as the one with the smaller id, and declining one removes the '
    'branches both use',
]
TRUSTED = [
    'Lean 4 kernel; axioms of every theorem audited (subset of propext, Classical.choice, Quot.sound)',
    'hand-written model lean/BertE/Model/Prs.lean, tied to the code by the differential run of every recorded '
    'call in every history; lean/BertE/Model/Flow.lean (tied by C01/C03) for the ref-level theorems',
    'harness/tables/prs.py (jinja2 parse of the description template; AST text of the look-up / create / decline / '
    'redirect code compared in Lean with what the model implements)',
    'harness/c19_sys.py (recorders that call the real functions unchanged), harness/system.py (mock git host, real git)',
    'the hex line protocol of lean/BertE/Drv/C19.lean (exercised by every comparison)',
]

from .c19_sys import targets, version_of   # noqa: E402

CASCADES = [
    (['development/4.3', 'development/5.1'], []),
    (['development/4.3', 'development/5.1', 'development/10.0'], []),
    (['development/4.3', 'development/5.1', 'development/10.0'], []),
    (['development/4.3', 'development/4', 'development/5.1', 'development/10.0'], []),
    (['development/4.3', 'stabilization/5.1.4', 'development/5.1', 'development/10.0'], ['5.1.3']),
    (['stabilization/4.3.18', 'development/4.3', 'development/5.1', 'development/10.0'], ['4.3.17']),
]
TITLES = ['title', 'fix 12 things', '4.3 backport #7', 'INTEGRATION [PR#9 > development/4.3] fake',
          'a > b ] [ 100%', 'x']


# --------------------------------------------------------------------------- generator

def GEN(rng):
    dests, tags = rng.choice(CASCADES)
    mode = rng.choice(['queue', 'queue', 'queue-skip', 'noqueue'])
    options = ['bypass_jira_check']
    if rng.random() < 0.3:
        options.append('bypass_build_status')
    create_prs = rng.random() < 0.5
    create_branches = rng.random() < 0.6
    cfg = dict(dests=list(dests), tags=list(tags), use_queue=mode != 'noqueue', skip_queue=mode == 'queue-skip',
               no_octopus=rng.random() < 0.3, create_prs=create_prs, create_branches=create_branches,
               peers=0, leaders=0, author_approval=False, options=options)
    nprs = rng.choice([1, 2, 2, 3, 3])
    share = nprs > 1 and rng.random() < 0.15
    evs = []
    prs = []
    # destinations with at least two targets, mostly
    dsts = [d for d in dests if len(targets(dests, d)) >= 2] or list(dests)
    for i in range(1, nprs + 1):
        dst = rng.choice(dsts if rng.random() < 0.85 else dests)
        src = '%s/TEST-%04d' % (rng.choice(['feature', 'bugfix', 'improvement']), i)
        if share and i == 2:
            src = prs[0]['src']
            others = [d for d in dests if d != prs[0]['dst']]
            dst = rng.choice(others) if others else dst
        prs.append({'src': src, 'dst': dst})

    def unlock(i):
        r = rng.random()
        if r < 0.4:
            return {'op': 'comment', 'pr': i, 'text': '@robot create_pull_requests'}
        if r < 0.75:
            return {'op': 'comment', 'pr': i, 'text': '@robot create_integration_branches'}
        return {'op': 'approve', 'pr': i, 'user': 'contrib'}

    opened = 0

    def open_next():
        nonlocal opened
        opened += 1
        p = prs[opened - 1]
        evs.append({'op': 'open', 'pr': opened, 'src': p['src'], 'dst': p['dst'], 'title': rng.choice(TITLES)})
        if not (create_prs or create_branches) and rng.random() < 0.85:
            evs.append(unlock(opened))
        elif rng.random() < 0.25:
            evs.append(unlock(opened))
        evs.append({'op': 'eval_pr', 'pr': opened})

    open_next()
    n = rng.randint(9, 16)
    odd = rng.random() < 0.15        # histories with hand-made pull requests of the robot / alias branches
    for _ in range(n):
        if opened < nprs and rng.random() < 0.3:
            open_next()
            continue
        i = rng.randint(1, opened)
        r = rng.random()
        if odd and r < 0.3:
            q = rng.random()
            if q < 0.35:
                evs.append({'op': 'robot_pr', 'pr': i,
                            'desc': rng.choice(['empty', 'unknown', 'self', 'child', 'parent'])})
                evs.append({'op': 'eval_foreign', 'k': rng.randint(0, 3)})
            elif q < 0.6:
                evs.append({'op': 'eval_foreign', 'k': rng.randint(0, 3)})
            else:
                evs.append({'op': 'alias', 'pr': i, 'name': rng.choice(
                    ['wip-%d' % i, 'user/alias%d' % i, 'feature/ALIAS-%d' % i, 'w/alias%d' % i])})
                evs.append({'op': 'eval_commit', 'pr': i, 'ref': 'src', 'k': 0})
            continue
        if r < 0.14:
            evs.append({'op': 'eval_pr', 'pr': i})
        elif r < 0.36:
            evs.append({'op': 'eval_child', 'pr': i, 'k': rng.randint(0, 3), 'any_state': rng.random() < 0.2})
        elif r < 0.66:
            evs.append({'op': 'eval_commit', 'pr': i, 'ref': rng.choice(['src', 'w', 'w', 'q', 'qw']),
                        'k': rng.randint(0, 3)})
        elif r < 0.76:
            evs.append({'op': 'progress', 'pr': i})
        elif r < 0.82:
            evs.append(unlock(i))
        elif r < 0.87:
            evs.append({'op': 'src_commit', 'pr': i})
        elif r < 0.90:
            evs.append({'op': 'w_commit', 'pr': i, 'k': rng.randint(0, 3)})
        elif r < 0.95:
            evs.append({'op': 'decline_child', 'pr': i, 'k': rng.randint(0, 3)})
        else:
            evs.append({'op': 'eval_pr', 'pr': i})
    while opened < nprs:
        open_next()
    order = list(range(1, nprs + 1))
    rng.shuffle(order)
    for i in order:
        if rng.random() < 0.5:
            evs.append({'op': 'decline', 'pr': i})
            evs.append(rng.choice([{'op': 'eval_pr', 'pr': i},
                                   {'op': 'eval_child', 'pr': i, 'k': rng.randint(0, 3)},
                                   {'op': 'eval_pr', 'pr': i}]))
            evs.append(rng.choice([{'op': 'eval_pr', 'pr': i},
                                   {'op': 'eval_commit', 'pr': i, 'ref': 'src', 'k': 0},
                                   {'op': 'eval_child', 'pr': i, 'k': 0, 'any_state': True}]))
        else:
            evs.append({'op': 'approve', 'pr': i, 'user': 'contrib'})
            for _ in range(rng.randint(2, 3)):
                evs.append({'op': 'progress', 'pr': i})
            evs.append(rng.choice([{'op': 'eval_commit', 'pr': i, 'ref': 'src', 'k': 0},
                                   {'op': 'eval_child', 'pr': i, 'k': 0, 'any_state': True},
                                   {'op': 'eval_pr', 'pr': i}]))
    return cfg, mode, evs


# --------------------------------------------------------------------------- protocol

STATE = {'OPEN': 'O', 'DECLINED': 'D', 'MERGED': 'M'}


def hx(s):
    return s.encode('latin-1').hex() or '-'


def enc_pr(p):
    return ','.join([str(p['id']), '1' if p['robot'] else '0', hx(p['src']), hx(p['dst']),
                     STATE.get(p['state'], 'X'), hx(p['title']), hx(p['desc'])])


def enc_table(t):
    return ';'.join(enc_pr(p) for p in t) or '-'


def enc_pairs(l):
    return ';'.join('%s,%s' % (hx(a), hx(b)) for a, b in l) or '-'


def real_target(job):
    for t in job['trace']:
        if t['what'] == 'pr':
            return 'pr:%d' % t['id']
        if t['what'] == 'queues':
            return 'queues'
    return {'NothingToDo': 'nothing', 'ParentPullRequestNotFound': 'noparent'}.get(
        job['status'], 'crash:' + str(job['status']))


def questions(job):
    """[(line, expected answer, what)] for one observed job"""
    qs = []
    tr = job['trigger']
    if tr['kind'] == 'pr':
        qs.append(('C19 pr %s %d' % (enc_table(job['before']), tr['id']), real_target(job), 'redirect-pr'))
    else:
        names = sorted(n for n, s in job['before_refs'].items() if s == tr['sha'])
        qs.append(('C19 commit %d %s %s' % (job['use_queue'], enc_table(job['before']),
                                            ','.join(hx(n) for n in names) or '-'),
                   real_target(job), 'redirect-commit'))
    for t in job['trace']:
        if t['what'] == 'create':
            crashed = t['error'] == 'AttributeError'
            children = ','.join('%d:%d' % (i, c) for i, c in (t['result'] or []))
            if t['error'] and not crashed:
                children = 'error:' + t['error']
            qs.append(('C19 create %d %s %d %s' % (t['enabled'], enc_table(t['before']), t['parent'],
                                                   enc_pairs(t['wbranches'])),
                       '%d|%s|%s' % (crashed, enc_table(t['after']), children), 'create'))
            qs.append(('C19 wnames %s %s' % (hx(t['src']), enc_pairs(t['cascade'])),
                       ('first', enc_pairs(t['wbranches'])), 'wbranches'))
        elif t['what'] == 'declined' and t.get('names') is not None:
            pairs = list(zip(t['names'], [n for _, n in t['cascade']]))
            qs.append(('C19 decline %s %s' % (enc_table(t['before']), enc_pairs(pairs)),
                       ('table', enc_table(t['after'])), 'decline'))
            qs.append(('C19 wnames %s %s' % (hx(t['src']), enc_pairs(t['cascade'])),
                       ('second', enc_pairs(pairs)), 'declined-names'))
    return qs


def agrees(expected, answer):
    if isinstance(expected, tuple):
        kind, val = expected
        parts = answer.split('|')
        if kind == 'first':
            return parts[0] == val
        if kind == 'second':
            return len(parts) > 1 and parts[1] == val
        if kind == 'table':
            return len(parts) > 1 and parts[1] == val
    return expected == answer


# --------------------------------------------------------------------------- the property oracle

def oracle(run):
    """The property text on every observed job. Returns a list of failures."""
    dests = run['dests']
    parents = {p['id']: p for p in run['prs'].values()}
    foreign = set(run.get('foreign', []))
    fails = []
    created_for = {}          # child id -> parent id, as observed when the child appeared

    def own_names(p, beyond_first=True):
        ts = targets(dests, p['dst'])
        return {'w/%s/%s' % (version_of(d), p['src']): d for d in (ts[1:] if beyond_first else ts)}

    def fail(key, what, n, obs):
        fails.append({'key': key, 'what': what, 'at': n, 'observation': obs})

    for n, job in enumerate(run['jobs']):
        before, after = job['before'], job['after']
        before_ids = {p['id'] for p in before}
        # children are attributed to the pull request during whose evaluation they appeared
        tgt = real_target(job)
        for c in after:
            if c['id'] not in before_ids and c['robot'] and tgt.startswith('pr:'):
                created_for[c['id']] = int(tgt[3:])
        known = [p for p in parents.values() if p['id'] in {q['id'] for q in after}]
        allowed = {}
        for p in known:
            for name, d in own_names(p).items():
                allowed.setdefault((name, d), []).append(p)
        # --- at most one integration branch / one open integration pull request per target, named and titled
        for name in job['after_refs']:
            if re.match(r'^w/[0-9.]+/', name) and not any(name == k[0] for k in allowed):
                fail('stray-w-branch', 'integration branch %s belongs to no pull request target' % name, n,
                     {'ref': name, 'status': job['status']})
        seen = {}
        for c in after:
            if not (c['robot'] and c['state'] == 'OPEN') or c['id'] in foreign:
                continue
            ps = allowed.get((c['src'], c['dst']))
            if not ps:
                fail('child-misnamed', 'open pull request #%d of the robot: %s -> %s is no integration branch and '
                     'target of a pull request' % (c['id'], c['src'], c['dst']), n, {'child': c['id']})
                continue
            if c['title'] not in ['INTEGRATION [PR#%d > %s] %s' % (p['id'], c['dst'], p['title']) for p in ps]:
                fail('child-mistitled', 'open child #%d is titled %r' % (c['id'], c['title']), n,
                     {'child': c['id'], 'title': c['title']})
            seen.setdefault((c['src'], c['dst']), []).append(c['id'])
        for k, ids in seen.items():
            if len(ids) > 1:
                fail('duplicate-open-child', 'open integration pull requests %s for %s -> %s' % (ids, k[0], k[1]), n,
                     {'children': ids, 'status': job['status']})
        # --- an event on a child / on an integration or source commit is an event on the parent
        tr = job['trigger']
        bstate = {p['id']: p for p in before}
        if tr['kind'] == 'pr':
            trig = bstate.get(tr['id'])
            if trig is not None and trig['robot'] and tr['id'] in created_for:
                if tgt != 'pr:%d' % created_for[tr['id']]:
                    fail('child-event-not-parent', 'event on child #%d handled as %s, parent is #%d'
                         % (tr['id'], tgt, created_for[tr['id']]), n, {'child': tr['id'], 'handled': tgt})
        else:
            names = [x for x, s in job['before_refs'].items() if s == tr['sha']]
            if job['use_queue'] and any(re.match(r'^q/[0-9.]+$', x) for x in names):
                want = 'queues'
            else:
                srcs = set()
                for x in names:
                    m = re.match(r'^w/[0-9.]+/(.+)$', x)
                    srcs.add(m.group(1) if m else x)
                cands = sorted(p['id'] for p in before if p['state'] == 'OPEN' and p['src'] in srcs)
                if not cands:
                    want = 'nothing'
                elif cands[0] in foreign:
                    # the lowest open pull request from that branch was opened by hand with the robot's
                    # account: it is no integration pull request and the property says nothing about where
                    # its description sends the event (the model/code comparison still covers the redirect)
                    want = None
                else:
                    want = 'pr:%d' % created_for.get(cands[0], cands[0])
            if names and want is not None and tgt != want and not tgt.startswith('crash'):
                fail('commit-event-not-parent', 'commit event on tip of %s handled as %s, expected %s'
                     % (sorted(names), tgt, want), n, {'names': sorted(names), 'handled': tgt, 'expected': want})
        # --- declining the parent
        if tgt.startswith('pr:') and int(tgt[3:]) in parents:
            p = parents[int(tgt[3:])]
            if bstate.get(p['id'], {}).get('state') == 'DECLINED' and \
                    job['status'] in ('PullRequestDeclined', 'NothingToDo'):
                own = own_names(p, beyond_first=False)
                want_refs = {k: v for k, v in job['before_refs'].items() if k not in own}
                want_states = {q['id']: ('DECLINED' if q['state'] == 'OPEN' and own.get(q['src']) == q['dst']
                                         else q['state']) for q in before}
                got_states = {q['id']: q['state'] for q in after}
                if job['after_refs'] != want_refs or got_states != want_states:
                    fail('decline-inexact', 'declining #%d: refs or pull-request states are not exactly those of its '
                         'integration branches and open children' % p['id'], n,
                         {'refs_only_real': sorted(set(job['after_refs']) - set(want_refs)),
                          'refs_missing': sorted(set(want_refs) - set(job['after_refs'])),
                          'states': {k: (want_states.get(k), got_states.get(k)) for k in got_states
                                     if want_states.get(k) != got_states.get(k)}})
            # --- merging the parent
            if job['status'] == 'SuccessMessage':
                left = [x for x in own_names(p) if x in job['after_refs']]
                if left:
                    fail('merge-leaves-w', 'after the merge of #%d: %s still there' % (p['id'], left), n, {'left': left})
        if job['status'] == 'Merged':
            def qids(refs):
                return {int(m.group(1)) for x in refs for m in [re.match(r'^q/w/(\d+)/', x)] if m}
            for pid in qids(job['before_refs']) - qids(job['after_refs']):
                if pid in parents:
                    left = [x for x in own_names(parents[pid]) if x in job['after_refs']]
                    if left:
                        fail('merge-leaves-w', 'after the queue merge of #%d: %s still there' % (pid, left), n,
                             {'left': left})
    return fails


# --------------------------------------------------------------------------- one history

def check_history(cfg, evs, use_model, base):
    from . import c19_sys
    run = c19_sys.run_history(cfg, evs, base)
    fails = oracle(run)
    qs = []
    for n, job in enumerate(run['jobs']):
        for line, exp, what in questions(job):
            qs.append((n, line, exp, what))
    dis = []
    compared = 0
    if use_model and qs:
        answers = common.Model().ask([q[1] for q in qs])
        for (n, line, exp, what), a in zip(qs, answers):
            compared += 1
            if not agrees(exp, a):
                dis.append({'at': n, 'what': what, 'event': run['jobs'][n]['event'],
                            'status': run['jobs'][n]['status'], 'question': line[:4000],
                            'real': exp if not isinstance(exp, tuple) else exp[1], 'model': a[:4000]})
    stats = {}
    for job in run['jobs']:
        stats['status:%s' % job['status']] = stats.get('status:%s' % job['status'], 0) + 1
        stats['job:%s' % job['event']['op']] = stats.get('job:%s' % job['event']['op'], 0) + 1
        t = real_target(job)
        k = 'target:%s' % (t if not t.startswith('pr:') else
                           ('parent-from-child' if job['trigger']['kind'] == 'pr' and t != 'pr:%d' % job['trigger']['id']
                            else 'parent-from-commit' if job['trigger']['kind'] == 'commit' else 'parent'))
        stats[k] = stats.get(k, 0) + 1
        for tr in job['trace']:
            if tr['what'] == 'create':
                made = sum(1 for _, c in (tr['result'] or []) if c)
                stats['create:%s' % ('disabled' if not tr['enabled'] else 'new=%d' % made)] = \
                    stats.get('create:%s' % ('disabled' if not tr['enabled'] else 'new=%d' % made), 0) + 1
            elif tr['what'] == 'declined':
                nd = sum(1 for a, b in zip(tr['before'], tr['after']) if a['state'] != b['state'])
                stats['declined:children=%d' % nd] = stats.get('declined:children=%d' % nd, 0) + 1
    stats['skipped'] = run['skipped']
    return {'stats': stats, 'failures': fails, 'disagreements': dis, 'compared': compared,
            'statuses': [j['status'] for j in run['jobs']], 'njobs': len(run['jobs'])}


def _work(args):
    seed, i, use_model, base, given = args
    if given is None:
        rng = common.rng_for(seed, PID, i)
        cfg, mode, evs = GEN(rng)
    else:
        cfg, mode, evs = given['cfg'], 'corpus', given['events']
    try:
        out = check_history(cfg, evs, use_model, base)
    except Exception:
        return {'i': i, 'cfg': cfg, 'events': evs, 'error': traceback.format_exc()[-3000:]}
    out.update({'i': i, 'mode': mode, 'cfg': cfg, 'events': evs})
    return out


def text_checks(ctx, res):
    """`firstNat` against `re.findall(r'\\d+', s)[0]` and the rendering of the description template against the
    real `render`, on seeded ASCII texts"""
    if ctx.model is None:
        return
    from bert_e.lib.template_loader import render
    from types import SimpleNamespace
    rng = common.rng_for(ctx.seed, PID, 'texts')
    alphabet = 'ab #/.-_\n`$>[]0123456789'
    lines, want = [], []
    for _ in range(300 * ctx.scale):
        s = ''.join(rng.choice(alphabet) for _ in range(rng.randint(0, 14)))
        m = re.findall(r'\d+', s)
        lines.append('C19 firstnat %s' % hx(s))
        want.append(str(int(m[0])) if m else '-')
    for _ in range(60 * ctx.scale):
        pid = rng.choice([1, 7, 10, 123, 4096, rng.randint(0, 10 ** 6)])
        branch = 'w/%s/%s/%s' % (rng.choice(['4.3', '10.0', '5', '5.1.4']), rng.choice(['feature', 'bugfix']),
                                 ''.join(rng.choice('aB-_/.09') for _ in range(rng.randint(1, 10))))
        lines.append('C19 desc %d %s' % (pid, hx(branch)))
        want.append(hx(render('pull_request_description.md', pr=SimpleNamespace(id=pid), branch=branch)))
        title = rng.choice(TITLES)
        lines.append('C19 title %d %s %s' % (pid, hx('development/10.0'), hx(title)))
        want.append(hx('INTEGRATION [PR#%s > %s] %s' % (pid, 'development/10.0', title)))
    for line, w_, a in zip(lines, want, ctx.model.ask(lines)):
        res.model_compared += 1
        res.count('texts')
        if a != w_:
            res.disagreements.append({'input': line, 'real': w_, 'model': a})


def _collect(res, o):
    res.evaluations += 1
    res.model_compared += o['compared']
    for k, v in o['stats'].items():
        res.count(k, v)
    res.count('mode:%s' % o.get('mode'))
    res.count('jobs', o['njobs'])
    sts = o['statuses']
    if any(s in ('Queued', 'Merged', 'SuccessMessage', 'PullRequestDeclined') for s in sts):
        res.distinct.add(json.dumps([o['cfg'], o['events']], sort_keys=True, default=str))
    for d in o['disagreements']:
        res.disagreements.append({'input': {'cfg': o['cfg'], 'events': o['events']}, 'at': d['at'],
                                  'what': d['what'], 'event': d['event'], 'status': d['status'],
                                  'real': d['real'], 'model': d['model'], 'question': d['question']})
    for f in o['failures']:
        f = dict(f)
        f['input'] = {'cfg': o['cfg'], 'events': o['events']}
        res.oracle_failures.append(f)
    if len(res.samples) < 3 and sts:
        res.samples.append({'cfg': o['cfg'], 'events': o['events'][:8], 'statuses': sts[:10]})


RULE = ('seeded histories: 1-3 pull requests (15 % of the multi-PR histories: two pull requests on ONE source branch) on '
        'overlapping cascades of 2-4 targets (6 layouts incl. stabilization and major-only branches) x {queue, '
        'queue+skip, no queue} x always_create_integration_pull_requests on/off x always_create_integration_branches '
        'on/off x octopus on/off x 6 parent titles (digits, brackets, a fake INTEGRATION title); 9-16 random events '
        '(PR event on a parent; PR event on its k-th child, open or not; commit event on the source tip, on every w/ '
        'tip, on q/ and q/w/ tips; green builds + evaluation; `@robot create_pull_requests` / '
        '`create_integration_branches` comments, author approval; new source commit; manual commit on a w/ branch; '
        'a child declined by hand), then per pull request decline + 2 events, or approval + 2-3 progress steps + 1 '
        'event; every Bert-E job: redirect target, every create_integration_pull_requests / '
        'handle_declined_pull_request call compared with the model; property oracle on the PR list and refs after '
        'every job; plus firstNat / description / title on seeded texts; non-trivial = the history queued, merged or '
        'declined')


def search(ctx):
    """when a proof obligation or the correspondence broke and the first pass met no oracle failure: a second
    pass over fresh histories (another stream of the seed), twice as many in the quick tier"""
    return correspondence(ctx, stream='search', n=240 if ctx.tier == 'quick' else 2500)


def correspondence(ctx, stream=None, n=None):
    res = Result()
    res.rule = RULE
    n = n if n is not None else (120 if ctx.tier == 'quick' else 2500) * ctx.scale
    base = common.scratch()
    use_model = ctx.model is not None
    tasks = []
    d = os.path.join(common.CORPUS_DIR, PID)
    if os.path.isdir(d):
        for fn in sorted(os.listdir(d)):
            if fn.endswith('.json'):
                with open(os.path.join(d, fn)) as fh:
                    tasks.append((ctx.seed, 'corpus:' + fn, use_model, base, json.load(fh)))
    tasks += [(ctx.seed, i if stream is None else '%s:%d' % (stream, i), use_model, base, None) for i in range(n)]
    with Pool(common.NCPU) as pool:
        outs = pool.map(_work, tasks, chunksize=1)
    errors = [o for o in outs if 'error' in o]
    if errors:
        raise RuntimeError('history harness failed on %d histories; first: %s' % (len(errors), errors[0]['error']))
    for o in outs:
        _collect(res, o)
    text_checks(ctx, res)
    res.extra['jobs_observed'] = res.distribution.get('jobs', 0)
    return res


def replay(ctx, payload):
    inp = payload['failure']['input'] if 'failure' in payload else payload['input']
    res = Result()
    o = check_history(inp['cfg'], inp['events'], ctx.model is not None, common.scratch())
    o.update({'mode': 'replay', 'cfg': inp['cfg'], 'events': inp['events']})
    _collect(res, o)
    res.samples.append({'statuses': o['statuses']})
    return res
