"""Fault injection for C02 on the real system (helper of harness/c02.py).

* `Injector` (one per process, `INJ`): wraps `bert_e.lib.git.Repository.cmd` (remote-mutating git commands =
  `git push ...`), the mock host's mutating methods (`PullRequestController.add_comment / decline /
  set_bot_status`, `Repository.create_pull_request / set_build_status`) and `BertE.process_task`.
  Inside a Bert-E job every such call is one *operation*, numbered from 0 in the order Bert-E makes them.
  - counting mode: the operations of every job are recorded (for a push: the refs it changed on the remote);
  - crash at boundary k of job j of the armed event: the first k operations go through, every later one fails
    (git: CommandError, host: HostDown) - "every later operation of the job fails";
  - rejection of ref r in push number i: a git `update` hook installed in the scratch bare repository refuses
    exactly that ref while that push (and its immediate retries) runs - real git then shows the real
    behaviour of a plain push (the other refs are updated) and of `--atomic` (nothing is updated).
  When the faulted job is over the injector raises `Died` (BaseException): the process is gone, the jobs
  still waiting in its in-memory queue are lost.
* `FRun`: executes a history (harness.histories.Run) with an optional fault, the recovery the property
  describes (fresh BertE, same event again, documented queue reset when it reports the queues out of order),
  the rest of the history, and returns the observations the oracles need.
"""
import os
import re
import stat

from .histories import Run, ref_code
from .system import ROBOT, git, version_key


class Died(BaseException):
    """the faulted job is over: the Bert-E process is considered dead"""


class HostDown(Exception):
    """a git-host call made after the crash point"""


HOOK = """#!/bin/sh
# installed by harness/c02_faults.py: refuse the ref named in the file next to this hook
f="%s"
if [ -f "$f" ] && [ "$(cat "$f")" = "$1" ]; then
  echo "verif: update of $1 refused" >&2
  exit 1
fi
exit 0
"""


class Injector:
    def __init__(self):
        self.installed = False
        self.world = None
        self.reset()

    def reset(self):
        self.in_job = False
        self.depth = 0
        self.ops = None            # operations of the current job
        self.jobs = []             # finished jobs since the last take(): {'desc', 'ops', 'status'}
        self.job_no = 0            # number of the job within the current event
        self.fault = None          # {'j', 'kind': 'crash'|'reject', 'k', 'ref'} armed for the current event
        self.faulted = None        # record of the faulted job once it ran
        self.record_refs = False
        self.rej_cmd = None
        self.pending = []

    # ------------------------------------------------------------------ installation
    def install(self):
        if self.installed:
            return
        import bert_e.lib.git as libgit
        import bert_e.git_host.mock as mock
        from bert_e.bert_e import BertE
        from bert_e.lib.simplecmd import CommandError
        inj = self

        orig_cmd = libgit.Repository.cmd

        def cmd(repo, command, *args, **kwargs):
            if not (inj.in_job and isinstance(command, str) and command.lstrip().startswith('git push')):
                return orig_cmd(repo, command, *args, **kwargs)
            text = command % tuple(args) if args else command
            return inj.operation('git', ' '.join(text.split()), lambda: orig_cmd(repo, command, *args, **kwargs),
                                 CommandError('verif: injected failure of `%s`' % text))
        libgit.Repository.cmd = cmd

        def wrap_host(cls, name):
            orig = getattr(cls, name)

            def method(obj, *a, **k):
                client = getattr(obj, 'client', None)
                if not inj.in_job or inj.depth or getattr(client, 'login', None) != ROBOT:
                    return orig(obj, *a, **k)
                return inj.operation('host', name, lambda: orig(obj, *a, **k),
                                     HostDown('verif: injected failure of %s' % name))
            setattr(cls, name, method)
        for cls, names in ((mock.PullRequestController, ('add_comment', 'decline', 'set_bot_status')),
                           (mock.Repository, ('create_pull_request', 'set_build_status'))):
            for n in names:
                wrap_host(cls, n)

        orig_task = BertE.process_task

        def process_task(berte):
            inj.begin_job(berte)
            try:
                return orig_task(berte)
            finally:
                inj.end_job(berte)
        BertE.process_task = process_task
        self.installed = True

    def attach(self, world):
        self.install()
        self.reset()
        self.world = world
        self.reject_file = os.path.join(world.bare, 'verif-reject')
        hook = os.path.join(world.bare, 'hooks', 'update')
        os.makedirs(os.path.dirname(hook), exist_ok=True)
        with open(hook, 'w') as fh:
            fh.write(HOOK % self.reject_file)
        os.chmod(hook, os.stat(hook).st_mode | stat.S_IXUSR | stat.S_IXGRP | stat.S_IXOTH)

    # ------------------------------------------------------------------ jobs and operations
    @staticmethod
    def describe(job):
        from bert_e.job import PullRequestJob, CommitJob
        if isinstance(job, PullRequestJob):
            return ['pr', job.pull_request.id]
        if isinstance(job, CommitJob):
            return ['commit', str(job.commit)]
        return ['api', type(job).__name__]

    def begin_event(self, fault=None):
        self.job_no = 0
        self.fault = fault
        self.faulted = None
        self.jobs = []

    def begin_job(self, berte):
        q = berte.task_queue.queue
        self.cur_desc = self.describe(q[0]) if len(q) else ['none']
        self.cur_job = q[0] if len(q) else None
        self.ops = []
        self.in_job = True
        self.depth = 0
        self.rej_cmd = None

    def end_job(self, berte):
        self.in_job = False
        self._clear_reject()
        rec = {'desc': self.cur_desc, 'ops': self.ops, 'status': getattr(self.cur_job, 'status', None) or 'ok',
               'j': self.job_no}
        self.jobs.append(rec)
        armed = self.fault is not None and self.fault['j'] == self.job_no
        self.job_no += 1
        self.ops = None
        if armed:
            self.faulted = rec
            self.pending = [self.describe(j) for j in list(berte.task_queue.queue)]
            while berte.task_queue.qsize():           # the in-memory queue dies with the process
                berte.task_queue.get()
                berte.task_queue.task_done()
            self.fault = None
            raise Died()

    def _clear_reject(self):
        if self.world is not None and os.path.exists(self.reject_file):
            os.unlink(self.reject_file)
        self.rej_cmd = None

    def operation(self, kind, what, call, failure):
        n = len(self.ops)
        rec = {'kind': kind, 'what': what}
        self.ops.append(rec)
        f = self.fault if (self.fault is not None and self.fault['j'] == self.job_no) else None
        if f is not None and f['kind'] == 'crash' and n >= f['k']:
            rec['failed'] = True
            raise failure
        if f is not None and f['kind'] == 'reject' and kind == 'git' and \
                (n == f['k'] or (self.rej_cmd is not None and self.rej_cmd == what)):
            with open(self.reject_file, 'w') as fh:
                fh.write('refs/heads/' + f['ref'] if not f['ref'].startswith('refs/') else f['ref'])
            self.rej_cmd = what
        else:
            self._clear_reject()
        before = self.world.refs() if (self.record_refs and kind == 'git') else None
        before_tags = self.world.tags() if (self.record_refs and kind == 'git') else None
        self.depth += 1
        try:
            try:
                return call()
            except Exception:
                rec['failed'] = True
                raise
        finally:
            self.depth -= 1
            if before is not None:
                after = self.world.refs()
                rec['refs'] = sorted(r for r in set(before) | set(after) if before.get(r) != after.get(r))
                after_tags = self.world.tags()
                rec['tags'] = sorted(t for t in set(before_tags) | set(after_tags)
                                     if before_tags.get(t) != after_tags.get(t))


INJ = Injector()


# ----------------------------------------------------------------------------- the property's notions, on the real remote

def targets_of(refs, dst):
    """the branches a pull request on `dst` must reach: `dst`, then every later development branch"""
    if dst not in refs:
        return []
    if dst.startswith('hotfix/'):
        return [dst]
    key = version_key(dst)
    devs = sorted((n for n in refs if n.startswith('development/')), key=version_key)
    return [dst] + [d for d in devs if version_key(d) > key and d != dst]


def own_prefix(src):
    return 'f_%s_' % src.replace('/', '_')


def all_or_none_breaks(w, prs, refs=None):
    """[(pr id, file, targets that have it, targets that lack it)]: a change of a pull request that is on some
    of its target branches and not on the others"""
    refs = w.refs() if refs is None else refs
    cache = {}

    def files(name):
        sha = refs[name]
        if sha not in cache:
            cache[sha] = w.files(sha)
        return cache[sha]
    bad = []
    for pr in prs:
        ts = targets_of(refs, pr['dst'])
        if len(ts) < 2:
            continue
        pre = own_prefix(pr['src'])
        own = set()
        for n in ts + ([pr['src']] if pr['src'] in refs else []):
            own |= {f for f in files(n) if f.startswith(pre)}
        for f in sorted(own):
            has = [t for t in ts if f in files(t)]
            if has and len(has) != len(ts):
                # a file can also be missing because somebody took it out again on an integration branch (a revert
                # by hand is a change like any other): the change itself is the COMMIT that introduced the file
                intro = git(w.bare, 'log', '--all', '--diff-filter=A', '--format=%H', '--', f).split()
                if intro:
                    c = intro[-1]
                    has = [t for t in ts if w.is_ancestor(c, refs[t])]
                    if not has or len(has) == len(ts):
                        continue
                bad.append((pr['id'], f, has, [t for t in ts if t not in has]))
    return bad


def dest_trees(w, refs=None):
    refs = w.refs() if refs is None else refs
    return {n: w.tree(refs[n]) for n in refs
            if n.split('/')[0] in ('development', 'stabilization', 'hotfix')}


def change_kinds(before, after):
    """{ref code: created|deleted|changed} between two ref snapshots (unchanged refs omitted)"""
    out = {}
    for n in set(before) | set(after):
        if before.get(n) == after.get(n):
            continue
        out[ref_code(n)] = 'created' if n not in before else 'deleted' if n not in after else 'changed'
    return out


# ----------------------------------------------------------------------------- executing a history with a fault

API_KINDS = {'CreateBranchJob': 'create_branch', 'DeleteBranchJob': 'delete_branch',
             'RebuildQueuesJob': 'rebuild_queues', 'DeleteQueuesJob': 'delete_queues',
             'ForceMergeQueuesJob': 'force_merge_queues', 'EvalPullRequestJob': 'eval_pull_request'}

QUEUE_RESET_STATUS = ('QueueOutOfOrder', 'IncoherentQueues')


def closing_events(nprs, rounds):
    """what drives every pull request as far as it goes: green builds + evaluation, a few rounds"""
    return [{'op': 'progress', 'pr': p, 'closing': True} for _ in range(rounds) for p in range(1, nprs + 1)]


class Everything(dict):
    """`Run.execute` only amends a source commit whose parent the MODEL knows (sha2id); the fault runs have no
    model stepping: the uninterrupted run says which amend events were executed (see `FRun.execute`)"""

    def __contains__(self, key):
        return True


class FRun:
    def __init__(self, cfg, base_dir=None, executed=None):
        self.run = Run(cfg, base_dir)
        self.run.sha2id = Everything()
        self.w = self.run.w
        self.executed = executed     # indices of the events that the uninterrupted run did not skip (None: unknown)
        INJ.attach(self.w)

    def close(self):
        INJ.world = None
        self.run.close()

    def pr_list(self):
        return list(self.run.prs.values())

    def redeliver(self, desc, ev):
        """the same event again, to the current BertE instance"""
        w = self.w
        if desc[0] == 'pr':
            st = w.eval_pr(desc[1])
        elif desc[0] == 'commit':
            st = w.eval_commit(desc[1])
        elif desc[0] == 'api':
            kind = API_KINDS[desc[1]]
            settings = {'branch': ev['branch']} if kind in ('create_branch', 'delete_branch') else {}
            st = w.job(kind, **settings)
        else:
            return 'none'
        w.drain()
        self.settle_host()
        return st

    def settle_host(self):
        """The mock host computes a pull request's MERGED state lazily, when somebody looks at it, and then keeps
        it. A real host decides when the push lands: look after every step, as `histories.play` does."""
        self.w.prs()

    def execute(self, ev, n=None):
        INJ.begin_event(None)
        if ev['op'] == 'src_amend' and self.executed is not None and n not in self.executed:
            return 'skip', None, []
        kind, info = self.run.execute(ev)
        self.settle_host()
        return kind, info, INJ.jobs

    def execute_faulted(self, ev, fault):
        """Run `ev` with the fault; returns None when the faulted job never started, else a dict with the
        interrupted state's observations and the recovery's outcome."""
        w = self.w
        before = w.refs()
        prs = self.pr_list()
        bad_before = {(b[0], b[1]) for b in all_or_none_breaks(w, prs, before)}
        incl_before = w.inclusion_breaks(before)
        INJ.begin_event(dict(fault))
        died = False
        try:
            self.run.execute(ev)
        except Died:
            died = True
        INJ.fault = None
        if not died:
            return None
        rec = INJ.faulted
        pending = INJ.pending
        self.settle_host()
        after = w.refs()
        prs = self.pr_list()
        out = {'status': rec['status'], 'desc': rec['desc'], 'ops': [(o['kind'], o['what'], bool(o.get('failed')))
                                                                    for o in rec['ops']],
               'kinds': change_kinds(before, after), 'before': before, 'after': after}
        out['all_or_none'] = [b for b in all_or_none_breaks(w, prs, after) if (b[0], b[1]) not in bad_before]
        out['inclusion'] = [] if incl_before else w.inclusion_breaks(after)
        # ---- recovery: a fresh Bert-E gets the event again
        w.fresh_instance()
        INJ.begin_event(None)
        st = self.redeliver(rec['desc'], ev)
        out['redelivered'] = st
        out['reset'] = False
        if st in QUEUE_RESET_STATUS:
            # the documented reset (API_DOC: "Use it when Bert-E reports that queues are out of order"), and
            # DELETE queues "as a last resort" when the rebuild job itself fails
            out['reset'] = True
            out['reset_status'] = w.job('rebuild_queues')
            out['reset_drained'] = w.drain()
            if out['reset_status'] != 'JobSuccess':
                out['reset_fallback'] = w.job('delete_queues')
                w.drain()
            self.settle_host()
            out['redelivered2'] = self.redeliver(rec['desc'], ev)
        for d in pending:                  # events that were waiting in the dead process: delivered again
            self.redeliver(d, ev)
        out['recovered_trees'] = dest_trees(w)
        # "at every moment the remote repository can be observed": also right after the recovery
        prs = self.pr_list()
        out['all_or_none_recovered'] = [b for b in all_or_none_breaks(w, prs) if (b[0], b[1]) not in bad_before]
        out['inclusion_recovered'] = [] if incl_before else w.inclusion_breaks(w.refs())
        return out
