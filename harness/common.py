"""Shared machinery of the checks: paths, scratch, lake build, axiom audit, model driver,
evidence writer, known findings, verdict lines."""
import atexit
import fcntl
import hashlib
import json
import os
import random
import re
import shutil
import subprocess
import sys
import tempfile
import time

VERIF = os.path.dirname(os.path.dirname(os.path.abspath(__file__)))
REPO = os.environ.get('VERIF_REPO', '/repo')
LEAN_DIR = os.path.join(VERIF, 'lean')
EVIDENCE_DIR = os.path.join(VERIF, 'evidence')
CORPUS_DIR = os.path.join(VERIF, 'corpus')
REPLAY_DIR = os.path.join(VERIF, 'replays')
KNOWN_FINDINGS = os.path.join(VERIF, 'KNOWN_FINDINGS.txt')
DRIVER_EXE = os.path.join(LEAN_DIR, '.lake', 'build', 'bin', 'driver')
ALLOWED_AXIOMS = {'propext', 'Classical.choice', 'Quot.sound'}
NCPU = int(os.environ.get('VERIF_JOBS', os.cpu_count() or 4))

if REPO not in sys.path:
    sys.path.insert(0, REPO)


def log(*a):
    print('[check]', *a, file=sys.stderr, flush=True)


# --------------------------------------------------------------------------- scratch

_SCRATCH = None


def scratch():
    """Private scratch directory, removed at exit."""
    global _SCRATCH
    if _SCRATCH is None:
        base = os.environ.get('VERIF_SCRATCH', tempfile.gettempdir())
        _SCRATCH = tempfile.mkdtemp(prefix='berte-verif.%d.' % os.getpid(), dir=base)
        atexit.register(_cleanup)
    return _SCRATCH


def _cleanup():
    global _SCRATCH
    if _SCRATCH and os.path.isdir(_SCRATCH):
        shutil.rmtree(_SCRATCH, ignore_errors=True)
    _SCRATCH = None


# --------------------------------------------------------------------------- lake

class Lock:
    def __init__(self):
        os.makedirs(os.path.join(LEAN_DIR, '.lake'), exist_ok=True)
        self.path = os.path.join(LEAN_DIR, '.lake', 'verif.lock')

    def __enter__(self):
        self.fh = open(self.path, 'w')
        fcntl.flock(self.fh, fcntl.LOCK_EX)
        return self

    def __exit__(self, *a):
        fcntl.flock(self.fh, fcntl.LOCK_UN)
        self.fh.close()


def run(cmd, cwd=None, timeout=None, env=None, input=None):
    p = subprocess.run(cmd, cwd=cwd, timeout=timeout, env=env, input=input,
                       stdout=subprocess.PIPE, stderr=subprocess.STDOUT, text=True)
    return p.returncode, p.stdout


def lake_build(targets, timeout=3000):
    """`lake build <targets>` under the project lock. Returns (ok, output)."""
    with Lock():
        rc, out = run(['lake', 'build'] + list(targets), cwd=LEAN_DIR, timeout=timeout)
    return rc == 0, out


_ERR_RE = re.compile(r'^error: (\S+?\.lean):(\d+):(\d+):\s*(.*)$')


def failing_declarations(build_output):
    """Map `error: file:line:col` lines of a failed build to the enclosing declaration."""
    res = []
    for line in build_output.splitlines():
        m = _ERR_RE.match(line.strip())
        if not m:
            continue
        f, ln, _, msg = m.groups()
        path = f if os.path.isabs(f) else os.path.join(LEAN_DIR, f)
        decl = None
        try:
            with open(path) as fh:
                src = fh.read().splitlines()
            for i in range(min(int(ln), len(src)) - 1, -1, -1):
                mm = re.match(r'^\s*(?:@\[[^\]]*\]\s*)?(?:private |protected )?'
                              r'(theorem|lemma|def|example|instance|abbrev)\s+(\S+)?', src[i])
                if mm:
                    decl = '%s %s' % (mm.group(1), mm.group(2) or '')
                    break
        except OSError:
            pass
        res.append({'file': os.path.relpath(path, LEAN_DIR), 'line': int(ln),
                    'declaration': decl, 'message': msg[:300]})
    return res


FORBIDDEN = re.compile(r'\bsorry\b|\badmit\b|^\s*axiom\s|native_decide|bv_decide|'
                       r'implemented_by|\bunsafe\s|maxHeartbeats\s+0\b')


def strip_comments(src):
    """Remove Lean block comments (nested) and line comments."""
    out = []
    i, depth, n = 0, 0, len(src)
    while i < n:
        if src.startswith('/-', i):
            depth += 1
            i += 2
        elif depth and src.startswith('-/', i):
            depth -= 1
            i += 2
        elif depth:
            if src[i] == '\n':
                out.append('\n')
            i += 1
        elif src.startswith('--', i):
            while i < n and src[i] != '\n':
                i += 1
        else:
            out.append(src[i])
            i += 1
    return ''.join(out)


def grep_forbidden():
    """Forbidden constructs anywhere under lean/BertE and lean/Driver.lean (comments excluded)."""
    hits = []
    files = [os.path.join(LEAN_DIR, 'Driver.lean')]
    for root, _, names in os.walk(os.path.join(LEAN_DIR, 'BertE')):
        files += [os.path.join(root, n) for n in names if n.endswith('.lean')]
    for f in files:
        if not os.path.exists(f):
            continue
        with open(f) as fh:
            src = strip_comments(fh.read())
        for k, line in enumerate(src.splitlines(), 1):
            if FORBIDDEN.search(line):
                hits.append('%s:%d: %s' % (os.path.relpath(f, LEAN_DIR), k, line.strip()[:120]))
    return hits


def property_theorems(pid, extra_modules=()):
    """Names of the theorems stated in lean/BertE/Props/<pid>.lean (fully qualified), and in the other
    `BertE.Props.*` modules among the check's LEAN_TARGETS (`extra_modules`)."""
    names = _theorems_of(os.path.join(LEAN_DIR, 'BertE', 'Props', pid + '.lean'))
    for mod in extra_modules:
        parts = mod.split('.')
        if len(parts) == 3 and parts[:2] == ['BertE', 'Props'] and parts[2] != pid:
            for n in _theorems_of(os.path.join(LEAN_DIR, 'BertE', 'Props', parts[2] + '.lean')):
                if n not in names:
                    names.append(n)
    return names


def _theorems_of(path):
    with open(path) as fh:
        src = strip_comments(fh.read())
    ns = []
    names = []
    for line in src.splitlines():
        m = re.match(r'^namespace\s+(\S+)', line)
        if m:
            ns.append(m.group(1))
            continue
        m = re.match(r'^end\s+(\S+)', line)
        if m and ns and ns[-1] == m.group(1):
            ns.pop()
            continue
        m = re.match(r'^(?:@\[[^\]]*\]\s*)?theorem\s+(\S+)', line)
        if m:
            names.append('.'.join(ns + [m.group(1)]))
    return names


def axiom_audit(pid, timeout=1200, extra_modules=()):
    """`#print axioms` on every theorem of Props/<pid> (and of the extra Props modules of the check).
    Returns (ok, {thm: [axioms]}, raw)."""
    thms = property_theorems(pid, extra_modules)
    adir = os.path.join(LEAN_DIR, '.lake', 'audit')
    os.makedirs(adir, exist_ok=True)
    f = os.path.join(adir, pid + '.lean')
    with open(f, 'w') as fh:
        fh.write('import BertE.Props.%s\n' % pid)
        for mod in extra_modules:
            if mod != 'BertE.Props.%s' % pid:
                fh.write('import %s\n' % mod)
        for t in thms:
            fh.write('#print axioms %s\n' % t)
    with Lock():
        rc, out = run(['lake', 'env', 'lean', f], cwd=LEAN_DIR, timeout=timeout)
    res = {}
    flat = re.sub(r'\s+', ' ', out)
    for t in thms:
        m = re.search(r"'%s' depends on axioms: \[([^\]]*)\]" % re.escape(t), flat)
        if m:
            res[t] = [a.strip() for a in m.group(1).split(',') if a.strip()]
        elif re.search(r"'%s' does not depend on any axioms" % re.escape(t), flat):
            res[t] = []
        else:
            res[t] = None
    ok = rc == 0 and all(v is not None and set(v) <= ALLOWED_AXIOMS for v in res.values()) \
        and len(thms) > 0
    return ok, res, out


# --------------------------------------------------------------------------- model driver

class Model:
    """The Lean model behind a one-line-in / one-line-out protocol."""

    def __init__(self):
        self.exe = DRIVER_EXE if os.path.exists(DRIVER_EXE) else None

    def available(self):
        return self.exe is not None

    def ask(self, lines, timeout=3000):
        """lines: list of str (no newlines). Returns list of answers, same length."""
        if not lines:
            return []
        data = '\n'.join(lines) + '\n'
        if self.exe:
            for attempt in range(5):
                try:
                    p = subprocess.run([self.exe], input=data, stdout=subprocess.PIPE,
                                       stderr=subprocess.PIPE, text=True, timeout=timeout)
                    break
                except (FileNotFoundError, OSError):      # the driver is being re-linked by another run
                    if attempt == 4:
                        raise
                    time.sleep(3)
        else:
            p = subprocess.run(['lake', 'env', 'lean', '--run', 'Driver.lean'], cwd=LEAN_DIR,
                               input=data, stdout=subprocess.PIPE, stderr=subprocess.PIPE,
                               text=True, timeout=timeout)
        if p.returncode != 0:
            raise RuntimeError('model driver failed: %s' % p.stderr[-2000:])
        out = p.stdout.split('\n')
        if out and out[-1] == '':
            out.pop()
        if len(out) != len(lines):
            raise RuntimeError('model driver: %d answers for %d questions' % (len(out), len(lines)))
        return out

    def ask_parallel(self, lines, chunks=None):
        """Same as ask, split over several driver processes."""
        from concurrent.futures import ThreadPoolExecutor
        chunks = chunks or NCPU
        if len(lines) < 2000 or chunks <= 1:
            return self.ask(lines)
        size = (len(lines) + chunks - 1) // chunks
        parts = [lines[i:i + size] for i in range(0, len(lines), size)]
        with ThreadPoolExecutor(len(parts)) as ex:
            outs = list(ex.map(self.ask, parts))
        return [a for part in outs for a in part]


# --------------------------------------------------------------------------- findings / verdict

def known_findings():
    """Parse KNOWN_FINDINGS.txt: lines `finding: property=<id> key=<fingerprint> :: <what>`
    and `fixed: property=<id> <commit> <what>` (the latter suppress nothing)."""
    res = []
    if not os.path.exists(KNOWN_FINDINGS):
        return res
    with open(KNOWN_FINDINGS) as fh:
        for line in fh:
            line = line.strip()
            m = re.match(r'^finding:\s+property=(\S+)\s+key=(\S+)\s+::\s+(.*)$', line)
            if m:
                res.append({'property': m.group(1), 'key': m.group(2), 'what': m.group(3)})
    return res


def write_replay(pid, name, payload):
    os.makedirs(REPLAY_DIR, exist_ok=True)
    path = os.path.join(REPLAY_DIR, '%s-%s.json' % (pid, name))
    with open(path, 'w') as fh:
        json.dump(payload, fh, indent=1, sort_keys=True, default=str)
    return path


def write_evidence(pid, tier, seed, coverage, assumptions, wall_s, violations, level='proof'):
    os.makedirs(EVIDENCE_DIR, exist_ok=True)
    ev = {'property_id': pid, 'tier': tier, 'seed': seed, 'level': level,
          'coverage': coverage, 'assumptions': assumptions,
          'wall_s': round(wall_s, 2), 'violations': violations}
    path = os.path.join(EVIDENCE_DIR, pid + '.json')
    if os.path.realpath(REPO) != '/repo':
        # a run against another tree (VERIF_REPO: a seeded change, a pre-fix worktree) is no evidence about /repo:
        # it is kept beside the replay files (not committed) and never overwrites evidence/<id>.json
        os.makedirs(REPLAY_DIR, exist_ok=True)
        path = os.path.join(REPLAY_DIR, 'evidence-%s.json' % pid)
    tmp = path + '.tmp'
    with open(tmp, 'w') as fh:
        json.dump(ev, fh, indent=1, sort_keys=True, default=str)
    os.replace(tmp, path)
    return path


def rng_for(seed, *tags):
    h = hashlib.sha256(('%s|%s' % (seed, '|'.join(map(str, tags)))).encode()).digest()
    return random.Random(int.from_bytes(h[:8], 'big'))


def repo_head():
    rc, out = run(['git', '-C', REPO, 'rev-parse', 'HEAD'])
    rc2, out2 = run(['git', '-C', REPO, 'status', '--porcelain', '--untracked-files=no'])
    return out.strip() + ('+dirty' if out2.strip() else '')
