"""C08 — Bert-E never rewrites or deletes what it does not own: tie and oracles.

Seeded histories (the generator of C01) run on the real BertE + mock host + real git. For every job of a history
and each `git push` it issues, ONE third-party action (create a new branch / push a commit on a pull-request source
branch / force-push a source branch) is executed on the bare remote immediately before that push: the job is
re-run in a forked child from a snapshot of the world taken at the start of the job (directory copy + fork), so
every placement starts from exactly the same state. Oracles on the real remote after every job (interleaved or
not); the plan of every uninterrupted job (its pushes, in order) and the outcome of every interleaved job are
compared with the model (`C08 ops`, `C08 sched`).

Scripted block (every run, `scripted_cases`): the delete-branch job against the three states of the archive tag.
Cascade with a stabilization, development and hotfix branch, queues on / off; the archive tag of the branch (`<version>`, `<version>.archived_hotfix_branch`) is pushed by hand nowhere /
on the tip of the branch (= a deletion that was interrupted between the push of the tag and the removal of the
branch) / on another commit; then the real `delete_branch` job runs (with the same interleavings and refusals as
every job) and its ordered remote operations are compared with `C08 opst <none|tip|other>` — full job / deletion
completed without a second tag / nothing at all —, the oracle demanding a tag ON THE DELETED TIP. Besides "the server
refuses this push" (the command fails as a whole), every single ref of a push with explicit refspecs is refused by a
git `update` hook in the bare remote (`refuse-ref:<j>`): the server takes the other refs of a non-atomic push, so a
job that publishes the tag and deletes the branch in one push loses the branch without a tag.

Scripted block (every run, `reset_cases`): `@robot reset` / `@robot force_reset` on a pull request that has integration
branches x queues on / off x {no manual work, a commit made by hand on an integration branch}; the reset job gets every
third-party action before its `git push --all --atomic --prune` like every job (the colleague's commit on the source
branch must still be there afterwards); a case whose job does not end in that push (or, for a plain reset over manual
work, in LossyResetWarning without a push) is a disagreement, so the block cannot become vacuous.

Fault block (every run, harness/c08_faults.py): short histories in which a first job fills the mirror cache, a
colleague then creates a branch and / or pushes to a branch that is not Bert-E's, and a job follows that ends in a
pruning push (merge, queue merge, reset, decline, rebuild / delete queues); ONE git command that the job issues
before its last push (cache refresh, clones, `remote update`, `ls-remote`, checkouts, merges ...) fails once with
CommandError. Oracle on the real remote: what is not w/, q/, tmp/ and existed BEFORE the job is still there, not
rewound (destinations: fast-forward only). Nobody acts during these jobs: a failure there is not one of the two
races recorded as known findings and has its own keys (`transient-git-failure/...`)."""
import json
import os
import re
import shlex
import shutil
import subprocess
import traceback
from multiprocessing import Pool

from . import common
from . import histories as H
from .pipeline import Result
from .system import git

PID = 'C08'
TABLES = ['GitFlags']
LEAN_TARGETS = ['BertE.Props.C08']
ASSUMPTIONS = [
    'the delete-branch job is modelled once its other checks passed (destination branch that exists, no stabilization branch '
    'alive for a development branch, nothing queued on it); the archive tags are those the clone of the job sees: no tag is '
    'moved or removed by somebody else while the job runs (a resumed deletion relies on the tag it found on the tip)',
    'third parties write only refs that are neither destination branches nor w/, q/ branches (premise of GitWaterFlow); '
    'the schedule clause considers ONE third-party action per job, placed immediately before one of its pushes',
    "the remote's reaction to a push (creation or fast-forward only, all-or-nothing with --atomic, --prune deletes remote "
    'heads without local counterpart) is an axiom of the model (applyOp), validated on real git by every run: '
    'interleaved jobs included (final refs and ancestry compared with `applyOpsWithAbort`)',
    'a force-push of the third party creates a new commit (amend / rebase); a force-push back to an ancestor of the old tip '
    'is outside the quantifier (Bert-E\'s `push --all` would fast-forward the branch again: reported to the coordinator)',
]
TRUSTED = [
    'Lean 4 kernel; axioms of every theorem audited (subset of propext, Classical.choice, Quot.sound)',
    'hand-written model lean/BertE/Model/Git.lean, Flow.lean, FlowExt.lean, tied to the code by the differential run of every '
    'event (refs, tip classes, ancestry, outcome), by the comparison of the ordered list of `git push` commands of every '
    'job with the plan of the model, and by the comparison of every interleaved run with the model',
    'harness/tables/gitflags.py (AST extraction of push templates, Branch.remove guard, remove() callers, delete_branch call '
    'order with the `if` tests around every call, the assignments of its flag `archived` and the shape of the check that '
    'precedes `archived = True`: rev-list of the tag compared with the tip of the checked-out branch, else raise)',
    'harness/histories.py, harness/system.py (generator, mock git host, real git), harness/c08.py (fork/snapshot scheduler, '
    'wrapper around bert_e.lib.git.cmd that recognises `git push`)',
    'harness/c08_faults.py (second wrapper around bert_e.lib.git.cmd: numbers the git commands of a job and raises CommandError '
    'for one of them, once; a transient failure is modelled as "the command did not run and reported an error")',
]
FINDING_KEY = 'prune-deletes-concurrently-created-branch'
JOB_OPS = ('progress', 'eval_pr', 'eval_commit', 'job')
ACTIONS = ('create', 'advance', 'force')
# A fourth placement, NOT part of the enumerated quantifier (see ASSUMPTIONS): the third party force-pushes a source
# branch BACK to its parent. Bert-E's `push --all` then fast-forwards the branch to the tip it had cloned
# (Lean: C08_rewind_race_witness). Set to ('rewind',) to enumerate it too; its oracle failure has the key REWIND_KEY.
EXTRA_ACTIONS = ('rewind',)
REWIND_KEY = 'push-all-restores-concurrently-rewound-branch'
FORCE_TOKENS = {'--force', '-f', '--force-with-lease', '--force-if-includes', '--mirror', '--delete', '-d'}
DEST_RE = re.compile(r'^(development|stabilization|hotfix)/[0-9.]+$')

# ----------------------------------------------------------------------------- the shim around bert_e.lib.git.cmd

HOOK = {'on': False, 'log': [], 'inject': None, 'sched': [], 'seen': {}}
_SHIM = False


def install_shim():
    """Every command of Bert-E's git layer goes through `bert_e.lib.git.cmd`; the World's own git calls do not."""
    global _SHIM
    if _SHIM:
        return
    from . import system
    system._patch()
    import bert_e.lib.git as libgit
    orig = libgit.cmd

    def shim(command, *a, **kw):
        if HOOK['on'] and isinstance(command, str):
            head = command.split()[:3]
            if head[:2] == ['git', 'push']:
                inj = HOOK['inject']
                k = sum(1 for e in HOOK['log'] if e[0] == 'push')
                if inj is not None and not inj['done'] and k == inj['k']:
                    inj['done'] = True
                    inj['command'] = command
                    inj['fn'](inj)
                HOOK['log'].append(('push', command))
                if inj is not None and inj.get('refuse') == command:
                    raise libgit.CommandError('refused by the server (injected)')
            elif head == ['git', 'remote', 'update']:
                HOOK['log'].append(('clone', command))
        return orig(command, *a, **kw)

    libgit.cmd = shim
    _SHIM = True


def push_argv(command):
    try:
        return shlex.split(command)
    except ValueError:
        return command.split()


def push_code(command):
    """a `git push` command of Bert-E in the model's notation (`C08 ops`)"""
    argv = push_argv(command)[2:]
    if '--all' in argv:
        return 'pushall:%d' % ('--prune' in argv)
    names = [a for a in argv if not a.startswith('-') and a != 'origin']
    if len(names) == 1 and names[0].startswith(':'):
        return 'del:' + H.ref_code(names[0][1:])
    if len(names) == 1 and re.match(r'^[0-9.]+(\.archived_hotfix_branch)?$', names[0]):
        return 'tag:' + H.version_dest_code(names[0].replace('.archived_hotfix_branch', '.0'))
    return 'push:' + ','.join(H.ref_code(n) for n in names)


def push_refs(command):
    """the remote refs that a `git push` with explicit refspecs asks the server to update, one candidate set per
    refspec, in the order of the command line ([] for `--all` / `--tags` / `--mirror`). A bare name `x` is
    `refs/tags/x` or `refs/heads/x`, whichever the clone has (git refuses an ambiguous name): both are candidates."""
    argv = push_argv(command)[2:]
    if any(a in ('--all', '--tags', '--mirror') for a in argv):
        return []
    out = []
    for n in [a for a in argv if not a.startswith('-') and a != 'origin']:
        n = n.lstrip('+')
        if ':' in n:
            n = n.split(':', 1)[1]
            out.append([n] if n.startswith('refs/') else ['refs/heads/' + n])
        elif n.startswith('refs/'):
            out.append([n])
        else:
            out.append(['refs/tags/' + n, 'refs/heads/' + n])
    return out


REFUSE_HOOK = """#!/bin/sh
# installed by harness/c08.py: the server refuses the refs listed (one per line) in the file next to this hook
f="%s"
if [ -f "$f" ] && grep -qxF -- "$1" "$f"; then
  echo "verif: update of $1 refused" >&2
  exit 1
fi
exit 0
"""


def install_refusal(w, refnames):
    """a git `update` hook in the bare remote: exactly the refs `refnames` are refused (per ref: the other refs of a
    non-atomic push are accepted, an atomic push fails as a whole - git's own behaviour)"""
    import stat
    listing = os.path.join(w.bare, 'verif-c08-refused')
    with open(listing, 'w') as fh:
        fh.write(''.join(r + '\n' for r in refnames))
    hook = os.path.join(w.bare, 'hooks', 'update')
    os.makedirs(os.path.dirname(hook), exist_ok=True)
    with open(hook, 'w') as fh:
        fh.write(REFUSE_HOOK % listing)
    os.chmod(hook, os.stat(hook).st_mode | stat.S_IXUSR | stat.S_IXGRP | stat.S_IXOTH)


def remove_refusal(w):
    for fn in (os.path.join(w.bare, 'verif-c08-refused'), os.path.join(w.bare, 'hooks', 'update')):
        if os.path.exists(fn):
            os.remove(fn)


# ----------------------------------------------------------------------------- oracles (on the real remote)

def is_foreign(name):
    return not (name.startswith('w/') or name.startswith('q/') or name.startswith('tmp/') or DEST_RE.match(name))


def check_job(w, before, after, tags_before, tags_after, log, expected_foreign, what, sched=None, is_delete_job=False):
    """Exactly what the property demands of one Bert-E job. `expected_foreign`: the foreign refs as the third party
    left them (= `before` when nobody interfered). Returns a list of failures."""
    fails = []
    # (1) destination branches: fast-forward only; deleted only by the delete-branch job, after the archive tag
    for n, old in sorted(before.items()):
        if not DEST_RE.match(n):
            continue
        if n in after:
            if after[n] != old and not w.is_ancestor(old, after[n]):
                fails.append({'key': 'destination-not-fast-forward',
                              'what': '%s: %s moved from %s to %s which does not contain it' % (what, n, old[:8], after[n][:8]),
                              'observation': {'ref': n, 'old': old, 'new': after[n]}})
        else:
            tagged = [t for t, s in tags_after.items() if s == old]
            if not is_delete_job:
                fails.append({'key': 'destination-deleted', 'what': '%s: %s deleted by a job that is not delete_branch' % (what, n),
                              'observation': {'ref': n}})
            elif not tagged:
                fails.append({'key': 'deleted-without-archive-tag',
                              'what': '%s: %s deleted, no tag on its tip %s' % (what, n, old[:8]),
                              'observation': {'ref': n, 'tags': tags_after}})
    # (2) foreign refs as the third party left them
    for n, sha in sorted(expected_foreign.items()):
        if after.get(n) == sha:
            continue
        how = 'deleted' if n not in after else ('rewound' if w.is_ancestor(after[n], sha) else 'moved')
        key = 'foreign-ref-%s' % how
        if sched and sched['action'] == 'create' and n == sched.get('name') and how == 'deleted' and sched.get('prune_after'):
            key = FINDING_KEY
        if sched and sched['action'] == 'rewind' and n == sched.get('name') and after.get(n) == sched.get('old'):
            key = REWIND_KEY
        fails.append({'key': key, 'what': '%s: branch %s (not owned by Bert-E) %s: expected %s, found %s'
                      % (what, n, how, sha[:8], (after.get(n) or 'nothing')[:8]),
                      'observation': {'ref': n, 'expected': sha, 'found': after.get(n), 'sched': _pub(sched)}})
    # (3) no push is forced
    for kind, command in log:
        if kind != 'push':
            continue
        argv = push_argv(command)[2:]
        bad = [a for a in argv if a in FORCE_TOKENS or a.startswith('+') or
               (a.startswith('-') and not a.startswith('--') and any(ch in 'fd' for ch in a[1:]))]
        if bad:
            fails.append({'key': 'forced-push', 'what': '%s: `%s`' % (what, command), 'observation': {'argv': argv}})
    # (4) everything that was on a destination branch is still reachable from branches and tags
    tips = sorted({s for n, s in before.items() if DEST_RE.match(n)})
    if tips:
        p = subprocess.run(['git', 'rev-list', '--max-count=1'] + tips + ['--not', '--branches', '--tags'],
                           cwd=w.bare, stdout=subprocess.PIPE, stderr=subprocess.PIPE, text=True)
        if p.returncode != 0 or p.stdout.strip():
            fails.append({'key': 'destination-commit-unreachable',
                          'what': '%s: commit %s was on a destination branch and is reachable from no branch or tag'
                          % (what, p.stdout.strip()[:8] or p.stderr[-80:]), 'observation': {'tips': tips}})
    return fails


def _pub(sched):
    if not sched:
        return None
    return {k: v for k, v in sched.items() if k not in ('fn', 'run')}


def is_delete_job(ev):
    return ev.get('op') == 'job' and ev.get('kind') == 'delete_branch'


# state kept between the wrapper around Run.execute (before the job) and the oracle callback (after it)
_LAST = {}


def oracle_c08(run, ev, kind, info, before, after, host_before, host_after):
    if kind != 'job' or not HOOK['on']:
        return []
    st = _LAST.get(id(run))
    if not st or st['ev'] is not ev:
        return []
    w = run.w
    fails = check_job(w, st['before'], after, st['tags_before'], w.tags(), st['log'],
                      {n: s for n, s in st['before'].items() if is_foreign(n)},
                      'uninterrupted %s' % _evname(ev), is_delete_job=is_delete_job(ev))
    fails += st['child_failures']
    # what happened to the refs first, the forcing token of the command line (how it happened) after it
    fails.sort(key=lambda f: f['key'] == 'forced-push')
    return fails


def _evname(ev):
    return ev['op'] + (':' + ev['kind'] if ev.get('kind') else '')


ORACLES = [oracle_c08]

# ----------------------------------------------------------------------------- snapshot / fork scheduler


def _copy(src, dst):
    subprocess.run(['cp', '-a', src, dst], check=True)


def _restore(w, snap):
    shutil.rmtree(w.dir, ignore_errors=True)
    _copy(snap, w.dir)


def _in_child(fn):
    """run fn() in a forked child, return its JSON-able result"""
    r, wfd = os.pipe()
    pid = os.fork()
    if pid == 0:
        code = 0
        try:
            os.close(r)
            try:
                out = {'ok': fn()}
            except BaseException:
                out = {'error': traceback.format_exc()[-3000:]}
            with os.fdopen(wfd, 'w') as fh:
                json.dump(out, fh, default=str)
        except BaseException:
            code = 1
        finally:
            os._exit(code)
    os.close(wfd)
    with os.fdopen(r) as fh:
        data = fh.read()
    os.waitpid(pid, 0)
    if not data:
        raise RuntimeError('C08 scheduler: child died without an answer')
    out = json.loads(data)
    if 'error' in out:
        raise RuntimeError('C08 scheduler: child failed: %s' % out['error'])
    return out['ok']


def _third_party(run, action, pr_src, n_label):
    """the injected action; returns the function run at the injection point"""
    w = run.w

    def fn(inj):
        refs = w.refs()
        inj['applicable'] = False
        if action == 'refuse':            # not a third party: the server refuses this push (and its retries)
            inj.update(refuse=inj['command'], applicable=True, refs_after_action=refs)
            return
        if action.startswith('refuse-ref:'):   # the server refuses ONE ref of this push (update hook), for good
            cands = push_refs(inj['command'])
            j = int(action.split(':')[1])
            if j < len(cands):
                install_refusal(w, cands[j])
                inj.update(refused=cands[j], applicable=True)
            inj['refs_after_action'] = refs
            return
        if action == 'create':
            name = 'feature/thirdparty-%s' % n_label
            dests = [n for n in w.cfg.dests if n in refs] or sorted(refs)
            sha = refs[dests[0]]
            w._fetch()
            git(w.work, 'push', '-q', 'origin', '%s:refs/heads/%s' % (sha, name))
            inj.update(name=name, at=sha, applicable=True)
        else:
            srcs = [pr_src] if pr_src in refs else []
            srcs += sorted(p['src'] for p in run.prs.values() if p['src'] in refs and p['src'] != pr_src)
            if not srcs:
                inj['refs_after_action'] = refs
                return
            name = srcs[0]
            inj.update(name=name, old=refs[name])
            if action == 'advance':
                w.user_commit(name)
            elif action == 'rewind':
                parents = run._parents(refs[name])
                if len(parents) != 1:
                    inj['refs_after_action'] = refs
                    return
                w._fetch()
                git(w.work, 'push', '-q', '-f', 'origin', '%s:refs/heads/%s' % (parents[0], name))
                inj['at'] = parents[0]
            else:
                inj['parents'] = run._parents(refs[name])
                w.user_amend(name)
            inj['applicable'] = True
        inj['refs_after_action'] = w.refs()
    return fn


def _job_pr_src(run, ev):
    pr = run.prs.get(ev.get('pr'))
    return pr['src'] if pr else None


def _child_plain(run, ev, orig):
    HOOK['log'] = []
    HOOK['inject'] = None
    orig(run, ev)
    return {'log': HOOK['log']}


def _child_sched(run, ev, orig, k, action, before, tags_before, label):
    w = run.w
    inj = {'k': k, 'done': False, 'action': action, 'fn': _third_party(run, action, _job_pr_src(run, ev), label)}
    HOOK['log'] = []
    HOOK['inject'] = inj
    status = None
    try:
        kind, info = orig(run, ev)
        status = (info or {}).get('status') if isinstance(info, dict) else None
    except Exception as e:          # a job that dies of the refused push (PushFailedException after the retries)
        status = 'raised:' + type(e).__name__
    HOOK['inject'] = None
    log = HOOK['log']
    if inj.get('refused'):
        remove_refusal(w)
    if not inj['done'] or not inj.get('applicable'):
        return {'reached': inj['done'], 'applicable': False}
    # pushes after the injection, up to the next clone (= the rest of this job)
    npush, rest = 0, []
    for e in log:
        if e[0] == 'push':
            npush += 1
        if npush > k:
            if e[0] == 'clone':
                break
            rest.append(e)
    inj['prune_after'] = any(e[0] == 'push' and '--prune' in push_argv(e[1]) for e in rest)
    after = w.refs()
    expected = {n: s for n, s in inj['refs_after_action'].items() if is_foreign(n)}
    fails = check_job(w, before, after, tags_before, w.tags(), log, expected,
                      '%s before push %d of %s' % (action, k, _evname(ev)), sched=inj, is_delete_job=is_delete_job(ev))
    refs, anc = run.observe()
    return {'reached': True, 'applicable': True, 'failures': fails, 'status': status, 'refs': refs, 'anc': anc,
            'sched': _pub(inj), 'pushes_after': [push_code(e[1]) for e in rest if e[0] == 'push'][:8]}


_ORIG_EXECUTE = H.Run.execute


class _NoRepo:
    """`branch_factory` only parses the name"""
    def cmd(self, *a, **k):
        raise RuntimeError('no repository')


def archive_tag_name(branch):
    """the name of the archive tag of a destination branch, from the code's own parsing of the branch name
    (the suffix for hotfix branches is the literal of jobs/delete_branch.py; the scripted block checks the name
    against the tag that the real job pushes)"""
    from bert_e.workflow.gitwaterflow.branches import branch_factory, HotfixBranch
    b = branch_factory(_NoRepo(), branch)
    return b.version + ('.archived_hotfix_branch' if isinstance(b, HotfixBranch) else '')


def push_archive_tag(w, branch, where):
    """by hand, as an administrator would: the archive tag of `branch` on its tip / on the root commit"""
    if where == 'none':
        return None
    tip = w.refs()[branch]
    sha = tip if where == 'tip' else git(w.bare, 'rev-list', '--max-parents=0', tip).split()[0]
    name = archive_tag_name(branch)
    w._fetch()
    git(w.work, 'tag', '-f', name, sha)
    git(w.work, 'push', '-q', 'origin', 'refs/tags/%s' % name)
    return name


def tag_state(branch, refs, tags):
    """the state of the archive tag of `branch` as the model's `C08 opst` names it"""
    try:
        name = archive_tag_name(branch)
    except Exception:
        return None
    if branch not in refs:
        return None
    if name not in tags:
        return 'none'
    return 'tip' if tags[name] == refs[branch] else 'other'


def _execute(run, ev):
    """`Run.execute` with the schedule enumeration in front of every Bert-E job"""
    if HOOK['on'] and ev.get('op') == 'c08_tag':      # scripted block: an archive tag pushed by hand
        if ev['branch'] not in run.w.refs():
            return 'skip', None
        push_archive_tag(run.w, ev['branch'], ev['where'])
        return 'host', None
    if not HOOK['on'] or ev.get('op') not in JOB_OPS:
        return _ORIG_EXECUTE(run, ev)
    w = run.w
    before = w.refs()
    tags_before = w.tags()
    st = {'ev': ev, 'before': before, 'tags_before': tags_before, 'child_failures': [], 'log': [],
          'prefix': list(run.items), 'sha2id': dict(run.sha2id), 'sched': []}
    if is_delete_job(ev):
        st['tag_state'] = tag_state(ev['branch'], before, tags_before)
    _LAST[id(run)] = st
    budget = HOOK.get('budget')
    snap = w.dir.rstrip('/') + '.snap'
    shutil.rmtree(snap, ignore_errors=True)
    _copy(w.dir, snap)
    try:
        dry = _in_child(lambda: _child_plain(run, ev, _ORIG_EXECUTE))
        _restore(w, snap)
        pushes = [e[1] for e in dry['log'] if e[0] == 'push']
        refusals = HOOK.get('refuse_all') or is_delete_job(ev)
        for k in range(len(pushes)):
            # refusals: the whole push, and every single ref of a push with explicit refspecs (the server takes the
            # other refs of a non-atomic push)
            for action in ACTIONS + EXTRA_ACTIONS + ((('refuse',) + tuple(
                    'refuse-ref:%d' % j for j in range(len(push_refs(pushes[k]))))) if refusals else ()):
                if budget is not None and budget[0] <= 0:
                    break
                label = '%d-%d' % (len(HOOK['sched']), k)
                out = _in_child(lambda: _child_sched(run, ev, _ORIG_EXECUTE, k, action, before, tags_before, label))
                _restore(w, snap)
                if budget is not None:
                    budget[0] -= 1
                out.update(k=k, action=action)
                st['sched'].append(out)
                HOOK['sched'].append(out)
                if out.get('applicable'):
                    for f in out['failures']:
                        st['child_failures'].append(f)
    finally:
        shutil.rmtree(snap, ignore_errors=True)
    HOOK['log'] = []
    HOOK['inject'] = None
    res = _ORIG_EXECUTE(run, ev)
    st['log'] = list(HOOK['log'])
    HOOK['jobs'].append(st)
    return res


H.Run.execute = _execute

# ----------------------------------------------------------------------------- model comparison of plans and schedules


def _single_job(st):
    """the uninterrupted job was one clone (no nested / drained job)"""
    return sum(1 for e in st['log'] if e[0] == 'clone') <= 1


def compare_with_model(model, trace, jobs):
    """(a) the ordered pushes of every uninterrupted job = the operations of the model's plan;
       (b) every interleaved run = the model's `applyOpsWithAbort`. Returns (compared_a, compared_b, disagreements)."""
    by_ev = {id(r['event']): r for r in trace}
    lines, meta = [], []
    for st in jobs:
        rec = by_ev.get(id(st['ev']))
        if st['ev'].get('scripted') and is_delete_job(st['ev']) and rec is not None and st.get('tag_state'):
            # scripted block: the checks of the job other than the archive tag pass by construction; the plan is
            # compared whatever the status (a refusal = no operation)
            hist = ';'.join(st['prefix'] + ['rmbranch ' + H.dest_code(st['ev']['branch'])])
            real_ops = [push_code(e[1]) for e in st['log'] if e[0] == 'push']
            lines.append('C08 opst %s %s' % (st['tag_state'], hist))
            meta.append(('opst', st, rec, real_ops, hist))
            continue
        if rec is None or 'items' not in rec or len(rec['items']) != 1 or not _single_job(st):
            continue
        hist = ';'.join(st['prefix'] + rec['items'])
        real_ops = [push_code(e[1]) for e in st['log'] if e[0] == 'push']
        lines.append('C08 ops ' + hist)
        meta.append(('ops', st, rec, real_ops, hist))
    if not lines:
        return 0, 0, []
    answers = model.ask(lines)
    dis = []
    na = nb = 0
    lines2, meta2 = [], []
    for (kind, st, rec, real_ops, hist), ans in zip(meta, answers):
        na += 1
        model_ops = [o for o in ans.split(';') if o]
        if kind == 'opst':
            branch, state = st['ev']['branch'], st['tag_state']
            if rec.get('status') in OTHER_CHECKS and not real_ops:
                continue      # a check that the model does not look at refused the job before its first operation
            if _norm_ops(model_ops) != _norm_ops(real_ops):
                dis.append({'input': {'history': hist, 'branch': branch, 'tag_state': state}, 'real': real_ops,
                            'model': model_ops, 'status': rec.get('status'),
                            'why': 'delete_branch with the archive tag %s: the pushes of the job differ from the '
                                   'operations of the model' % {'none': 'absent', 'tip': 'on the tip of the branch',
                                                                'other': 'on another commit'}[state]})
            pushed = [push_argv(e[1])[-1] for e in st['log'] if e[0] == 'push' and push_code(e[1]).startswith('tag:')]
            if pushed and pushed != [archive_tag_name(branch)]:
                dis.append({'input': {'history': hist, 'branch': branch, 'tag_state': state}, 'real': pushed,
                            'model': [archive_tag_name(branch)],
                            'why': 'the archive tag that the job pushes is not the one the scripted block looks at'})
            continue
        if _norm_ops(model_ops) != _norm_ops(real_ops):
            dis.append({'input': {'history': hist}, 'real': real_ops, 'model': model_ops,
                        'why': 'plan: the pushes of the job differ from the operations of the model'})
            continue
        if rec['event'].get('kind') == 'delete_branch':
            continue          # its plan with the tag is compared above; `applyOpsWith` is over branch operations
        for out in st['sched']:
            if not out.get('applicable'):
                continue
            sc = out['sched']
            if out['action'].startswith('refuse'):
                continue
            maction = {'rewind': 'point'}.get(out['action'], out['action'])
            if out['action'] in ('create', 'rewind'):
                if sc['at'] not in st['sha2id']:
                    continue
                arg = str(st['sha2id'][sc['at']])
            elif out['action'] == 'force':
                if any(p not in st['sha2id'] for p in sc['parents']):
                    continue
                arg = ','.join(str(st['sha2id'][p]) for p in sc['parents']) or '-'
            else:
                arg = '-'
            lines2.append('C08 sched %d %s %s %s %s' % (out['k'], maction, sc['name'], arg, hist))
            meta2.append((st, out, hist))
    for (st, out, hist), ans in zip(meta2, model.ask(lines2) if lines2 else []):
        nb += 1
        if ans.startswith('bad-op'):
            dis.append({'input': {'history': hist, 'k': out['k'], 'action': out['action']}, 'real': None, 'model': ans})
            continue
        why = None
        for cand in ans.split('#'):       # the job may end early (a gate re-evaluated after the third party acted)
            why1 = H.compare(out['refs'], out['anc'], H.parse_model_obs(cand), st['sha2id'])
            if not isinstance(why1, str):
                why = None
                break
            why = why or why1
        if isinstance(why, str):
            dis.append({'input': {'history': hist, 'k': out['k'], 'action': out['action'], 'sched': out['sched']},
                        'real': {H.ref_code(n): s[:8] for n, s in out['refs'].items()}, 'model': why,
                        'status': out.get('status')})
    return na, nb, dis


def _norm_ops(ops):
    out = []
    for o in ops:
        if o.startswith('push:'):
            names = sorted(x for x in o[5:].split(',') if x)
            if not names:
                continue
            o = 'push:' + ','.join(names)
        out.append(o)
    return out


# ----------------------------------------------------------------------------- driver


def run_one(cfg, evs, use_model, base, budget=None, refuse_all=False):
    install_shim()
    HOOK.update(on=True, log=[], inject=None, sched=[], jobs=[], budget=[budget] if budget is not None else None,
                refuse_all=refuse_all)
    _LAST.clear()
    model = common.Model() if use_model else None
    try:
        out = H.play(cfg, evs, model, oracles=ORACLES, base_dir=base)
    finally:
        HOOK['on'] = False
    jobs, sched = HOOK['jobs'], HOOK['sched']
    na = nb = 0
    dis = []
    if model is not None and not out['disagreement']:
        na, nb, dis = compare_with_model(model, out['trace'], jobs)
    return out, jobs, sched, na, nb, dis


def _work(args):
    seed, i, use_model, base, budget, refuse_all = args
    rng = common.rng_for(seed, 'hist', i)
    cfg, mode = H.gen_config(rng)
    evs = H.gen_history(rng, cfg)
    try:
        out, jobs, sched, na, nb, dis = run_one(cfg, evs, use_model, base, budget, refuse_all)
    except Exception:
        return {'i': i, 'cfg': cfg.as_dict(), 'events': evs, 'error': traceback.format_exc()[-3000:]}
    return summarize(i, mode, cfg, evs, out, jobs, sched, na, nb, dis)


# Statuses of a delete_branch job that was refused by a check OTHER than the archive tag, before any remote operation
# (the model describes the job "once its checks passed"). DeprecatedStabilizationBranch: with queues on the job builds
# the queue collection, whose cascade refuses a stabilization branch x.y.z as soon as a tag x.y.z exists — so the
# interrupted deletion of a stabilization branch cannot be completed while queues are on (reported to the coordinator;
# nothing is touched, the property is not concerned).
OTHER_CHECKS = {'DeprecatedStabilizationBranch'}
SCRIPT_DESTS = ['stabilization/4.3.18', 'development/4.3', 'development/5.1', 'development/10.0', 'hotfix/4.2.17']
SCRIPT_TAGS = ['4.3.17', '4.2.17.0']
SCRIPT_BRANCHES = ('development/10.0', 'stabilization/4.3.18', 'hotfix/4.2.17')
TAG_STATES = ('none', 'tip', 'other')


def scripted_cases():
    """(label, config, events): delete_branch x {development without stabilization, stabilization, hotfix branch}
    x {queues on, off} x {archive tag absent, on the tip, on another commit}.
    (A state with `q/<v>` present is not scripted: `has_version_queued_prs` answers True as soon as `q/<v>` exists —
    an empty list of queued pull requests `is not None` —, so the real job refuses there before its first operation;
    the model's deletion of `q/<v>` over-approximates the code.)"""
    from .system import Config
    cases = []

    def cfg(use_queue):
        return Config(SCRIPT_DESTS, SCRIPT_TAGS, use_queue=use_queue, skip_queue=False, no_octopus=False,
                      create_prs=False, create_branches=True, options=['bypass_jira_check', 'bypass_build_status'])
    for use_queue in (True, False):
        for b in SCRIPT_BRANCHES:
            for state in TAG_STATES:
                evs = [{'op': 'c08_tag', 'branch': b, 'where': state},
                       {'op': 'job', 'kind': 'delete_branch', 'branch': b, 'scripted': True}]
                cases.append(('%s:%s:%s' % ('queue' if use_queue else 'noqueue', b.split('/')[0], state),
                              cfg(use_queue), evs))
    return cases


def _work_scripted(args):
    n, use_model, base = args
    label, cfg, evs = scripted_cases()[n]
    try:
        out, jobs, sched, na, nb, dis = run_one(cfg, evs, use_model, base, refuse_all=False)
    except Exception:
        return {'i': 'scripted:' + label, 'cfg': cfg.as_dict(), 'events': evs, 'error': traceback.format_exc()[-3000:]}
    o = summarize('scripted:' + label, 'scripted', cfg, evs, out, jobs, sched, na, nb, dis)
    st = [j for j in jobs if j['ev'] is evs[-1]]
    status = [r['status'] for r in out['trace'] if r['event'] is evs[-1]]
    real_ops = [push_code(e[1]) for e in st[0]['log'] if e[0] == 'push'] if st else None
    o['stats']['scripted:%s' % label] = 1
    o['stats']['scripted-delete:%s:%s:%s' % (st[0].get('tag_state') if st else 'not-run', (status or ['?'])[0],
                                             ','.join(x.split(':')[0] for x in real_ops or []) or 'no-push')] = 1
    o['scripted'] = {'case': label, 'tag_state': st[0].get('tag_state') if st else None, 'status': (status or [None])[0],
                     'ops': real_ops}
    if not st or st[0].get('tag_state') != label.split(':')[-1]:
        o['model_dis'].append({'input': {'case': label}, 'real': o['scripted'], 'model': None,
                               'why': 'scripted block: the delete_branch job did not run in the tag state of the case'})
    return o


RESET_DESTS = ['development/4.3', 'development/5.1', 'development/10.0']
RESET_COMMANDS = ('reset', 'force_reset')


def reset_cases():
    """(label, config, events, the last job must end in its pruning push): `@robot reset` / `@robot force_reset` on a
    pull request that HAS integration branches x queues on / off x {nothing, a commit made by hand on an integration
    branch (plain `reset` then refuses with LossyResetWarning, `force_reset` goes on)} - a second pull request gives
    the repository another feature branch. As for every job: every third-party action before every push, so the
    colleague's push to the source branch lands between the clone of the reset job and its
    `git push --all --atomic --prune`."""
    from .system import Config
    cases = []
    for use_queue in (False, True):
        for command in RESET_COMMANDS:
            for manual in (False, True):
                cfg = Config(RESET_DESTS, [], use_queue=use_queue, skip_queue=False, no_octopus=False,
                             create_prs=False, create_branches=True, options=['bypass_jira_check'])
                evs = [{'op': 'open', 'pr': 1, 'dst': 'development/4.3', 'src': 'bugfix/TEST-0001'},
                       {'op': 'open', 'pr': 2, 'dst': 'development/5.1', 'src': 'feature/TEST-0002'},
                       {'op': 'progress', 'pr': 1}]
                if manual:
                    evs.append({'op': 'w_commit', 'pr': 1, 'which': 0})
                evs += [{'op': 'comment', 'pr': 1, 'user': H.CONTRIB, 'text': '@robot ' + command},
                        {'op': 'eval_pr', 'pr': 1, 'scripted': True}]
                cases.append(('%s:%s:%s' % ('queue' if use_queue else 'noqueue', command, 'manual' if manual else 'plain'),
                              cfg, evs, command == 'force_reset' or not manual))
    return cases


def _work_reset(args):
    n, use_model, base = args
    label, cfg, evs, pushes = reset_cases()[n]
    try:
        out, jobs, sched, na, nb, dis = run_one(cfg, evs, use_model, base, refuse_all=False)
    except Exception:
        return {'i': 'scripted-reset:' + label, 'cfg': cfg.as_dict(), 'events': evs, 'error': traceback.format_exc()[-3000:]}
    o = summarize('scripted-reset:' + label, 'scripted', cfg, evs, out, jobs, sched, na, nb, dis)
    st = [j for j in jobs if j['ev'] is evs[-1]]
    status = ([r['status'] for r in out['trace'] if r['event'] is evs[-1]] or [None])[0]
    real_ops = [push_code(e[1]) for e in st[0]['log'] if e[0] == 'push'] if st else None
    placed = sorted({s['action'] for s in st[0]['sched'] if s.get('applicable')}) if st else []
    o['stats']['scripted-reset:%s:%s:%s' % (label, status, ','.join(real_ops or []) or 'no-push')] = 1
    o['scripted_reset'] = {'case': label, 'status': status, 'ops': real_ops, 'third_party_before_the_push': placed}
    # the block must not become vacuous: the job the case is about ran, ended in its pruning push (or refused, for a
    # plain reset over manual work), and every third-party action was placed before that push
    want = ['pushall:1'] if pushes else []
    if real_ops != want or (pushes and not set(ACTIONS) <= set(placed)):
        o['model_dis'].append({'input': {'case': label}, 'real': o['scripted_reset'],
                               'model': {'ops': want, 'third_party_before_the_push': sorted(ACTIONS) if pushes else []},
                               'why': 'scripted block: the %s job did not end as the case expects (one '
                                      '`push --all --atomic --prune` after the removal of the integration branches, every '
                                      'third-party action placed before it / LossyResetWarning without a push)'
                                      % label.split(':')[1]})
    return o


def summarize(i, mode, cfg, evs, out, jobs, sched, na, nb, dis):
    stats = dict(out['stats'])
    for o in sched:
        if o.get('applicable'):
            stats['sched:%s' % o['action']] = stats.get('sched:%s' % o['action'], 0) + 1
            stats['sched-status:%s' % o.get('status')] = stats.get('sched-status:%s' % o.get('status'), 0) + 1
            for f in o['failures']:
                stats['sched-oracle:%s' % f['key']] = stats.get('sched-oracle:%s' % f['key'], 0) + 1
        else:
            stats['sched:not-applicable'] = stats.get('sched:not-applicable', 0) + 1
    for st in jobs:
        n = sum(1 for e in st['log'] if e[0] == 'push')
        stats['job-pushes:%d' % min(n, 6)] = stats.get('job-pushes:%d' % min(n, 6), 0) + 1
        for e in st['log']:
            if e[0] == 'push':
                c = push_code(e[1]).split(':')[0]
                stats['push:%s' % c] = stats.get('push:%s' % c, 0) + 1
    return {'i': i, 'mode': mode, 'cfg': cfg.as_dict(), 'events': evs, 'stats': stats,
            'disagreement': out['disagreement'], 'failures': out['failures'], 'compared': out['compared'],
            'plans_compared': na, 'sched_compared': nb, 'model_dis': dis,
            'n_sched': sum(1 for o in sched if o.get('applicable')),
            'sched_cases': sorted({(o['action'], o.get('status'), tuple(o.get('pushes_after', [])[:3]))
                                   for o in sched if o.get('applicable')}),
            'statuses': [r['status'] for r in out['trace'] if r['status']]}


RULE = ('seeded histories of C01 (8 cascade templates x queue / queue+skip / no queue x octopus x integration PRs; PR and commit '
        'evaluations, admin jobs incl. create/delete branch, rebuild/delete/force-merge queues); for EVERY job and EVERY `git push` '
        'it issues x {create a new branch, push a commit on a source branch, force-push (amend) a source branch}: the job is '
        're-run from a snapshot with the action executed on the bare remote immediately before that push; additionally '
        '"the server refuses this push" for every push of delete_branch jobs and of the corpus (every push of every job in the '
        'thorough tier); plus the scripted block: delete_branch of a development / stabilization / hotfix branch x queues on / '
        'off x archive tag {absent, on the tip of the branch, on another commit}, plan compared '
        'with the model (full job / deletion completed without a second tag / refused), with the refusal of the whole '
        'push AND of every single ref of the push (git update hook: the other refs of a non-atomic push are taken); plus the '
        'scripted block: `reset` / `force_reset` on a pull request with integration branches x queues on / off x manual commit '
        'on an integration branch or not (8 cases; the job must end in `push --all --atomic --prune`, every third-party action '
        'placed before it; LossyResetWarning without a push for a plain reset over manual work); oracles after every '
        'job: destinations fast-forward only / deleted only by delete_branch with an archive tag on the tip; foreign refs as the '
        'third party left them; no forcing token in any `git push` argv; old destination tips reachable from branches and tags; '
        'distinct = (action, job status, next pushes) classes of interleavings + histories in which Bert-E pushed; '
        'fault block: 7 scripted histories (first job fills the mirror cache; a colleague creates a branch / pushes to an '
        'existing foreign branch / both; then merge without queue, direct merge with skip_queue, queue merge, reset, decline, '
        'rebuild_queues, delete_queues = a job ending in `push --all --atomic --prune`) + seeded ones; for the selected jobs '
        'ONE git command issued before the last push fails once with CommandError (quick: every command of the clone phase and '
        'the first occurrence of every other command up to name classes; thorough: every command), the event is re-delivered '
        'after a fault in the cache / clone commands; oracle: every branch outside w/ q/ tmp/ that existed before the job is '
        'still there and not rewound, destinations fast-forward only')


def collect(res, outs):
    errors = [o for o in outs if 'error' in o]
    if errors:
        raise RuntimeError('C08 harness failed on %d histories; first: %s' % (len(errors), errors[0]['error']))
    nsched = 0
    for o in outs:
        res.evaluations += 1 + o['n_sched']
        nsched += o['n_sched']
        res.model_compared += o['compared'] + o['plans_compared'] + o['sched_compared']
        res.extra['plans_compared_with_model'] = res.extra.get('plans_compared_with_model', 0) + o['plans_compared']
        res.extra['interleavings_compared_with_model'] = res.extra.get('interleavings_compared_with_model', 0) + o['sched_compared']
        for k, v in o['stats'].items():
            res.count(k, v)
        res.count('mode:%s' % o.get('mode'))
        for c in o['sched_cases']:
            res.distinct.add(json.dumps(c))
        if any(k.startswith('push:') for k in o['stats']):
            res.distinct.add(json.dumps([o['cfg'], o['events']], sort_keys=True, default=str))
        inp = {'cfg': o['cfg'], 'events': o['events']}
        if o['disagreement']:
            res.disagreements.append({'input': inp, 'real': o['disagreement'].get('real_refs'),
                                      'model': o['disagreement'].get('why'), 'at': o['disagreement'].get('at')})
        for d in o['model_dis']:
            d = dict(d)
            d['input'] = dict(d.get('input') or {}, cfg=o['cfg'], events=o['events'])
            res.disagreements.append(d)
        for f in o['failures']:
            f = dict(f)
            f['input'] = {'cfg': o['cfg'], 'events': o['events'][:f.get('at', len(o['events'])) + 1]}
            res.oracle_failures.append(f)
        if o.get('scripted'):
            res.distinct.add(json.dumps(['scripted', o['scripted']['case']]))
            res.extra.setdefault('scripted_delete_branch', []).append(o['scripted'])
        if o.get('scripted_reset'):
            res.distinct.add(json.dumps(['scripted-reset', o['scripted_reset']['case']]))
            res.extra.setdefault('scripted_reset', []).append(o['scripted_reset'])
        if len(res.samples) < 4 and o['n_sched']:
            res.samples.append({'cfg': o['cfg'], 'events': o['events'][:5], 'statuses': o['statuses'][:6],
                                'interleavings': o['n_sched'], 'classes': o['sched_cases'][:4]})
    res.extra['histories'] = len(outs)
    res.extra['interleavings'] = nsched
    return res


def replay_corpus(use_model, base, refuse_all=True):
    from .system import Config
    outs = []
    d = os.path.join(common.CORPUS_DIR, PID)
    if not os.path.isdir(d):
        return outs
    for fn in sorted(os.listdir(d)):
        if not fn.endswith('.json'):
            continue
        with open(os.path.join(d, fn)) as fh:
            h = json.load(fh)
        cfgd = dict(h['cfg'])
        cfg = Config(cfgd.pop('dests'), **cfgd)
        out, jobs, sched, na, nb, dis = run_one(cfg, h['events'], use_model, base, refuse_all=refuse_all)
        outs.append(summarize('corpus:' + fn, 'corpus', cfg, h['events'], out, jobs, sched, na, nb, dis))
    return outs


def correspondence(ctx):
    res = Result()
    res.rule = RULE
    n = (24 if ctx.tier == 'quick' else 400) * ctx.scale
    base = common.scratch()
    use_model = ctx.model is not None
    outs = replay_corpus(use_model, base)
    from . import c08_faults
    with Pool(common.NCPU) as pool:
        faults = c08_faults.submit(pool, ctx, base)
        scripted = pool.map_async(_work_scripted, [(k, use_model, base) for k in range(len(scripted_cases()))],
                                  chunksize=1)
        resets = pool.map_async(_work_reset, [(k, use_model, base) for k in range(len(reset_cases()))], chunksize=1)
        rnd = pool.map(_work, [(ctx.seed, i, use_model, base, None, ctx.tier != 'quick') for i in range(n)],
                       chunksize=1)
        outs += scripted.get() + resets.get() + rnd
        fault_outs = faults.get()
    res = collect(res, outs)
    c08_faults.collect(res, fault_outs)
    # the git rules behind "every update is a fast-forward" (a non-forced push accepts creations and fast-forwards
    # only, `--prune` deletes what has no local counterpart), against Bert-E's git layer on real git
    from . import gittie
    gittie.run(ctx, res, (16 if ctx.tier == 'quick' else 400) * ctx.scale, oracles=('ff',))
    return res


def replay(ctx, payload):
    from .system import Config
    from . import gittie
    g = gittie.replay_input(payload)
    if g is not None:
        return gittie.replay(ctx, Result(), g, oracles=('ff',))
    inp = payload['failure']['input'] if 'failure' in payload else payload['input']
    from . import c08_faults
    if c08_faults.is_fault_input(inp):
        res = c08_faults.replay(ctx, inp)
        res.rule = RULE
        return res
    cfgd = dict(inp['cfg'])
    cfg = Config(cfgd.pop('dests'), **cfgd)
    out, jobs, sched, na, nb, dis = run_one(cfg, inp['events'], ctx.model is not None, common.scratch(), refuse_all=True)
    res = Result()
    res.rule = RULE
    return collect(res, [summarize('replay', 'replay', cfg, inp['events'], out, jobs, sched, na, nb, dis)])
