"""Tables for C06 (build gate) and the message classes (used by several properties)."""
import ast
import importlib
import inspect

from ..extract_tables import (ExtractError, func_ast, header, footer, lstr, lbool, llist, lopt)

# --------------------------------------------------------------------------- Build (C06)

def table_build():
    gwf = importlib.import_module('bert_e.workflow.gitwaterflow')
    fn = func_ast(gwf, 'check_build_status')
    order = None
    for node in ast.walk(fn):
        # ordered_state = {status: idx for idx, status in enumerate((...))}
        if isinstance(node, ast.Call) and getattr(node.func, 'id', None) == 'enumerate':
            arg = node.args[0]
            if isinstance(arg, (ast.Tuple, ast.List)):
                order = [ast.literal_eval(e) for e in arg.elts]
    if order is None:
        raise ExtractError('check_build_status: ranking tuple not found')
    # which reducer picks the reported branch: max / min and its key
    reducer = None
    for node in ast.walk(fn):
        if isinstance(node, ast.Assign) and getattr(node.targets[0], 'id', '') == 'worst' \
                and isinstance(node.value, ast.Call):
            reducer = getattr(node.value.func, 'id', None)
    if reducer not in ('max', 'min'):
        raise ExtractError('check_build_status: `worst = max(...)` not found')
    # the if/elif chain on worst_status -> raised class
    raises = []

    def cond_statuses(test):
        if isinstance(test, ast.Compare) and getattr(test.left, 'id', '') == 'worst_status' \
                and len(test.ops) == 1:
            if isinstance(test.ops[0], ast.In):
                return [ast.literal_eval(e) for e in test.comparators[0].elts]
            if isinstance(test.ops[0], ast.Eq):
                return [ast.literal_eval(test.comparators[0])]
        raise ExtractError('check_build_status: unexpected test %s' % ast.dump(test))

    def raised_class(body):
        for st in body:
            if isinstance(st, ast.Raise):
                call = st.exc
                f = call.func if isinstance(call, ast.Call) else call
                return f.attr if isinstance(f, ast.Attribute) else f.id
        return None

    chain = None
    for st in fn.body:
        if isinstance(st, ast.If) and isinstance(st.test, ast.Compare) \
                and getattr(st.test.left, 'id', '') == 'worst_status':
            chain = st
    if chain is None:
        raise ExtractError('check_build_status: if-chain on worst_status not found')
    node = chain
    while True:
        cls = raised_class(node.body)
        for s in cond_statuses(node.test):
            raises.append((s, cls))
        if len(node.orelse) == 1 and isinstance(node.orelse[0], ast.If):
            node = node.orelse[0]
        else:
            if node.orelse:
                raise ExtractError('check_build_status: unexpected else branch')
            break
    # the two early returns: bypass and empty key, in this order
    early = []
    for st in fn.body:
        if isinstance(st, ast.If) and len(st.body) == 1 and isinstance(st.body[0], ast.Return):
            early.append(ast.unparse(st.test))
    # bypass helper: which settings key and which author_bypass key
    utils = importlib.import_module('bert_e.workflow.gitwaterflow.utils')
    bfn = func_ast(utils, 'bypass_build_status')
    bsrc = ast.unparse(bfn.body[-1])
    src = header('Build', ['bert_e/workflow/gitwaterflow/__init__.py:check_build_status',
                           'bert_e/workflow/gitwaterflow/utils.py:bypass_build_status'])
    src += '/-- the ranking tuple of `ordered_state` -/\n'
    src += 'def buildOrder : List String := [%s]\n\n' % ', '.join(lstr(s) for s in order)
    src += '/-- `worst = %s(wbranches, key=...)` -/\n' % reducer
    src += 'def reducer : String := %s\n\n' % lstr(reducer)
    src += '/-- the `if worst_status ...: raise` chain: (status, exception class) -/\n'
    src += 'def raises : List (String × String) := [%s]\n\n' % ', '.join(
        '(%s, %s)' % (lstr(s), lstr(c or '')) for s, c in raises)
    src += '/-- tests of the early `return`s, in source order -/\n'
    src += 'def earlyReturns : List String := [%s]\n\n' % ', '.join(lstr(e) for e in early)
    src += '/-- body of `bypass_build_status` -/\n'
    src += 'def bypassExpr : String := %s\n' % lstr(bsrc)
    src += footer('Build')
    return 'Build', src, {'buildOrder': order, 'reducer': reducer, 'raises': raises,
                          'earlyReturns': early, 'bypassExpr': bsrc}


# --------------------------------------------------------------------------- Messages

def table_messages():
    exc = importlib.import_module('bert_e.exceptions')
    rows = []
    for name, cls in sorted(vars(exc).items(), key=lambda kv: (str(getattr(kv[1], 'code', '')), kv[0])):
        if not (inspect.isclass(cls) and issubclass(cls, exc.BertE_Exception)):
            continue
        if issubclass(cls, exc.TemplateException):
            kind = 'template'
        elif issubclass(cls, exc.SilentException):
            kind = 'silent'
        elif issubclass(cls, exc.InternalException):
            kind = 'internal'
        else:
            kind = 'base'
        norepeat = getattr(cls, 'dont_repeat_if_in_history', None) \
            if kind == 'template' else None
        # three regimes of _send_comment: `if dont_repeat_if_in_history:` is a truthiness test
        rows.append((name, int(cls.code), kind, norepeat, cls.status))
    rows.sort(key=lambda r: (r[1], r[0]))
    src = header('Messages', ['bert_e/exceptions.py'])
    src += ('structure Msg where\n  name : String\n  code : Int\n  kind : String\n'
            '  /-- `dont_repeat_if_in_history`; `none` is Python `None` (also for non-template classes) -/\n'
            '  norepeat : Option Int\n  status : Option String\n  deriving Repr, DecidableEq\n\n')
    src += 'def messages : List Msg := ' + llist(
        '⟨%s, %d, %s, %s, %s⟩' % (lstr(n), c, lstr(k),
                                  lopt(nr, lambda v: '(%d)' % v), lopt(st, lstr))
        for n, c, k, nr, st in rows) + '\n'
    src += footer('Messages')
    return 'Messages', src, {'n': len(rows)}



TABLES = {
    'Build': table_build,
    'Messages': table_messages,
}
