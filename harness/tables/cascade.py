"""Table for C09 (branch cascade): the constants of the source that the cascade computation rests on.

* class defaults read by introspection: `micro`, `hfrev` (GWFBranch), `latest_minor`,
  `has_stabilization` (DevelopmentBranch), `can_be_destination` of the three destination classes;
* from the AST of `BranchCascade.update_versions`: the tag pattern (text) and the default `hfrev`;
* from the AST of `BranchCascade._set_target_versions`: the offsets `2 if has_stabilization else 1`
  and the `+ 1` of `development/x` (`latest_minor + 1`, `micro + 1`).
"""
import ast
import importlib

from ..extract_tables import ExtractError, func_ast, header, footer, lstr, lbool


def _int(node, what):
    try:
        v = ast.literal_eval(node)
    except Exception:
        raise ExtractError('%s: not a literal: %s' % (what, ast.dump(node)))
    if not isinstance(v, int) or isinstance(v, bool):
        raise ExtractError('%s: not an int literal: %r' % (what, v))
    return v


def table_cascade():
    br = importlib.import_module('bert_e.workflow.gitwaterflow.branches')
    dev, stb, hf = br.DevelopmentBranch, br.StabilizationBranch, br.HotfixBranch
    for cls, attr in ((dev, 'micro'), (hf, 'hfrev'), (dev, 'latest_minor')):
        if not isinstance(getattr(cls, attr, None), int):
            raise ExtractError('%s.%s is not an int class attribute' % (cls.__name__, attr))
    if not isinstance(getattr(dev, 'has_stabilization', None), bool):
        raise ExtractError('DevelopmentBranch.has_stabilization is not a bool class attribute')
    # the development pattern has no micro group, the hotfix pattern no hfrev group: the class default is what
    # a fresh branch object carries
    import re
    if 'micro' in re.compile(dev.pattern).groupindex or 'hfrev' in re.compile(hf.pattern).groupindex:
        raise ExtractError('development/hotfix patterns now capture micro/hfrev')

    # update_versions: pattern text and default hfrev
    fn = func_ast(br, 'BranchCascade.update_versions')
    pattern = None
    hfrev_default = None
    for node in fn.body:
        if isinstance(node, ast.Assign) and len(node.targets) == 1 and isinstance(node.targets[0], ast.Name):
            if node.targets[0].id == 'pattern':
                pattern = ast.literal_eval(node.value)
            elif node.targets[0].id == 'hfrev':
                hfrev_default = _int(node.value, 'update_versions: hfrev default')
    if not isinstance(pattern, str) or hfrev_default is None:
        raise ExtractError('update_versions: `pattern = ...` / `hfrev = <int>` not found')

    # _set_target_versions: offset = A if dev_branch.has_stabilization else B ; f"{major}.{latest_minor + C}.{micro + D}"
    fn = func_ast(br, 'BranchCascade._set_target_versions')
    off = None
    major_offs = None
    for node in ast.walk(fn):
        if isinstance(node, ast.Assign) and getattr(node.targets[0], 'id', '') == 'offset':
            v = node.value
            if not (isinstance(v, ast.IfExp) and isinstance(v.test, ast.Attribute)
                    and v.test.attr == 'has_stabilization'):
                raise ExtractError('_set_target_versions: unexpected offset expression %s' % ast.unparse(v))
            off = (_int(v.body, 'offset (stabilization)'), _int(v.orelse, 'offset (no stabilization)'))
        if isinstance(node, ast.JoinedStr):
            vals = [x.value for x in node.values if isinstance(x, ast.FormattedValue)]
            offs = []
            for x in vals:
                if isinstance(x, ast.BinOp) and isinstance(x.op, ast.Add) and isinstance(x.left, ast.Attribute):
                    offs.append((x.left.attr, _int(x.right, 'f-string offset')))
            if offs:
                major_offs = dict(offs)
    if off is None:
        raise ExtractError('_set_target_versions: `offset = ... if dev_branch.has_stabilization else ...` not found')
    if not major_offs or set(major_offs) != {'latest_minor', 'micro'}:
        raise ExtractError('_set_target_versions: f-string of development/x not understood: %r' % (major_offs,))

    vals = {
        'microInit': dev.micro, 'hfrevInit': hf.hfrev, 'latestMinorInit': dev.latest_minor,
        'hasStabInit': dev.has_stabilization, 'tagHfrevDefault': hfrev_default,
        'offStab': off[0], 'offNoStab': off[1],
        'offMajorMinor': major_offs['latest_minor'], 'offMajorMicro': major_offs['micro'],
        'devCanBeDst': bool(dev.can_be_destination), 'stabCanBeDst': bool(stb.can_be_destination),
        'hotfixCanBeDst': bool(hf.can_be_destination),
    }
    src = header('Cascade', ['bert_e/workflow/gitwaterflow/branches.py:GWFBranch/DevelopmentBranch/'
                             'StabilizationBranch/HotfixBranch (class attributes)',
                             'BranchCascade.update_versions', 'BranchCascade._set_target_versions'])
    li = lambda v: '(%d)' % v
    src += '/-- class default `micro` of a development branch object (its pattern has no micro group) -/\n'
    src += 'def microInit : Int := %s\n' % li(vals['microInit'])
    src += '/-- class default `hfrev` of a hotfix branch object -/\n'
    src += 'def hfrevInit : Int := %s\n' % li(vals['hfrevInit'])
    src += '/-- `DevelopmentBranch.latest_minor` -/\n'
    src += 'def latestMinorInit : Int := %s\n' % li(vals['latestMinorInit'])
    src += '/-- `DevelopmentBranch.has_stabilization` -/\n'
    src += 'def hasStabInit : Bool := %s\n' % lbool(vals['hasStabInit'])
    src += '/-- `hfrev = 0  # default hfrev` in `update_versions` -/\n'
    src += 'def tagHfrevDefault : Int := %s\n' % li(vals['tagHfrevDefault'])
    src += '/-- `offset = offStab if dev_branch.has_stabilization else offNoStab` -/\n'
    src += 'def offStab : Int := %s\n' % li(vals['offStab'])
    src += 'def offNoStab : Int := %s\n' % li(vals['offNoStab'])
    src += '/-- development/x: `latest_minor + offMajorMinor`, `micro + offMajorMicro` -/\n'
    src += 'def offMajorMinor : Int := %s\n' % li(vals['offMajorMinor'])
    src += 'def offMajorMicro : Int := %s\n' % li(vals['offMajorMicro'])
    src += '/-- `can_be_destination` of DevelopmentBranch, StabilizationBranch, HotfixBranch -/\n'
    src += 'def devCanBeDst : Bool := %s\n' % lbool(vals['devCanBeDst'])
    src += 'def stabCanBeDst : Bool := %s\n' % lbool(vals['stabCanBeDst'])
    src += 'def hotfixCanBeDst : Bool := %s\n' % lbool(vals['hotfixCanBeDst'])
    src += '/-- the pattern of `update_versions` (the model has a hand-written parser of exactly this text) -/\n'
    src += 'def tagPattern : String := %s\n' % lstr(pattern)
    src += footer('Cascade')
    summary = dict(vals)
    summary['tagPattern'] = pattern
    return 'Cascade', src, summary


TABLES = {
    'Cascade': table_cascade,
}
