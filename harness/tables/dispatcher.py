"""Table for C13 (job dispatcher): the *shape* of `BertE.put_job`, `BertE.process_task`, the worker
loop of the server and the jobs' `__eq__`, read from the AST of the current source.

What is extracted (module `BertE.Gen.Dispatcher`):
  dedupSources   what the membership test of `put_job` looks at: "pending" (`self.task_queue.queue`),
                 "current" (`self.status.get('current job')`), "done" (`self.tasks_done`)
  tryOps / handler / handlerOps / finallyOps / afterOps
                 the statements of `process_task` after the `get`, as words of a small vocabulary
                 (process, complete, task_done, log, noop, set_status, append_done, pop_current), and the
                 class named in `except <X> as err`
  doneMax        `deque(maxlen=...)` of `tasks_done`
  excMro         for the exception families a job can end with: names of the classes in the MRO
  eqTable        for each Job subclass that defines `__eq__`: class, the class of its `isinstance`
                 test, the attribute paths it compares
A statement outside the vocabulary raises ExtractError: the model would no longer be the code.
"""
import ast
import importlib
import inspect

from ..extract_tables import (ExtractError, func_ast, header, footer, lstr, llist)


def _u(node):
    return ast.unparse(node)


# --------------------------------------------------------------------------- put_job

def _dedup_term(test, arg):
    """One conjunct of the `if` of put_job -> source name."""
    if isinstance(test, ast.Compare) and len(test.ops) == 1:
        left, op, right = _u(test.left), test.ops[0], _u(test.comparators[0])
        if isinstance(op, ast.NotIn) and left == arg:
            if right == 'self.task_queue.queue':
                return 'pending'
            if right == 'self.tasks_done':
                return 'done'
        cur = ("self.status.get('current job')", "self.status.get('current job', None)")
        if isinstance(op, ast.NotEq) and ((left == arg and right in cur) or (right == arg and left in cur)):
            return 'current'
    raise ExtractError('put_job: unexpected test `%s`' % _u(test))


def _put_job(mod):
    fn = func_ast(mod, 'BertE.put_job')
    arg = fn.args.args[1].arg
    body = [st for st in fn.body if not (isinstance(st, ast.Expr) and isinstance(st.value, ast.Constant))]
    if len(body) != 1 or not isinstance(body[0], ast.If):
        raise ExtractError('put_job: body is not a single `if`')
    st = body[0]
    terms = st.test.values if isinstance(st.test, ast.BoolOp) and isinstance(st.test.op, ast.And) \
        else [st.test]
    sources = [_dedup_term(t, arg) for t in terms]

    def branch(stmts, want_put):
        seen_put = False
        for s in stmts:
            src = _u(s)
            if src == 'self.task_queue.put(%s)' % arg:
                seen_put = True
            elif src.startswith('LOG.'):
                pass
            else:
                raise ExtractError('put_job: unexpected statement `%s`' % src)
        if seen_put != want_put:
            raise ExtractError('put_job: the put is not where it is expected')
    branch(st.body, True)
    branch(st.orelse, False)
    return sources


# --------------------------------------------------------------------------- process_task

def _op(stmt, jobvar):
    src = _u(stmt)
    table = {
        'self.process(%s)' % jobvar: 'process',
        '%s.complete()' % jobvar: 'complete',
        'self.task_queue.task_done()': 'task_done',
        'self.tasks_done.appendleft(%s)' % jobvar: 'append_done',
        "self.status.pop('current job')": 'pop_current',
        '%s.status = type(err).__name__' % jobvar: 'set_status',
    }
    if src in table:
        return table[src]
    if _harmless(stmt, jobvar):
        return 'log' if src.startswith('LOG.') else 'noop'
    raise ExtractError('process_task: statement outside the vocabulary: `%s`' % src.split('\n')[0])


def _harmless(stmt, jobvar):
    """LOG calls, assignments to job.details, and `if isinstance(err, ...)` over such statements."""
    if isinstance(stmt, ast.Expr) and isinstance(stmt.value, ast.Call) and _u(stmt.value.func).startswith('LOG.'):
        return True
    if isinstance(stmt, ast.Assign) and len(stmt.targets) == 1 \
            and _u(stmt.targets[0]) == '%s.details' % jobvar \
            and _u(stmt.value) in ('None', 'str(err)'):
        return True
    if isinstance(stmt, ast.If):
        t = stmt.test
        if isinstance(t, ast.UnaryOp) and isinstance(t.op, ast.Not):
            t = t.operand
        if not (isinstance(t, ast.Call) and _u(t.func) == 'isinstance' and _u(t.args[0]) == 'err'):
            return False
        return all(_harmless(s, jobvar) for s in stmt.body + stmt.orelse)
    return False


def _process_task(mod):
    fn = func_ast(mod, 'BertE.process_task')
    body = [st for st in fn.body if not (isinstance(st, ast.Expr) and isinstance(st.value, ast.Constant))]
    if len(body) < 3:
        raise ExtractError('process_task: unexpected body')
    first = body[0]
    if not (isinstance(first, ast.Assign) and _u(first.value) == 'self.task_queue.get()'
            and sorted(_u(t) for t in first.targets) == sorted(["self.status['current job']", _u(first.targets[0])])
            and isinstance(first.targets[0], ast.Name)):
        raise ExtractError('process_task: first statement is not `job = self.status[\'current job\'] = '
                           'self.task_queue.get()`: `%s`' % _u(first))
    jobvar = first.targets[0].id
    tr = body[1]
    if not isinstance(tr, ast.Try) or tr.orelse:
        raise ExtractError('process_task: second statement is not try/except/finally')
    if len(tr.handlers) != 1 or tr.handlers[0].type is None or tr.handlers[0].name != 'err':
        raise ExtractError('process_task: expected exactly one `except <Class> as err`')
    htype = tr.handlers[0].type
    handler = [_u(e) for e in htype.elts] if isinstance(htype, ast.Tuple) else [_u(htype)]
    try_ops = [_op(s, jobvar) for s in tr.body]
    handler_ops = [_op(s, jobvar) for s in tr.handlers[0].body]
    finally_ops = [_op(s, jobvar) for s in tr.finalbody]
    rest = body[2:]
    if not (isinstance(rest[-1], ast.Return) and _u(rest[-1].value) == jobvar):
        raise ExtractError('process_task: does not end with `return job`')
    after_ops = [_op(s, jobvar) for s in rest[:-1]]
    for name, ops in (('handler', handler_ops),):
        if 'process' in ops:
            raise ExtractError('process_task: process() called in the %s' % name)
    return try_ops, handler, handler_ops, finally_ops, after_ops


def _init(mod):
    fn = func_ast(mod, 'BertE.__init__')
    queue = done = None
    for st in fn.body:
        if isinstance(st, ast.Assign) and len(st.targets) == 1:
            t = _u(st.targets[0])
            if t == 'self.task_queue':
                queue = _u(st.value)
            if t == 'self.tasks_done':
                done = st.value
    if queue != 'Queue()':
        raise ExtractError('BertE.__init__: task_queue is not an unbounded `Queue()`: %s' % queue)
    if not (isinstance(done, ast.Call) and _u(done.func) == 'deque' and not done.args
            and len(done.keywords) == 1 and done.keywords[0].arg == 'maxlen'):
        raise ExtractError('BertE.__init__: tasks_done is not `deque(maxlen=N)`')
    return int(ast.literal_eval(done.keywords[0].value))


def _worker_loop():
    srv = importlib.import_module('bert_e.server')
    fn = func_ast(srv, 'setup_bert_e')
    for node in ast.walk(fn):
        if isinstance(node, ast.FunctionDef) and node.name == 'bert_e_launcher':
            body = [st for st in node.body
                    if not (isinstance(st, ast.Expr) and isinstance(st.value, ast.Constant))]
            if len(body) == 1 and isinstance(body[0], ast.While) and _u(body[0].test) == 'True' \
                    and [_u(s) for s in body[0].body] == ['bert_e.process_task()']:
                return 'while True: bert_e.process_task()'
            raise ExtractError('server: worker loop is not `while True: bert_e.process_task()`')
    raise ExtractError('server: bert_e_launcher not found')


# --------------------------------------------------------------------------- __eq__

def _eq_table():
    jobmod = importlib.import_module('bert_e.job')
    rows = []
    classes = [(n, c) for n, c in vars(jobmod).items()
               if inspect.isclass(c) and issubclass(c, jobmod.Job) and c.__module__ == jobmod.__name__]
    # job classes of the other modules (API jobs) must not define an equality of their own
    import pkgutil
    import bert_e.jobs as jobs_pkg
    for m in pkgutil.iter_modules(jobs_pkg.__path__):
        sub = importlib.import_module('bert_e.jobs.' + m.name)
        classes += [(n, c) for n, c in vars(sub).items()
                    if inspect.isclass(c) and issubclass(c, jobmod.Job) and c.__module__ == sub.__name__]
    for name, cls in sorted(classes, key=lambda nc: nc[0]):
        if '__eq__' not in vars(cls):
            if cls.__eq__ is not object.__eq__:
                owner = next(k.__name__ for k in cls.__mro__ if '__eq__' in vars(k))
                rows.append((name, 'inherits:' + owner, []))
            continue
        fn = func_ast(importlib.import_module(cls.__module__), name + '.__eq__')
        if len(fn.body) != 1 or not isinstance(fn.body[0], ast.Return) \
                or not isinstance(fn.body[0].value, ast.BoolOp) or not isinstance(fn.body[0].value.op, ast.And):
            raise ExtractError('%s.__eq__: not a single `return a and b and ...`' % name)
        terms = fn.body[0].value.values
        inst = None
        paths = []
        for t in terms:
            if isinstance(t, ast.Call) and _u(t.func) == 'isinstance' and _u(t.args[0]) == 'other':
                inst = _u(t.args[1])
            elif isinstance(t, ast.Compare) and len(t.ops) == 1 and isinstance(t.ops[0], ast.Eq):
                l, r = _u(t.left), _u(t.comparators[0])
                if l.startswith('self.') and r.startswith('other.') and l[5:] == r[6:]:
                    paths.append(l[5:])
                else:
                    raise ExtractError('%s.__eq__: unexpected comparison `%s`' % (name, _u(t)))
            else:
                raise ExtractError('%s.__eq__: unexpected term `%s`' % (name, _u(t)))
        if inst is None or terms[0] is None or _u(terms[0]) != 'isinstance(other, %s)' % inst:
            raise ExtractError('%s.__eq__: the isinstance test does not come first' % name)
        rows.append((name, inst, paths))
    return rows


def _mro_table():
    exc = importlib.import_module('bert_e.exceptions')
    fam = [('silent', exc.SilentException), ('template', exc.TemplateException),
           ('internal', exc.InternalException), ('failure', exc.JobFailure),
           ('other', Exception), ('exit', BaseException)]
    return [(k, [c.__name__ for c in cls.__mro__ if c is not object]) for k, cls in fam]


def table_dispatcher():
    mod = importlib.import_module('bert_e.bert_e')
    sources = _put_job(mod)
    try_ops, handler, handler_ops, finally_ops, after_ops = _process_task(mod)
    done_max = _init(mod)
    loop = _worker_loop()
    eqs = _eq_table()
    mro = _mro_table()
    src = header('Dispatcher', ['bert_e/bert_e.py:BertE.__init__/put_job/process_task',
                                'bert_e/server/__init__.py:setup_bert_e', 'bert_e/job.py:*.__eq__',
                                'bert_e/exceptions.py'])

    def strs(xs):
        return '[%s]' % ', '.join(lstr(x) for x in xs)
    src += '/-- what the membership test of `put_job` looks at -/\n'
    src += 'def dedupSources : List String := %s\n\n' % strs(sources)
    src += '/-- statements of the `try` body of `process_task` -/\n'
    src += 'def tryOps : List String := %s\n\n' % strs(try_ops)
    src += '/-- the class(es) of `except <X> as err` -/\n'
    src += 'def handler : List String := %s\n\n' % strs(handler)
    src += 'def handlerOps : List String := %s\n\n' % strs(handler_ops)
    src += 'def finallyOps : List String := %s\n\n' % strs(finally_ops)
    src += '/-- statements between the try statement and `return job` -/\n'
    src += 'def afterOps : List String := %s\n\n' % strs(after_ops)
    src += '/-- `tasks_done = deque(maxlen=...)` -/\n'
    src += 'def doneMax : Nat := %d\n\n' % done_max
    src += '/-- the worker thread of the server -/\n'
    src += 'def workerLoop : String := %s\n\n' % lstr(loop)
    src += '/-- exception family -> names of the classes of its MRO -/\n'
    src += 'def excMro : List (String × List String) := [%s]\n\n' % ', '.join(
        '(%s, %s)' % (lstr(k), strs(v)) for k, v in mro)
    src += '/-- job classes with an `__eq__` of their own: (class, class of the isinstance test, compared paths) -/\n'
    src += 'def eqTable : List (String × String × List String) := [%s]\n' % ', '.join(
        '(%s, %s, %s)' % (lstr(c), lstr(i), strs(p)) for c, i, p in eqs)
    src += footer('Dispatcher')
    return 'Dispatcher', src, {'dedupSources': sources, 'tryOps': try_ops, 'handler': handler,
                               'handlerOps': handler_ops, 'finallyOps': finally_ops, 'afterOps': after_ops,
                               'doneMax': done_max, 'eqTable': eqs}


TABLES = {'Dispatcher': table_dispatcher}
