"""Table for C16 (credentials never leak): `lean/BertE/Gen/Mask.lean`.

* the flows of `bert_e/lib/simplecmd.py`: every place of `cmd` / `_do_cmd` where a string reaches a
  sink -- a `LOG.<level>` call, the message of a raised exception, the exception chained to it
  (`raise ... from err`, or the implicit context inside an `except` block: both are printed by
  every traceback), a `print`, the returned value -- with, for every `%s`/`%d` argument, what it
  derives from (command line, command output, `str(err)`, cwd, return code, time-out) and whether it
  went through `mask_pwd` on its way. A small abstract interpretation of the two function bodies;
  anything it does not understand raises ExtractError (the check then reports the shape change);
* the replacement literal of `mask_pwd` (`'***'`);
* the data of the Python library that the algebra depends on: the always-safe characters of
  `urllib.parse.quote_plus`, the characters `shlex.quote` leaves unquoted, the white space of `str.strip()`,
  the text of `subprocess.TimeoutExpired.__str__`.
"""
import ast
import importlib
import inspect
import logging
import shlex
import subprocess
import urllib.parse

from ..extract_tables import ExtractError, func_ast, header, footer, lstr, lbool, llist

TAINTED = ('command', 'output', 'errstr')
HEX = '0123456789ABCDEF'


def quote_alphabet():
    safe = ''.join(chr(b) for b in sorted(urllib.parse._ALWAYS_SAFE))
    return safe, set(safe) | set('+%') | set(HEX)


# --------------------------------------------------------------------------- pieces

class Arg:
    def __init__(self, src, masked=False):
        self.src, self.masked = src, masked

    def __repr__(self):
        return '%s%s' % (self.src, '*' if self.masked else '')


def split_format(fmt, args, where):
    """pieces of `fmt % args` (only %s, %d, %r and %% are understood)"""
    out, i, k = [], 0, 0
    buf = ''
    while i < len(fmt):
        ch = fmt[i]
        if ch != '%':
            buf += ch
            i += 1
            continue
        if i + 1 >= len(fmt):
            raise ExtractError('%s: dangling %% in %r' % (where, fmt))
        conv = fmt[i + 1]
        if conv == '%':
            buf += '%'
        elif conv in 'sd':
            if k >= len(args):
                raise ExtractError('%s: not enough arguments for %r' % (where, fmt))
            if buf:
                out.append(buf)
                buf = ''
            out.extend(args[k])
            k += 1
        else:
            raise ExtractError('%s: conversion %%%s of %r not understood' % (where, conv, fmt))
        i += 2
    if buf:
        out.append(buf)
    if k != len(args):
        raise ExtractError('%s: %d arguments for %r' % (where, len(args), fmt))
    return out


class Walker:
    """Abstract interpretation of one function body: which strings reach which sinks."""

    def __init__(self, fn_name, fn, timeout_text):
        self.fn_name = fn_name
        self.fn = fn
        self.env = {'command': [Arg('command')], 'timeout': [Arg('timeout')]}
        self.flows = []
        self.timeout_text = timeout_text
        self.handler = None          # (exception class name, bound name) of the enclosing except block

    # -- expressions ---------------------------------------------------------
    def expr(self, e, where):
        """pieces (list of str | Arg) of a string-valued expression"""
        if isinstance(e, ast.Constant) and isinstance(e.value, (str, int)):
            return [str(e.value)] if str(e.value) else []
        if isinstance(e, ast.Name):
            if e.id in self.env:
                return [Arg(a.src, a.masked) if isinstance(a, Arg) else a for a in self.env[e.id]]
            raise ExtractError('%s: name %s is not understood' % (where, e.id))
        if isinstance(e, ast.Call):
            f = e.func
            if isinstance(f, ast.Name) and f.id == 'mask_pwd' and len(e.args) == 1:
                return [Arg(a.src, True) if isinstance(a, Arg) else a for a in self.expr(e.args[0], where)]
            if isinstance(f, ast.Name) and f.id in ('str', 'repr') and len(e.args) == 1:
                a = e.args[0]
                if isinstance(a, ast.Name) and self.handler and a.id == self.handler[1]:
                    return [Arg('errstr')]
                return self.expr(a, where)
            # kwargs.get('cwd', os.getcwd())
            if isinstance(f, ast.Attribute) and f.attr == 'get' and getattr(f.value, 'id', '') == 'kwargs' \
                    and e.args and isinstance(e.args[0], ast.Constant) and e.args[0].value == 'cwd':
                return [Arg('cwd')]
            if ast.unparse(e) == 'os.getcwd()':
                return [Arg('cwd')]
        if isinstance(e, ast.Attribute) and ast.unparse(e) == 'proc.returncode':
            return [Arg('code')]
        if isinstance(e, ast.BinOp) and isinstance(e.op, ast.Mod) and isinstance(e.left, ast.Constant) \
                and isinstance(e.left.value, str):
            args = e.right.elts if isinstance(e.right, ast.Tuple) else [e.right]
            return split_format(e.left.value, [self.expr(a, where) for a in args], where)
        if isinstance(e, ast.BinOp) and isinstance(e.op, ast.Add):
            return self.expr(e.left, where) + self.expr(e.right, where)
        if isinstance(e, ast.JoinedStr):
            out = []
            for v in e.values:
                out += self.expr(v.value if isinstance(v, ast.FormattedValue) else v, where)
            return out
        raise ExtractError('%s: expression %s is not understood' % (where, ast.unparse(e)))

    # -- statements ----------------------------------------------------------
    def add(self, sink, level, branch, pieces):
        self.flows.append({'fn': self.fn_name, 'sink': sink, 'level': level, 'branch': branch,
                           'pieces': pieces})

    def call_sink(self, call, branch, where):
        f = call.func
        if isinstance(f, ast.Attribute) and getattr(f.value, 'id', '') == 'LOG':
            level = {'exception': logging.ERROR, 'warn': logging.WARNING}.get(
                f.attr, getattr(logging, f.attr.upper(), None))
            if not isinstance(level, int) or not call.args:
                raise ExtractError('%s: LOG.%s call not understood' % (where, f.attr))
            fmt = call.args[0]
            rest = [self.expr(a, where) for a in call.args[1:]]
            if isinstance(fmt, ast.Constant) and isinstance(fmt.value, str):
                pieces = split_format(fmt.value, rest, where) if rest else [fmt.value]
            elif not rest:
                pieces = self.expr(fmt, where)
            else:
                raise ExtractError('%s: LOG.%s with a computed format' % (where, f.attr))
            self.add('log', level, branch, pieces)
            return True
        if isinstance(f, ast.Name) and f.id == 'print':
            pieces = []
            for i, a in enumerate(call.args):
                pieces += ([' '] if i else []) + self.expr(a, where)
            self.add('print', 0, branch, pieces)
            return True
        return False

    def stmts(self, body, branch):
        for st in body:
            where = '%s:%d' % (self.fn_name, st.lineno)
            if isinstance(st, ast.FunctionDef):
                continue                                  # mask_pwd itself: checked separately
            if isinstance(st, ast.Expr) and isinstance(st.value, ast.Constant):
                continue                                  # docstring
            if isinstance(st, ast.Expr) and isinstance(st.value, ast.Call):
                if not self.call_sink(st.value, branch, where):
                    self.check_no_taint_escape(st.value, where)
                continue
            if isinstance(st, ast.Assign):
                tgt = st.targets[0]
                # output, _ = proc.communicate(timeout=timeout)
                if isinstance(tgt, ast.Tuple) and 'communicate' in ast.unparse(st.value):
                    self.env[tgt.elts[0].id] = [Arg('output')]
                    continue
                if isinstance(tgt, ast.Name):
                    try:
                        self.env[tgt.id] = self.expr(st.value, where)
                    except ExtractError:
                        self.env.pop(tgt.id, None)        # not a string we follow (pwd, kwargs, ...)
                    continue
                continue                                  # kwargs['stdout'] = ...
            if isinstance(st, ast.Raise):
                self.raise_(st, branch, where)
                continue
            if isinstance(st, ast.Return):
                if st.value is None or '_do_cmd(' in ast.unparse(st.value):
                    continue                              # the callee's own flows
                self.add('return', 0, 'ok' if branch in ('start', 'body') else branch,
                         self.expr(st.value, where))
                continue
            if isinstance(st, ast.If):
                test = ast.unparse(st.test)
                if test == 'proc.returncode != 0':
                    self.stmts(st.body, 'exit')
                    if st.orelse:
                        raise ExtractError('%s: else branch of the return code test' % where)
                elif test.startswith('LOG.isEnabledFor('):
                    # cmd: the same call is made on both branches; a LOG call under the test is
                    # emitted exactly when its own level is enabled
                    saved = dict(self.env)
                    self.stmts(st.body, branch)
                    self.env = dict(saved)
                    self.stmts(st.orelse, branch)
                    self.env = saved
                else:
                    raise ExtractError('%s: test %s is not understood' % (where, test))
                continue
            if isinstance(st, ast.With):
                self.stmts(st.body, branch)
                continue
            if isinstance(st, ast.Try):
                self.stmts(st.body, branch)
                for h in st.handlers:
                    cls = ast.unparse(h.type) if h.type is not None else 'BaseException'
                    kind = {'subprocess.TimeoutExpired': 'timeout', 'CommandError': 'reraise',
                            'Exception': 'other'}.get(cls)
                    if kind is None:
                        raise ExtractError('%s: except %s is not understood' % (where, cls))
                    if kind == 'reraise':
                        if not (len(h.body) == 1 and isinstance(h.body[0], ast.Raise)
                                and h.body[0].exc is None):
                            raise ExtractError('%s: except CommandError does more than re-raise' % where)
                        continue
                    saved, self.handler = self.handler, (cls, h.name)
                    self.stmts(h.body, kind)
                    self.handler = saved
                if st.orelse or st.finalbody:
                    raise ExtractError('%s: else/finally of the try block' % where)
                continue
            raise ExtractError('%s: statement %s is not understood' % (where, type(st).__name__))

    def check_no_taint_escape(self, call, where):
        """a call that is not a sink: fine as long as it is one of the calls we know"""
        txt = ast.unparse(call)
        known = ('kwargs.update(', 'kwargs.setdefault(', 'os.killpg(', 'proc.communicate(')
        if not txt.startswith(known):
            raise ExtractError('%s: call %s is not understood' % (where, txt[:60]))

    def raise_(self, st, branch, where):
        if st.exc is None:
            return
        call = st.exc
        if not (isinstance(call, ast.Call) and len(call.args) == 1):
            raise ExtractError('%s: raise %s is not understood' % (where, ast.unparse(call)[:60]))
        self.add('error', 0, branch, self.expr(call.args[0], where))
        # what a traceback prints below/above it: the explicit cause, or the implicit context
        suppressed = isinstance(st.cause, ast.Constant) and st.cause.value is None
        if self.handler and not suppressed:
            if st.cause is not None and not (isinstance(st.cause, ast.Name)
                                             and st.cause.id == self.handler[1]):
                raise ExtractError('%s: raise ... from %s' % (where, ast.unparse(st.cause)))
            if self.handler[0] == 'subprocess.TimeoutExpired':
                self.add('cause', 0, branch, list(self.timeout_text))
            else:
                self.add('cause', 0, branch, [Arg('errstr')])


def timeout_expired_text():
    """pieces of str(subprocess.TimeoutExpired(cmd, timeout)) -- Popen was given the raw command"""
    a, b = '\x00C\x00', '\x00T\x00'
    s = str(subprocess.TimeoutExpired(a, b))
    if s.count(a) != 1 or s.count(b) != 1 or s.index(a) > s.index(b):
        raise ExtractError('subprocess.TimeoutExpired.__str__ not understood: %r' % s)
    pre, rest = s.split(a)
    mid, post = rest.split(b)
    return [x for x in (pre, Arg('command'), mid, Arg('timeout'), post) if x != '']


def mask_literals(fn, where):
    """the `mask_pwd` helper of a function: returns the set of replacement literals, after
    checking that every `return` is `data.replace(<pwd>, <literal>) if pwd else data`"""
    helper = None
    for st in fn.body:
        if isinstance(st, ast.FunctionDef) and st.name == 'mask_pwd':
            helper = st
    if helper is None:
        raise ExtractError('%s: no mask_pwd helper' % where)
    lits = set()
    rets = [n for n in ast.walk(helper) if isinstance(n, ast.Return)]
    if not rets:
        raise ExtractError('%s: mask_pwd returns nothing' % where)
    for r in rets:
        v = r.value
        ok = (isinstance(v, ast.IfExp) and ast.unparse(v.test) == 'pwd' and ast.unparse(v.orelse) == 'data'
              and isinstance(v.body, ast.Call) and ast.unparse(v.body.func) == 'data.replace'
              and len(v.body.args) == 2 and ast.unparse(v.body.args[0]) in ('pwd', 'pwd.encode()')
              and isinstance(v.body.args[1], ast.Constant))
        if not ok:
            raise ExtractError('%s: mask_pwd returns %s' % (where, ast.unparse(v)[:80]))
        lit = v.body.args[1].value
        lits.add(lit.decode('ascii') if isinstance(lit, bytes) else lit)
    # pwd must be the mask_pwd keyword argument
    src = ast.unparse(fn)
    if "pwd = kwargs.get('mask_pwd', None)" not in src and "pwd = kwargs.pop('mask_pwd', None)" not in src:
        raise ExtractError('%s: pwd is not taken from the mask_pwd argument' % where)
    return lits


def lean_char(c):
    if c == "'":
        return "'\\''"
    if c == '\\':
        return "'\\\\'"
    if 32 <= ord(c) < 127:
        return "'%s'" % c
    return '(Char.ofNat %d)' % ord(c)


def lean_pieces(pieces, alphabet):
    out = []
    for p in pieces:
        if isinstance(p, Arg):
            out.append('.arg .%s %s' % (p.src, lbool(p.masked)))
            continue
        run = ''
        for ch in p:
            if ch in alphabet:
                run += ch
            else:
                if run:
                    out.append('.lit %s' % lstr(run))
                    run = ''
                out.append('.sep %s' % lean_char(ch))
        if run:
            out.append('.lit %s' % lstr(run))
    return '[' + ', '.join(out) + ']'


def table_mask():
    mod = importlib.import_module('bert_e.lib.simplecmd')
    safe, alphabet = quote_alphabet()
    tmo = timeout_expired_text()
    flows, lits = [], set()
    for name in ('cmd', '_do_cmd'):
        fn = func_ast(mod, name)
        lits |= mask_literals(fn, 'simplecmd.' + name)
        w = Walker(name, fn, tmo)
        w.stmts(fn.body, 'start' if name == 'cmd' else 'body')
        flows += w.flows
    for f in flows:
        if f['branch'] == 'body':
            raise ExtractError('simplecmd._do_cmd:%s sink outside of the outcome branches' % f['sink'])
    if len(lits) != 1:
        raise ExtractError('simplecmd: several replacement literals %s' % sorted(lits))
    star = lits.pop()
    # shlex.quote: which ASCII characters are left alone (the pattern is compiled with re.ASCII)
    shell_safe = ''.join(chr(c) for c in range(128) if shlex._find_unsafe(chr(c)) is None)
    for c in (0xe4, 0x2713, 0x1f600, 0xa0, 0x3000):
        if shlex._find_unsafe(chr(c)) is None:
            raise ExtractError('shlex.quote leaves U+%04X unquoted' % c)
    spaces = [c for c in range(0x110000) if chr(c).isspace()]

    src = 'import BertE.Model.Mask\n'
    src += header('Mask', ['bert_e/lib/simplecmd.py:cmd,_do_cmd', 'urllib.parse._ALWAYS_SAFE',
                           'shlex._find_unsafe', 'str.isspace', 'subprocess.TimeoutExpired.__str__'])
    src += 'open BertE.Mask\n\n'
    src += '/-- always-safe characters of `urllib.parse.quote_plus` -/\n'
    src += 'def quoteSafe : String := %s\n\n' % lstr(safe)
    src += '/-- ASCII characters that `shlex.quote` leaves unquoted (every other character is unsafe) -/\n'
    src += 'def shellSafe : String := %s\n\n' % lstr(shell_safe)
    src += '/-- code points with `str.isspace()` (what `str.strip()` removes) -/\n'
    src += 'def spaces : List Nat := [%s]\n\n' % ', '.join(map(str, spaces))
    src += '/-- the replacement literal of `mask_pwd` -/\n'
    src += 'def star : String := %s\n\n' % lstr(star)
    src += ('/-- every place of `cmd` / `_do_cmd` where a string reaches a sink:\n'
            '    function, sink, logging level, outcome branch, message template -/\n')
    src += 'def flows : List Flow := ' + llist(
        '⟨%s, %s, %d, %s, %s⟩' % (lstr(f['fn']), lstr(f['sink']), f['level'], lstr(f['branch']),
                                  lean_pieces(f['pieces'], alphabet)) for f in flows) + '\n\n'
    src += 'def tbl : Tbl := ⟨quoteSafe.toList, shellSafe.toList, spaces.map Char.ofNat, star.toList, flows⟩\n'
    src += footer('Mask')
    summary = {'star': star, 'quoteSafe': safe, 'shellSafe': shell_safe, 'spaces': len(spaces),
               'flows': [{'fn': f['fn'], 'sink': f['sink'], 'branch': f['branch'], 'level': f['level'],
                          'pieces': [repr(p) if isinstance(p, Arg) else p for p in f['pieces']]}
                         for f in flows],
               'unmasked': ['%s/%s/%s' % (f['fn'], f['branch'], f['sink']) for f in flows
                            if any(isinstance(p, Arg) and p.src in TAINTED and not p.masked
                                   for p in f['pieces'])]}
    return 'Mask', src, summary


TABLES = {'Mask': table_mask}
