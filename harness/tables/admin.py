"""Table for C20 (admin jobs): the tag-name literals that create_branch and delete_branch must agree on.

From the AST of `bert_e.jobs.create_branch.create_branch`:
  * the tags whose presence refuses the creation: `archive_tags = [new_branch.version]` plus every
    `archive_tags.append(new_branch.version + '<suffix>')` under `if isinstance(new_branch, <Class>)`
    (the older shape `if new_branch.version in <tags>` is read as: the plain version only);
  * the base tag of a hotfix branch: `job.settings.branch_from = new_branch.version + '<suffix>'`.
From the AST of `bert_e.jobs.delete_branch.delete_branch`:
  * the archive tag: `archive_tag = del_branch.version` and every `archive_tag = archive_tag + '<suffix>'`
    under `if isinstance(del_branch, <Class>)`.
"""
import ast
import importlib

from ..extract_tables import ExtractError, func_ast, header, footer, lstr, lbool

CLASSES = ('DevelopmentBranch', 'StabilizationBranch', 'HotfixBranch')


def _is_version(node, var):
    return isinstance(node, ast.Attribute) and node.attr == 'version' and getattr(node.value, 'id', None) == var


def _version_plus(node, var):
    """`<var>.version + '<lit>'` -> '<lit>'"""
    if isinstance(node, ast.BinOp) and isinstance(node.op, ast.Add) and _is_version(node.left, var) \
            and isinstance(node.right, ast.Constant) and isinstance(node.right.value, str):
        return node.right.value
    return None


def _isinstance_of(test, var):
    """`isinstance(<var>, <Class>)` -> Class name"""
    if isinstance(test, ast.Call) and getattr(test.func, 'id', None) == 'isinstance' and len(test.args) == 2 \
            and getattr(test.args[0], 'id', None) == var and isinstance(test.args[1], ast.Name):
        return test.args[1].id
    return None


def table_admin():
    cb = importlib.import_module('bert_e.jobs.create_branch')
    db = importlib.import_module('bert_e.jobs.delete_branch')

    # ---- create_branch
    fn = func_ast(cb, 'create_branch')
    base = None
    create_suffixes = []
    hotfix_base = None
    for node in ast.walk(fn):
        if isinstance(node, ast.Assign) and getattr(node.targets[0], 'id', None) == 'archive_tags':
            if not isinstance(node.value, ast.List) or not all(_is_version(e, 'new_branch') for e in node.value.elts):
                raise ExtractError('create_branch: unexpected `archive_tags = %s`' % ast.unparse(node.value))
            base = len(node.value.elts) > 0
        if isinstance(node, ast.If):
            cls = _isinstance_of(node.test, 'new_branch')
            if cls:
                for st in node.body:
                    if isinstance(st, ast.Expr) and isinstance(st.value, ast.Call) \
                            and isinstance(st.value.func, ast.Attribute) and st.value.func.attr == 'append' \
                            and getattr(st.value.func.value, 'id', None) == 'archive_tags':
                        suf = _version_plus(st.value.args[0], 'new_branch')
                        if suf is None:
                            raise ExtractError('create_branch: unexpected archive tag %s'
                                               % ast.unparse(st.value.args[0]))
                        create_suffixes.append((cls, suf))
                    if isinstance(st, ast.Assign) and isinstance(st.targets[0], ast.Attribute) \
                            and st.targets[0].attr == 'branch_from':
                        suf = _version_plus(st.value, 'new_branch')
                        if suf is not None:
                            if cls != 'HotfixBranch':
                                raise ExtractError('create_branch: a tag is the branching point of %s' % cls)
                            hotfix_base = suf
    if base is None:
        # older shape: `if new_branch.version in repo.cmd('git tag')...:`
        for node in ast.walk(fn):
            if isinstance(node, ast.Compare) and _is_version(node.left, 'new_branch') and len(node.ops) == 1 \
                    and isinstance(node.ops[0], ast.In):
                base = True
    if base is None:
        raise ExtractError('create_branch: the archive tag test was not found')
    if hotfix_base is None:
        raise ExtractError('create_branch: the base tag of a hotfix branch was not found')

    # ---- delete_branch
    fn = func_ast(db, 'delete_branch')
    seen_base = False
    delete_suffixes = []
    for node in ast.walk(fn):
        if isinstance(node, ast.Assign) and getattr(node.targets[0], 'id', None) == 'archive_tag':
            if _is_version(node.value, 'del_branch'):
                seen_base = True
        if isinstance(node, ast.If):
            cls = _isinstance_of(node.test, 'del_branch')
            if cls:
                for st in node.body:
                    if isinstance(st, ast.Assign) and getattr(st.targets[0], 'id', None) == 'archive_tag':
                        v = st.value
                        if isinstance(v, ast.BinOp) and isinstance(v.op, ast.Add) \
                                and getattr(v.left, 'id', None) == 'archive_tag' \
                                and isinstance(v.right, ast.Constant) and isinstance(v.right.value, str):
                            delete_suffixes.append((cls, v.right.value))
                        else:
                            raise ExtractError('delete_branch: unexpected archive tag %s' % ast.unparse(v))
    if not seen_base:
        raise ExtractError('delete_branch: `archive_tag = del_branch.version` not found')
    for cls, _ in create_suffixes + delete_suffixes:
        if cls not in CLASSES:
            raise ExtractError('archive tag suffix for an unknown class %s' % cls)

    def pairs(l):
        return '[' + ', '.join('(%s, %s)' % (lstr(c), lstr(s)) for c, s in l) + ']'
    src = header('Admin', ['bert_e/jobs/create_branch.py:create_branch', 'bert_e/jobs/delete_branch.py:delete_branch'])
    src += '/-- create_branch refuses when the tag `<version>` exists -/\n'
    src += 'def createChecksVersion : Bool := %s\n' % lbool(base)
    src += '/-- ... and, for a branch of the class, when the tag `<version><suffix>` exists -/\n'
    src += 'def createSuffixes : List (String × String) := %s\n' % pairs(create_suffixes)
    src += '/-- a hotfix branch starts from the tag `<version><suffix>` -/\n'
    src += 'def hotfixBaseSuffix : String := %s\n' % lstr(hotfix_base)
    src += '/-- delete_branch tags the deleted tip `<version>`, followed, for a branch of the class, by the suffix -/\n'
    src += 'def deleteSuffixes : List (String × String) := %s\n' % pairs(delete_suffixes)
    src += footer('Admin')
    return 'Admin', src, {'createChecksVersion': base, 'createSuffixes': create_suffixes,
                          'hotfixBaseSuffix': hotfix_base, 'deleteSuffixes': delete_suffixes}


TABLES = {
    'Admin': table_admin,
}
