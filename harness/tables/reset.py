"""Table for C15: the switches of `_reset` (bert_e/workflow/gitwaterflow/commands.py) that decide which
commits of an integration branch are looked at, and how the branches are removed.

* whether `git log` is asked to leave merge commits out (`ignore_merges` of `Branch.get_commit_diff`,
  explicit argument or the default of the signature) for the `feature` set and for the walk;
* the `--no-merges` literal that `ignore_merges` selects;
* `branch.remove(do_push=...)`, `push(..., prune=...)`;
* the name template of `get_integration_branches` and the keyword by which the integration pull
  requests are looked up.
Only literals and keyword names are kept, so that a renaming of a local variable breaks nothing."""
import ast
import importlib

from ..extract_tables import ExtractError, func_ast, header, footer, lstr, lbool


def _default_ignore_merges():
    libgit = importlib.import_module('bert_e.lib.git')
    fn = func_ast(libgit, 'Branch.get_commit_diff')
    names = [a.arg for a in fn.args.args]
    if 'ignore_merges' not in names:
        raise ExtractError('Branch.get_commit_diff: no ignore_merges parameter')
    idx = names.index('ignore_merges') - (len(names) - len(fn.args.defaults))
    if idx < 0:
        raise ExtractError('Branch.get_commit_diff: ignore_merges has no default')
    default = ast.literal_eval(fn.args.defaults[idx])
    # '--no-merges' if ignore_merges else ''
    flag = None
    for node in ast.walk(fn):
        if isinstance(node, ast.IfExp) and getattr(node.test, 'id', None) == 'ignore_merges':
            flag = (ast.literal_eval(node.body), ast.literal_eval(node.orelse))
    if flag is None:
        raise ExtractError('Branch.get_commit_diff: `<flag> if ignore_merges else <flag>` not found')
    # the revision range: '%s..%s' with (source_branch, self.name)
    rng = [ast.literal_eval(n) for n in ast.walk(fn)
           if isinstance(n, ast.Constant) and isinstance(n.value, str) and '..' in n.value]
    if len(rng) != 1:
        raise ExtractError('Branch.get_commit_diff: git log command not found')
    return bool(default), flag, rng[0], names.index('ignore_merges') - 1


def _effective(call, default, pos):
    """value of ignore_merges at a call `x.get_commit_diff(...)`"""
    for kw in call.keywords:
        if kw.arg == 'ignore_merges':
            return bool(ast.literal_eval(kw.value))
    if len(call.args) > pos:
        return bool(ast.literal_eval(call.args[pos]))
    return default


def _diff_call(node):
    for n in ast.walk(node):
        if isinstance(n, ast.Call) and getattr(n.func, 'attr', None) == 'get_commit_diff':
            return n
    return None


def table_reset():
    cmds = importlib.import_module('bert_e.workflow.gitwaterflow.commands')
    integ = importlib.import_module('bert_e.workflow.gitwaterflow.integration')
    fn = func_ast(cmds, '_reset')
    default, flag, log_cmd, pos = _default_ignore_merges()
    feature_call = w_call = None
    for node in ast.walk(fn):
        if isinstance(node, ast.Assign) and len(node.targets) == 1:
            name = getattr(node.targets[0], 'id', None)
            if name == 'feature':
                feature_call = _diff_call(node.value)
            elif name == 'wcommits':
                w_call = _diff_call(node.value)
                reversed_ = isinstance(node.value, ast.Call) and getattr(node.value.func, 'id', None) == 'reversed'
    if feature_call is None or w_call is None:
        raise ExtractError('_reset: `feature = ...get_commit_diff` / `wcommits = ...get_commit_diff` not found')
    feature_nm = _effective(feature_call, default, pos)
    w_nm = _effective(w_call, default, pos)
    remove_push = None
    push_prune = None
    pr_kw = []
    for node in ast.walk(fn):
        if isinstance(node, ast.Call) and getattr(node.func, 'attr', None) == 'remove':
            vals = [ast.literal_eval(k.value) for k in node.keywords if k.arg == 'do_push']
            remove_push = bool(vals[0]) if vals else True     # default of Branch.remove is checked below
        if isinstance(node, ast.Call) and getattr(node.func, 'id', None) == 'push':
            vals = [ast.literal_eval(k.value) for k in node.keywords if k.arg == 'prune']
            push_prune = bool(vals[0]) if vals else False
            push_branches = len(node.args) > 1 or any(k.arg == 'branches' for k in node.keywords)
        if isinstance(node, ast.Call) and getattr(node.func, 'attr', None) == 'get_pull_requests':
            pr_kw = sorted(k.arg for k in node.keywords)
    if remove_push is None or push_prune is None:
        raise ExtractError('_reset: branch.remove(...) / push(...) not found')
    gi = func_ast(integ, 'get_integration_branches')
    templates = [n.value for n in ast.walk(gi)
                 if isinstance(n, ast.Constant) and isinstance(n.value, str) and n.value.startswith('w/')]
    exists_test = any(isinstance(n, ast.If) and isinstance(n.test, ast.Call)
                      and getattr(n.test.func, 'attr', None) == 'exists' for n in ast.walk(gi))
    if len(templates) != 1:
        raise ExtractError('get_integration_branches: name template not found')
    src = header('Reset', ['bert_e/workflow/gitwaterflow/commands.py:_reset',
                           'bert_e/workflow/gitwaterflow/integration.py:get_integration_branches',
                           'bert_e/lib/git.py:Branch.get_commit_diff'])
    src += '/-- `feature = set(src.get_commit_diff(dst))`: is git asked to leave merge commits out? -/\n'
    src += 'def featureNoMerges : Bool := %s\n\n' % lbool(feature_nm)
    src += '/-- `wcommits = reversed(list(branch.get_commit_diff(dst)))`: is git asked to leave merge commits out? -/\n'
    src += 'def wNoMerges : Bool := %s\n\n' % lbool(w_nm)
    src += '/-- the walk goes through `reversed(...)` of what git lists -/\n'
    src += 'def walkReversed : Bool := %s\n\n' % lbool(reversed_)
    src += '/-- `<a> if ignore_merges else <b>` and the revision range of `get_commit_diff` -/\n'
    src += 'def mergesFlag : String × String := (%s, %s)\n' % (lstr(flag[0]), lstr(flag[1]))
    src += 'def logCommand : String := %s\n\n' % lstr(log_cmd)
    src += '/-- `branch.remove(do_push=...)` and `push(repo, prune=...)` (no explicit branch list) in `_reset` -/\n'
    src += 'def removePushes : Bool := %s\n' % lbool(remove_push)
    src += 'def pushPrune : Bool := %s\n' % lbool(push_prune)
    src += 'def pushNamesBranches : Bool := %s\n\n' % lbool(push_branches)
    src += '/-- keywords of `get_pull_requests(...)` in `_reset` -/\n'
    src += 'def declineLookup : List String := [%s]\n\n' % ', '.join(lstr(k) for k in pr_kw)
    src += '/-- name template and existence test of `get_integration_branches` -/\n'
    src += 'def wTemplate : String := %s\n' % lstr(templates[0])
    src += 'def onlyExisting : Bool := %s\n' % lbool(exists_test)
    src += footer('Reset')
    return 'Reset', src, {'featureNoMerges': feature_nm, 'wNoMerges': w_nm, 'pushPrune': push_prune,
                          'removePushes': remove_push, 'wTemplate': templates[0]}


TABLES = {'Reset': table_reset}
