"""Table for C08 (ownership of refs): how Bert-E pushes and deletes.

Extracted from the AST of the non-test sources of `bert_e` on every run:
  * every function that holds a `git push` command template (and `push`/`push_all`/`remove` of lib/git.py,
    `push` of workflow/git_utils.py): its templates and every flag-like token among ALL string constants
    of the function (a flag may be spliced in through `%s` or `+`);
  * the guard at the head of `Branch.remove` (prefixes that may be deleted without `force`);
  * every call of a branch's `remove(...)` with the source text of its `force` / `do_push` arguments;
  * the ordered remote-mutating calls of the `delete_branch` job handler.
"""
import ast
import os

from .. import common
from ..extract_tables import ExtractError, header, footer, lstr, lbool, llist

PUSH_HELPERS = {('bert_e/lib/git.py', 'Repository.push'), ('bert_e/lib/git.py', 'Repository.push_all'),
                ('bert_e/lib/git.py', 'Branch.push'), ('bert_e/lib/git.py', 'Branch.remove'),
                ('bert_e/workflow/git_utils.py', 'push')}


def _sources():
    root = os.path.join(common.REPO, 'bert_e')
    for d, dirs, names in os.walk(root):
        dirs[:] = sorted(x for x in dirs if x not in ('tests', '__pycache__'))
        for n in sorted(names):
            if n.endswith('.py'):
                path = os.path.join(d, n)
                rel = os.path.relpath(path, common.REPO)
                with open(path) as fh:
                    yield rel, ast.parse(fh.read(), path)


def _functions(tree):
    """(qualified name, node) of every function, methods as Class.method"""
    out = []

    def walk(node, prefix):
        for ch in ast.iter_child_nodes(node):
            if isinstance(ch, (ast.FunctionDef, ast.AsyncFunctionDef)):
                out.append((prefix + ch.name, ch))
                walk(ch, prefix + ch.name + '.')
            elif isinstance(ch, ast.ClassDef):
                walk(ch, prefix + ch.name + '.')
            else:
                walk(ch, prefix)
    walk(tree, '')
    return out


def _own_nodes(fn):
    """nodes of a function, nested function bodies excluded"""
    stack = list(ast.iter_child_nodes(fn))
    while stack:
        n = stack.pop()
        if isinstance(n, (ast.FunctionDef, ast.AsyncFunctionDef, ast.ClassDef)):
            continue
        yield n
        stack.extend(ast.iter_child_nodes(n))


def _strings(fn):
    doc = ast.get_docstring(fn, clean=False)
    res = []
    for n in _own_nodes(fn):
        if isinstance(n, ast.Constant) and isinstance(n.value, str) and n.value != doc:
            res.append((getattr(n, 'lineno', 0), getattr(n, 'col_offset', 0), n.value))
    return [v for _, _, v in sorted(res)]


def _flag_tokens(strings):
    toks = []
    for s in strings:
        for t in s.replace("'", ' ').replace('"', ' ').split():
            if t.startswith('--'):
                toks.append(t.split('=')[0])
            elif t.startswith('-') and len(t) > 1 and t[1:].isalpha():
                toks += ['-' + ch for ch in t[1:]]          # -fq -> -f -q
            elif t.startswith('+'):
                toks.append(t)
    seen, out = set(), []
    for t in toks:
        if t not in seen:
            seen.add(t)
            out.append(t)
    return out


def _remove_guard(fn):
    """`if (not (self.name.startswith(a) or ...) and not force): raise ForbiddenOperation(...)` as FIRST statement"""
    body = [st for st in fn.body if not (isinstance(st, ast.Expr) and isinstance(getattr(st, 'value', None), ast.Constant))]
    if not body or not isinstance(body[0], ast.If):
        return False, []
    st = body[0]
    t = st.test
    ok = isinstance(t, ast.BoolOp) and isinstance(t.op, ast.And) and len(t.values) == 2
    prefixes = []
    if ok:
        a, b = t.values
        ok = isinstance(b, ast.UnaryOp) and isinstance(b.op, ast.Not) and isinstance(b.operand, ast.Name) \
            and b.operand.id == 'force'
        ok = ok and isinstance(a, ast.UnaryOp) and isinstance(a.op, ast.Not)
        if ok:
            inner = a.operand
            alts = inner.values if (isinstance(inner, ast.BoolOp) and isinstance(inner.op, ast.Or)) else [inner]
            for c in alts:
                if isinstance(c, ast.Call) and isinstance(c.func, ast.Attribute) and c.func.attr == 'startswith' \
                        and ast.unparse(c.func.value) == 'self.name' and len(c.args) == 1 \
                        and isinstance(c.args[0], ast.Constant) and isinstance(c.args[0].value, str):
                    prefixes.append(c.args[0].value)
                else:
                    ok = False
    ok = ok and len(st.body) >= 1 and isinstance(st.body[-1], ast.Raise) and not st.orelse
    if ok:
        exc = st.body[-1].exc
        f = exc.func if isinstance(exc, ast.Call) else exc
        ok = (f.attr if isinstance(f, ast.Attribute) else getattr(f, 'id', '')) == 'ForbiddenOperation'
    # `force` must be a parameter defaulting to False
    args = fn.args
    names = [a.arg for a in args.args]
    if 'force' in names:
        k = names.index('force') - (len(names) - len(args.defaults))
        ok = ok and k >= 0 and isinstance(args.defaults[k], ast.Constant) and args.defaults[k].value is False
    else:
        ok = False
    return bool(ok), prefixes


def _is_branch_remove(call):
    if not (isinstance(call.func, ast.Attribute) and call.func.attr == 'remove'):
        return False
    kws = {k.arg for k in call.keywords}
    return len(call.args) != 1 or bool(kws & {'force', 'do_push', 'del_local'}) or None in kws


def _remove_call(call):
    force, do_push = '', ''
    if len(call.args) >= 2:
        force = ast.unparse(call.args[1])
    if len(call.args) >= 3:
        do_push = ast.unparse(call.args[2])
    for k in call.keywords:
        if k.arg == 'force':
            force = ast.unparse(k.value)
        elif k.arg == 'do_push':
            do_push = ast.unparse(k.value)
        elif k.arg is None:
            force = force or '**' + ast.unparse(k.value)
    return force, do_push


def _leading_const(node):
    """the leftmost string constant of `'tmpl' % x`, `'a' + b`, `'tmpl'`"""
    while isinstance(node, ast.BinOp):
        node = node.left
    if isinstance(node, ast.Constant) and isinstance(node.value, str):
        return node.value
    if isinstance(node, ast.JoinedStr) and node.values and isinstance(node.values[0], ast.Constant):
        return node.values[0].value
    return None


def _delete_branch_calls(fn):
    """ordered (kind, target, forced) of what the handler does to the remote (and the checkouts that decide
    what a tag points to); plus: does a failing tag push abort the job?"""
    calls = sorted((n for n in _own_nodes(fn) if isinstance(n, ast.Call)),
                   key=lambda n: (n.lineno, n.col_offset))
    out = []
    for c in calls:
        f = c.func
        name = f.attr if isinstance(f, ast.Attribute) else getattr(f, 'id', '')
        if name == 'do_delete':
            forced = 'False'
            if len(c.args) >= 2:
                forced = ast.unparse(c.args[1])
            for k in c.keywords:
                if k.arg == 'force':
                    forced = ast.unparse(k.value)
            out.append(('delete', ast.unparse(c.args[0]) if c.args else '', forced != 'False'))
        elif name == 'checkout' and isinstance(f, ast.Attribute):
            out.append(('checkout', ast.unparse(f.value), False))
        elif name == 'cmd' and c.args:
            lead = _leading_const(c.args[0])
            if lead is None:
                out.append(('cmd-unknown', ast.unparse(c.args[0])[:60], False))
            elif lead.split()[:2] == ['git', 'tag'] and len(lead.split()) > 2:
                out.append(('tag', lead.strip(), False))
            elif lead.split()[:2] == ['git', 'push']:
                out.append(('push', lead.strip(), any(t in FORCE_FLAGS or t.startswith('+')
                                                      for t in _flag_tokens([lead]))))
        elif name in ('push', 'push_all', 'remove', 'reset') and not (name == 'remove' and not _is_branch_remove(c)):
            out.append(('other', ast.unparse(c)[:60], False))
    # failure of the tag push: the `git push` call sits in a `try` whose every handler ends with `raise`,
    # or in no `try` at all (CommandError propagates)
    aborts = True
    for n in _own_nodes(fn):
        if isinstance(n, ast.Try):
            inside = any(isinstance(x, ast.Call) and getattr(x.func, 'attr', '') == 'cmd' and x.args
                         and (_leading_const(x.args[0]) or '').split()[:2] == ['git', 'push']
                         for b in n.body for x in ast.walk(b))
            if inside:
                for h in n.handlers:
                    if not (h.body and isinstance(h.body[-1], ast.Raise)):
                        aborts = False
                if n.finalbody and any(isinstance(x, (ast.Return, ast.Continue, ast.Break))
                                       for b in n.finalbody for x in ast.walk(b)):
                    aborts = False
    return out, aborts


FORCE_FLAGS = ['--force', '-f', '--force-with-lease', '--force-if-includes', '--mirror', '--delete', '-d']


def table_gitflags():
    push_fns = []
    remove_calls = []
    guard, prefixes = None, []
    delete_calls, tag_abort = None, True
    branch_d = []
    for rel, tree in _sources():
        for qn, fn in _functions(tree):
            strings = _strings(fn)
            templates = [s.strip() for s in strings if s.split()[:2] == ['git', 'push']]
            if templates or (rel, qn) in PUSH_HELPERS:
                toks = _flag_tokens(strings)
                push_fns.append((rel, qn, templates, [t for t in toks if not t.startswith('+')],
                                 any(t.startswith('+') for t in toks)))
            for s in strings:
                if s.split()[:3] == ['git', 'branch', '-D'] or s.split()[:2] == ['git', 'update-ref']:
                    branch_d.append((rel, qn, s.strip()))
            for n in _own_nodes(fn):
                if isinstance(n, ast.Call) and _is_branch_remove(n):
                    force, do_push = _remove_call(n)
                    remove_calls.append((rel, qn, n.lineno, force, do_push))
            if rel == 'bert_e/lib/git.py' and qn == 'Branch.remove':
                guard, prefixes = _remove_guard(fn)
            if rel == 'bert_e/jobs/delete_branch.py' and qn == 'delete_branch':
                delete_calls, tag_abort = _delete_branch_calls(fn)
    if guard is None:
        raise ExtractError('lib/git.py: Branch.remove not found')
    if delete_calls is None:
        raise ExtractError('jobs/delete_branch.py: delete_branch not found')
    if not any(t for _, _, t, _, _ in push_fns):
        raise ExtractError('no `git push` template found')
    remove_calls.sort()
    src = header('GitFlags', ['bert_e/**/*.py (non-test): git push templates, Branch.remove, remove() calls, '
                              'jobs/delete_branch.py:delete_branch'])
    src += ('structure PushFn where\n  file : String\n  func : String\n  templates : List String\n'
            '  /-- flag-like tokens among ALL string constants of the function (short clusters split) -/\n'
            '  flags : List String\n  /-- some token starts with `+` (a forcing refspec) -/\n'
            '  plusRefspec : Bool\n  deriving Repr, DecidableEq\n\n')
    src += '/-- functions that build a `git push` command -/\ndef pushFns : List PushFn := ' + llist(
        '⟨%s, %s, [%s], [%s], %s⟩' % (lstr(f), lstr(q), ', '.join(lstr(t) for t in ts),
                                      ', '.join(lstr(t) for t in fl), lbool(p))
        for f, q, ts, fl, p in push_fns) + '\n\n'
    src += '/-- flags that would make a push rewrite or delete remote refs by force -/\n'
    src += 'def forceFlags : List String := [%s]\n\n' % ', '.join(lstr(t) for t in FORCE_FLAGS)
    src += ('/-- `Branch.remove` starts with `if not (self.name.startswith(p) or …) and not force: raise '
            'ForbiddenOperation`, `force` defaulting to False -/\n')
    src += 'def removeGuarded : Bool := %s\n\n' % lbool(guard)
    src += 'def removablePrefixes : List String := [%s]\n\n' % ', '.join(lstr(p) for p in prefixes)
    src += ('structure RemoveCall where\n  file : String\n  func : String\n'
            '  /-- source text of the `force` argument ("" = not given) -/\n  force : String\n'
            '  doPush : String\n  deriving Repr, DecidableEq\n\n')
    src += '/-- every call of a branch\'s `remove(...)` -/\ndef removeCalls : List RemoveCall := ' + llist(
        '⟨%s, %s, %s, %s⟩' % (lstr(f), lstr(q), lstr(fo), lstr(dp)) for f, q, _, fo, dp in remove_calls) + '\n\n'
    src += '/-- local commands that delete or rewrite a ref by force: (file, function, template) -/\n'
    src += 'def localDeletes : List (String × String × String) := [%s]\n\n' % ', '.join(
        '(%s, %s, %s)' % (lstr(a), lstr(b), lstr(c)) for a, b, c in branch_d)
    src += ('structure Call where\n  kind : String\n  target : String\n  forced : Bool\n'
            '  deriving Repr, DecidableEq\n\n')
    src += ('/-- `delete_branch`: its remote-mutating calls and the checkouts, in source order\n'
            '    (delete = `do_delete(target, force=forced)`, tag = `git tag`, push = `git push`) -/\n')
    src += 'def deleteBranchCalls : List Call := ' + llist(
        '⟨%s, %s, %s⟩' % (lstr(k), lstr(t), lbool(fo)) for k, t, fo in delete_calls) + '\n\n'
    src += '/-- a failing tag push ends the job (no handler swallows the error) -/\n'
    src += 'def tagPushFailureAborts : Bool := %s\n' % lbool(tag_abort)
    src += footer('GitFlags')
    return 'GitFlags', src, {'pushFns': [(f, q, t, fl) for f, q, t, fl, _ in push_fns],
                             'removablePrefixes': prefixes, 'removeGuarded': guard,
                             'removeCalls': len(remove_calls),
                             'deleteBranchCalls': [(k, t, fo) for k, t, fo in delete_calls]}


TABLES = {'GitFlags': table_gitflags}
