"""Table for C08 (ownership of refs): how Bert-E pushes and deletes.

Extracted from the AST of the non-test sources of `bert_e` on every run:
  * every function that holds a `git push` command template (and `push`/`push_all`/`remove` of lib/git.py,
    `push` of workflow/git_utils.py): its templates and every flag-like token among ALL string constants
    of the function (a flag may be spliced in through `%s` or `+`);
  * the guard at the head of `Branch.remove` (prefixes that may be deleted without `force`);
  * every call of a branch's `remove(...)` with the source text of its `force` / `do_push` arguments;
  * the ordered remote-mutating calls of the `delete_branch` job handler, each with the tests of the `if`s that
    enclose it; every assignment of its flag `archived` (set when the archive tag is already on the tip of the branch:
    the tag is not pushed again) and whether that assignment is reached only through the comparison of the tagged
    commit with the tip of the branch.
"""
import ast
import os

from .. import common
from ..extract_tables import ExtractError, header, footer, lstr, lbool, llist

PUSH_HELPERS = {('bert_e/lib/git.py', 'Repository.push'), ('bert_e/lib/git.py', 'Repository.push_all'),
                ('bert_e/lib/git.py', 'Branch.push'), ('bert_e/lib/git.py', 'Branch.remove'),
                ('bert_e/workflow/git_utils.py', 'push')}


def _sources():
    root = os.path.join(common.REPO, 'bert_e')
    for d, dirs, names in os.walk(root):
        dirs[:] = sorted(x for x in dirs if x not in ('tests', '__pycache__'))
        for n in sorted(names):
            if n.endswith('.py'):
                path = os.path.join(d, n)
                rel = os.path.relpath(path, common.REPO)
                with open(path) as fh:
                    yield rel, ast.parse(fh.read(), path)


def _functions(tree):
    """(qualified name, node) of every function, methods as Class.method"""
    out = []

    def walk(node, prefix):
        for ch in ast.iter_child_nodes(node):
            if isinstance(ch, (ast.FunctionDef, ast.AsyncFunctionDef)):
                out.append((prefix + ch.name, ch))
                walk(ch, prefix + ch.name + '.')
            elif isinstance(ch, ast.ClassDef):
                walk(ch, prefix + ch.name + '.')
            else:
                walk(ch, prefix)
    walk(tree, '')
    return out


def _own_nodes(fn):
    """nodes of a function, nested function bodies excluded"""
    stack = list(ast.iter_child_nodes(fn))
    while stack:
        n = stack.pop()
        if isinstance(n, (ast.FunctionDef, ast.AsyncFunctionDef, ast.ClassDef)):
            continue
        yield n
        stack.extend(ast.iter_child_nodes(n))


def _strings(fn):
    doc = ast.get_docstring(fn, clean=False)
    res = []
    for n in _own_nodes(fn):
        if isinstance(n, ast.Constant) and isinstance(n.value, str) and n.value != doc:
            res.append((getattr(n, 'lineno', 0), getattr(n, 'col_offset', 0), n.value))
    return [v for _, _, v in sorted(res)]


def _flag_tokens(strings):
    toks = []
    for s in strings:
        for t in s.replace("'", ' ').replace('"', ' ').split():
            if t.startswith('--'):
                toks.append(t.split('=')[0])
            elif t.startswith('-') and len(t) > 1 and t[1:].isalpha():
                toks += ['-' + ch for ch in t[1:]]          # -fq -> -f -q
            elif t.startswith('+'):
                toks.append(t)
    seen, out = set(), []
    for t in toks:
        if t not in seen:
            seen.add(t)
            out.append(t)
    return out


def _remove_guard(fn):
    """`if (not (self.name.startswith(a) or ...) and not force): raise ForbiddenOperation(...)` as FIRST statement"""
    body = [st for st in fn.body if not (isinstance(st, ast.Expr) and isinstance(getattr(st, 'value', None), ast.Constant))]
    if not body or not isinstance(body[0], ast.If):
        return False, []
    st = body[0]
    t = st.test
    ok = isinstance(t, ast.BoolOp) and isinstance(t.op, ast.And) and len(t.values) == 2
    prefixes = []
    if ok:
        a, b = t.values
        ok = isinstance(b, ast.UnaryOp) and isinstance(b.op, ast.Not) and isinstance(b.operand, ast.Name) \
            and b.operand.id == 'force'
        ok = ok and isinstance(a, ast.UnaryOp) and isinstance(a.op, ast.Not)
        if ok:
            inner = a.operand
            alts = inner.values if (isinstance(inner, ast.BoolOp) and isinstance(inner.op, ast.Or)) else [inner]
            for c in alts:
                if isinstance(c, ast.Call) and isinstance(c.func, ast.Attribute) and c.func.attr == 'startswith' \
                        and ast.unparse(c.func.value) == 'self.name' and len(c.args) == 1 \
                        and isinstance(c.args[0], ast.Constant) and isinstance(c.args[0].value, str):
                    prefixes.append(c.args[0].value)
                else:
                    ok = False
    ok = ok and len(st.body) >= 1 and isinstance(st.body[-1], ast.Raise) and not st.orelse
    if ok:
        exc = st.body[-1].exc
        f = exc.func if isinstance(exc, ast.Call) else exc
        ok = (f.attr if isinstance(f, ast.Attribute) else getattr(f, 'id', '')) == 'ForbiddenOperation'
    # `force` must be a parameter defaulting to False
    args = fn.args
    names = [a.arg for a in args.args]
    if 'force' in names:
        k = names.index('force') - (len(names) - len(args.defaults))
        ok = ok and k >= 0 and isinstance(args.defaults[k], ast.Constant) and args.defaults[k].value is False
    else:
        ok = False
    return bool(ok), prefixes


def _is_branch_remove(call):
    if not (isinstance(call.func, ast.Attribute) and call.func.attr == 'remove'):
        return False
    kws = {k.arg for k in call.keywords}
    return len(call.args) != 1 or bool(kws & {'force', 'do_push', 'del_local'}) or None in kws


def _remove_call(call):
    force, do_push = '', ''
    if len(call.args) >= 2:
        force = ast.unparse(call.args[1])
    if len(call.args) >= 3:
        do_push = ast.unparse(call.args[2])
    for k in call.keywords:
        if k.arg == 'force':
            force = ast.unparse(k.value)
        elif k.arg == 'do_push':
            do_push = ast.unparse(k.value)
        elif k.arg is None:
            force = force or '**' + ast.unparse(k.value)
    return force, do_push


def _leading_const(node):
    """the leftmost string constant of `'tmpl' % x`, `'a' + b`, `'tmpl'`"""
    while isinstance(node, ast.BinOp):
        node = node.left
    if isinstance(node, ast.Constant) and isinstance(node.value, str):
        return node.value
    if isinstance(node, ast.JoinedStr) and node.values and isinstance(node.values[0], ast.Constant):
        return node.values[0].value
    return None


GUARD_SEP = ' && '


def _guards(fn):
    """id(node) -> textual guard of a node of `fn`: the tests of ALL the `if` statements (and conditional
    expressions) that enclose it, outermost first, joined by ' && ' (`not (test)` for an `else` part); '' when no
    `if` encloses it. Loops, `try` and `with` blocks add nothing (they are not what decides `archived`)."""
    out = {}

    def walk(node, guard):
        out[id(node)] = guard
        if isinstance(node, (ast.FunctionDef, ast.AsyncFunctionDef, ast.ClassDef, ast.Lambda)) and node is not fn:
            return
        if isinstance(node, (ast.If, ast.IfExp)):
            t = ast.unparse(node.test)
            walk(node.test, guard)
            body = node.body if isinstance(node.body, list) else [node.body]
            orelse = node.orelse if isinstance(node.orelse, list) else [node.orelse]
            for ch in body:
                walk(ch, (guard + GUARD_SEP if guard else '') + t)
            for ch in orelse:
                walk(ch, (guard + GUARD_SEP if guard else '') + 'not (%s)' % t)
            return
        for ch in ast.iter_child_nodes(node):
            walk(ch, guard)
    walk(fn, '')
    return out


def _stores(fn, name):
    """every node that binds the local `name` in `fn`: (statement-or-node, value text or '?')"""
    res = []
    for n in _own_nodes(fn):
        if isinstance(n, ast.Assign) and len(n.targets) == 1 and isinstance(n.targets[0], ast.Name) \
                and n.targets[0].id == name:
            res.append((n, ast.unparse(n.value)))
        elif isinstance(n, ast.Name) and n.id == name and isinstance(n.ctx, (ast.Store, ast.Del)):
            res.append((n, '?'))
        elif isinstance(n, (ast.Global, ast.Nonlocal)) and name in n.names:
            res.append((n, '?'))
        elif isinstance(n, ast.arg) and n.arg == name:
            res.append((n, '?'))
    # a plain assignment was recorded twice (the statement and its target Name): keep the statement
    plain = {id(n.targets[0]) for n, _ in res if isinstance(n, ast.Assign)}
    res = [(n, v) for n, v in res if id(n) not in plain]
    res.sort(key=lambda x: (x[0].lineno, x[0].col_offset))
    return res


def _fmt_arg(node):
    """`'tmpl %s' % x` -> source text of x (None when the command is not of that shape)"""
    if isinstance(node, ast.BinOp) and isinstance(node.op, ast.Mod) and isinstance(node.left, ast.Constant):
        return ast.unparse(node.right)
    return None


def _cmd_calls(fn, head):
    """calls `<x>.cmd('<head> ...' % arg)` of fn: (call, text of arg)"""
    res = []
    for n in _own_nodes(fn):
        if isinstance(n, ast.Call) and getattr(n.func, 'attr', '') == 'cmd' and n.args:
            lead = _leading_const(n.args[0])
            if lead is not None and lead.split()[:len(head)] == head:
                res.append((n, _fmt_arg(n.args[0])))
    return res


def _resume_checks_tip(fn, checkout_target):
    """`archived = True` (any value but False) is reached only through the comparison of the tagged commit with the
    tip of the branch being deleted: in the body of the `if` that holds the assignment, BEFORE it,
        X = <repo>.cmd('git rev-list -n 1 %s' % T)[.rstrip()/.strip()]      T = the argument of `git tag %s` and of
                                                                           `git push origin %s`
        if X != <checkout_target>.get_latest_commit():  ...; raise ...      (either order of the operands; no `else`)
    Returns (bool, description)."""
    stores = [(n, v) for n, v in _stores(fn, 'archived') if v != 'False']
    if not stores:
        return False, 'no assignment of a value other than False'
    tag_args = {a for c, a in _cmd_calls(fn, ['git', 'tag']) if len(_leading_const(c.args[0]).split()) > 2} \
        | {a for _, a in _cmd_calls(fn, ['git', 'push'])}
    if len(tag_args) != 1 or None in tag_args:
        return False, '`git tag` / `git push` do not format one and the same name'
    tag_arg = next(iter(tag_args))
    parents = {}
    for n in _own_nodes(fn):
        for field in ('body', 'orelse', 'finalbody'):
            block = getattr(n, field, None)
            if isinstance(block, list):
                for ch in block:
                    parents[id(ch)] = (n, field)
    for st, _ in stores:
        if not isinstance(st, ast.Assign) or id(st) not in parents:
            return False, 'line %d: not a plain statement of an `if` body' % st.lineno
        holder, field = parents[id(st)]
        if not isinstance(holder, ast.If) or field != 'body':
            return False, 'line %d: not in the body of an `if`' % st.lineno
        before = holder.body[:holder.body.index(st)]
        tagged = set()
        ok = False
        for b in before:
            if isinstance(b, ast.Assign) and len(b.targets) == 1 and isinstance(b.targets[0], ast.Name):
                v = b.value
                while isinstance(v, ast.Call) and isinstance(v.func, ast.Attribute) and v.func.attr in ('rstrip', 'strip') \
                        and not v.args:
                    v = v.func.value
                if isinstance(v, ast.Call) and getattr(v.func, 'attr', '') == 'cmd' and v.args \
                        and (_leading_const(v.args[0]) or '').split() == ['git', 'rev-list', '-n', '1', '%s'] \
                        and _fmt_arg(v.args[0]) == tag_arg:
                    tagged.add(b.targets[0].id)
                else:
                    tagged.discard(b.targets[0].id)
            elif isinstance(b, ast.If) and isinstance(b.test, ast.Compare) and len(b.test.ops) == 1 \
                    and isinstance(b.test.ops[0], ast.NotEq) and not b.orelse and b.body \
                    and isinstance(b.body[-1], ast.Raise):
                sides = [ast.unparse(b.test.left), ast.unparse(b.test.comparators[0])]
                tip = '%s.get_latest_commit()' % checkout_target
                if tip in sides and any(x in tagged for x in sides if x != tip):
                    ok = True
            # statements after the check do not matter: they run only when the two commits are equal
        if not ok:
            return False, 'line %d: no `if <rev-list of the tag> != %s.get_latest_commit(): raise` before it' \
                % (st.lineno, checkout_target)
    return True, 'tag name %s' % tag_arg


def _delete_branch_calls(fn):
    """ordered (kind, target, forced, guard) of what the handler does to the remote (and the checkouts that decide
    what a tag points to); does a failing tag push abort the job?; how the flag `archived` is assigned."""
    calls = sorted((n for n in _own_nodes(fn) if isinstance(n, ast.Call)),
                   key=lambda n: (n.lineno, n.col_offset))
    guards = _guards(fn)
    out = []
    for c in calls:
        f = c.func
        g = guards.get(id(c), '?')
        name = f.attr if isinstance(f, ast.Attribute) else getattr(f, 'id', '')
        if name == 'do_delete':
            forced = 'False'
            if len(c.args) >= 2:
                forced = ast.unparse(c.args[1])
            for k in c.keywords:
                if k.arg == 'force':
                    forced = ast.unparse(k.value)
            out.append(('delete', ast.unparse(c.args[0]) if c.args else '', forced != 'False', g))
        elif name == 'checkout' and isinstance(f, ast.Attribute):
            out.append(('checkout', ast.unparse(f.value), False, g))
        elif name == 'cmd' and c.args:
            lead = _leading_const(c.args[0])
            if lead is None:
                out.append(('cmd-unknown', ast.unparse(c.args[0])[:60], False, g))
            elif lead.split()[:2] == ['git', 'tag'] and len(lead.split()) > 2:
                out.append(('tag', lead.strip(), False, g))
            elif lead.split()[:2] == ['git', 'push']:
                # forced: a forcing flag, a `+refspec`, or a refspec with a colon (`:branch` deletes, `a:b` rewrites)
                out.append(('push', lead.strip(), any(t in FORCE_FLAGS or t.startswith('+')
                                                      for t in _flag_tokens([lead]))
                            or any(':' in t for t in lead.split()[2:]), g))
            elif lead.split()[:2] in (['git', 'update-ref'], ['git', 'send-pack']) or \
                    lead.split()[:3] == ['git', 'branch', '-D']:
                out.append(('other', lead.strip()[:60], False, g))
        elif name in ('push', 'push_all', 'remove', 'reset') and not (name == 'remove' and not _is_branch_remove(c)):
            out.append(('other', ast.unparse(c)[:60], False, g))
    assigns = [(v, guards.get(id(n), '?')) for n, v in _stores(fn, 'archived')]
    targets = [t for k, t, _, _ in out if k == 'checkout']
    resume, resume_why = _resume_checks_tip(fn, targets[0] if targets else '?')
    # failure of the tag push: the `git push` call sits in a `try` whose every handler ends with `raise`,
    # or in no `try` at all (CommandError propagates)
    aborts = True
    for n in _own_nodes(fn):
        if isinstance(n, ast.Try):
            inside = any(isinstance(x, ast.Call) and getattr(x.func, 'attr', '') == 'cmd' and x.args
                         and (_leading_const(x.args[0]) or '').split()[:2] == ['git', 'push']
                         for b in n.body for x in ast.walk(b))
            if inside:
                for h in n.handlers:
                    if not (h.body and isinstance(h.body[-1], ast.Raise)):
                        aborts = False
                if n.finalbody and any(isinstance(x, (ast.Return, ast.Continue, ast.Break))
                                       for b in n.finalbody for x in ast.walk(b)):
                    aborts = False
    return out, aborts, assigns, resume, resume_why


FORCE_FLAGS = ['--force', '-f', '--force-with-lease', '--force-if-includes', '--mirror', '--delete', '-d']


def table_gitflags():
    push_fns = []
    remove_calls = []
    guard, prefixes = None, []
    delete_calls, tag_abort, assigns, resume, resume_why = None, True, [], False, ''
    branch_d = []
    for rel, tree in _sources():
        for qn, fn in _functions(tree):
            strings = _strings(fn)
            templates = [s.strip() for s in strings if s.split()[:2] == ['git', 'push']]
            if templates or (rel, qn) in PUSH_HELPERS:
                toks = _flag_tokens(strings)
                push_fns.append((rel, qn, templates, [t for t in toks if not t.startswith('+')],
                                 any(t.startswith('+') for t in toks)))
            for s in strings:
                if s.split()[:3] == ['git', 'branch', '-D'] or s.split()[:2] == ['git', 'update-ref']:
                    branch_d.append((rel, qn, s.strip()))
            for n in _own_nodes(fn):
                if isinstance(n, ast.Call) and _is_branch_remove(n):
                    force, do_push = _remove_call(n)
                    remove_calls.append((rel, qn, n.lineno, force, do_push))
            if rel == 'bert_e/lib/git.py' and qn == 'Branch.remove':
                guard, prefixes = _remove_guard(fn)
            if rel == 'bert_e/jobs/delete_branch.py' and qn == 'delete_branch':
                delete_calls, tag_abort, assigns, resume, resume_why = _delete_branch_calls(fn)
    if guard is None:
        raise ExtractError('lib/git.py: Branch.remove not found')
    if delete_calls is None:
        raise ExtractError('jobs/delete_branch.py: delete_branch not found')
    if not any(t for _, _, t, _, _ in push_fns):
        raise ExtractError('no `git push` template found')
    remove_calls.sort()
    src = header('GitFlags', ['bert_e/**/*.py (non-test): git push templates, Branch.remove, remove() calls, '
                              'jobs/delete_branch.py:delete_branch'])
    src += ('structure PushFn where\n  file : String\n  func : String\n  templates : List String\n'
            '  /-- flag-like tokens among ALL string constants of the function (short clusters split) -/\n'
            '  flags : List String\n  /-- some token starts with `+` (a forcing refspec) -/\n'
            '  plusRefspec : Bool\n  deriving Repr, DecidableEq\n\n')
    src += '/-- functions that build a `git push` command -/\ndef pushFns : List PushFn := ' + llist(
        '⟨%s, %s, [%s], [%s], %s⟩' % (lstr(f), lstr(q), ', '.join(lstr(t) for t in ts),
                                      ', '.join(lstr(t) for t in fl), lbool(p))
        for f, q, ts, fl, p in push_fns) + '\n\n'
    src += '/-- flags that would make a push rewrite or delete remote refs by force -/\n'
    src += 'def forceFlags : List String := [%s]\n\n' % ', '.join(lstr(t) for t in FORCE_FLAGS)
    src += ('/-- `Branch.remove` starts with `if not (self.name.startswith(p) or …) and not force: raise '
            'ForbiddenOperation`, `force` defaulting to False -/\n')
    src += 'def removeGuarded : Bool := %s\n\n' % lbool(guard)
    src += 'def removablePrefixes : List String := [%s]\n\n' % ', '.join(lstr(p) for p in prefixes)
    src += ('structure RemoveCall where\n  file : String\n  func : String\n'
            '  /-- source text of the `force` argument ("" = not given) -/\n  force : String\n'
            '  doPush : String\n  deriving Repr, DecidableEq\n\n')
    src += '/-- every call of a branch\'s `remove(...)` -/\ndef removeCalls : List RemoveCall := ' + llist(
        '⟨%s, %s, %s, %s⟩' % (lstr(f), lstr(q), lstr(fo), lstr(dp)) for f, q, _, fo, dp in remove_calls) + '\n\n'
    src += '/-- local commands that delete or rewrite a ref by force: (file, function, template) -/\n'
    src += 'def localDeletes : List (String × String × String) := [%s]\n\n' % ', '.join(
        '(%s, %s, %s)' % (lstr(a), lstr(b), lstr(c)) for a, b, c in branch_d)
    src += ('structure Call where\n  kind : String\n  target : String\n  forced : Bool\n'
            '  /-- the tests of the enclosing `if`s, outermost first, joined by " && " ("" = unconditional) -/\n'
            '  guard : String\n  deriving Repr, DecidableEq\n\n')
    src += ('/-- `delete_branch`: its remote-mutating calls and the checkouts, in source order\n'
            '    (delete = `do_delete(target, force=forced)`, tag = `git tag`, push = `git push`; a push is `forced`\n'
            '    when it carries a forcing flag, a `+refspec` or a refspec with a colon) -/\n')
    src += 'def deleteBranchCalls : List Call := ' + llist(
        '⟨%s, %s, %s, %s⟩' % (lstr(k), lstr(t), lbool(fo), lstr(g)) for k, t, fo, g in delete_calls) + '\n\n'
    src += ('/-- every binding of the local `archived` in `delete_branch`, in source order: (source text of the value —\n'
            '    "?" when it is not a plain `archived = <value>` —, guard as in `Call.guard`) -/\n')
    src += 'def archivedAssignments : List (String × String) := [%s]\n\n' % ', '.join(
        '(%s, %s)' % (lstr(v), lstr(g)) for v, g in assigns)
    src += ('/-- every `archived = <not False>` sits in the body of an `if`, after\n'
            '    `X = repo.cmd(\'git rev-list -n 1 %%s\' %% <the name given to git tag and git push>)` and\n'
            '    `if X != <branch>.get_latest_commit(): …; raise …` (%s) -/\n' % resume_why.replace('-/', '- /'))
    src += 'def resumeChecksTip : Bool := %s\n\n' % lbool(resume)
    src += '/-- a failing tag push ends the job (no handler swallows the error) -/\n'
    src += 'def tagPushFailureAborts : Bool := %s\n' % lbool(tag_abort)
    src += footer('GitFlags')
    return 'GitFlags', src, {'pushFns': [(f, q, t, fl) for f, q, t, fl, _ in push_fns],
                             'removablePrefixes': prefixes, 'removeGuarded': guard,
                             'removeCalls': len(remove_calls),
                             'deleteBranchCalls': [(k, t, fo, g) for k, t, fo, g in delete_calls],
                             'archivedAssignments': assigns, 'resumeChecksTip': resume}


TABLES = {'GitFlags': table_gitflags}
