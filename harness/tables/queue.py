"""Table for C05: the comparisons the queue evaluation rests on, read from the AST of
QueueCollection._recursive_lookup / _extract_pr_ids / _process / _remove_unmergeable.

Only operators and literals are kept (not variable names), so that a renaming breaks nothing while
`status == 'FAILED'`, `len(version) == 3`, `>` for `<` ... break the `decide` obligation `C05_table`."""
import ast
import importlib

from ..extract_tables import ExtractError, func_ast, header, footer, lstr, lbool


def _compares(fn):
    return [n for n in ast.walk(fn) if isinstance(n, ast.Compare) and len(n.ops) == 1]


def _is_len_call(node):
    return isinstance(node, ast.Call) and getattr(node.func, 'id', None) == 'len'


def _op(node):
    return type(node.ops[0]).__name__


def table_queue_src():
    br = importlib.import_module('bert_e.workflow.gitwaterflow.branches')
    lookup = func_ast(br, 'QueueCollection._recursive_lookup')
    extract = func_ast(br, 'QueueCollection._extract_pr_ids')
    process = func_ast(br, 'QueueCollection._process')
    remove = func_ast(br, 'QueueCollection._remove_unmergeable')

    # _recursive_lookup: the test on the build status of a tip, and the "none" value of first_failed_pr
    status_tests = []
    none_value = []
    for c in _compares(lookup):
        if isinstance(c.comparators[0], ast.Constant) and isinstance(c.comparators[0].value, str):
            status_tests.append((_op(c), c.comparators[0].value))
        if isinstance(c.comparators[0], ast.Constant) and isinstance(c.comparators[0].value, int) \
                and not isinstance(c.comparators[0].value, bool):
            none_value.append((_op(c), c.comparators[0].value))
    for node in ast.walk(lookup):
        if isinstance(node, ast.Assign) and isinstance(node.value, ast.Constant) \
                and isinstance(node.value.value, int):
            none_value.append(('Assign', node.value.value))
    if len(status_tests) != 1:
        raise ExtractError('_recursive_lookup: expected one comparison of the status with a literal, got %r'
                           % status_tests)
    recursive = any(isinstance(n, ast.Call) and getattr(n.func, 'attr', '') == '_recursive_lookup'
                    for n in ast.walk(lookup))
    pops = sum(1 for n in ast.walk(lookup) if isinstance(n, ast.Call) and getattr(n.func, 'attr', '') == 'pop')

    def len_tests(fn):
        out = []
        for c in _compares(fn):
            if _is_len_call(c.left) and isinstance(c.comparators[0], ast.Constant):
                out.append((_op(c), c.comparators[0].value))
        return out

    extract_lens = len_tests(extract)
    process_lens = len_tests(process)
    # the "smallest table is the common denominator" comparison: len(a) < len(b)
    shrink = [_op(c) for c in _compares(process) if _is_len_call(c.left) and _is_len_call(c.comparators[0])]
    # stable = self.force_merge ; while not stable
    force_init = any(isinstance(n, ast.Assign) and getattr(n.targets[0], 'id', '') == 'stable'
                     and isinstance(n.value, ast.Attribute) and n.value.attr == 'force_merge'
                     for n in ast.walk(process))
    loops = [n for n in ast.walk(process) if isinstance(n, ast.While)]
    while_not_stable = any(isinstance(w.test, ast.UnaryOp) and isinstance(w.test.op, ast.Not)
                           and getattr(w.test.operand, 'id', '') == 'stable' for w in loops)
    calls = [getattr(n.func, 'attr', '') for n in ast.walk(process) if isinstance(n, ast.Call)]
    calls = [c for c in calls if c in ('_extract_pr_ids', '_remove_unmergeable', '_recursive_lookup')]
    remove_ops = [_op(c) for c in _compares(remove)]

    def pairs(l):
        return '[%s]' % ', '.join('(%s, %s)' % (lstr(a), lstr(b) if isinstance(b, str) else '%d' % b)
                                  for a, b in l)

    src = header('QueueSrc', ['bert_e/workflow/gitwaterflow/branches.py:QueueCollection._recursive_lookup, '
                              '_extract_pr_ids, _process, _remove_unmergeable'])
    src += '/-- comparison of a tip build status with a literal in `_recursive_lookup`: (operator, literal) -/\n'
    src += 'def statusTests : List (String × String) := %s\n\n' % pairs(status_tests)
    src += '/-- integer literals `first_failed_pr` is assigned / compared with -/\n'
    src += 'def noneValue : List (String × Nat) := %s\n\n' % pairs(sorted(set(none_value)))
    src += '/-- `_recursive_lookup` calls itself; number of `.pop(` calls in it -/\n'
    src += 'def lookupRecursive : Bool := %s\ndef lookupPops : Nat := %d\n\n' % (lbool(recursive), pops)
    src += '/-- `len(version) <op> <n>` tests of `_extract_pr_ids` -/\n'
    src += 'def extractLens : List (String × Nat) := %s\n\n' % pairs(extract_lens)
    src += '/-- `len(version) <op> <n>` tests of `_process` -/\n'
    src += 'def processLens : List (String × Nat) := %s\n\n' % pairs(process_lens)
    src += '/-- `len(path_mergeable_prs) <op> len(mergeable_prs)` -/\n'
    src += 'def shrinkOps : List String := [%s]\n\n' % ', '.join(lstr(s) for s in shrink)
    src += '/-- `stable = self.force_merge` and `while not stable` -/\n'
    src += 'def forceSkipsLoop : Bool := %s\n\n' % lbool(force_init and while_not_stable)
    src += '/-- calls of `_process` among the three helpers (breadth-first AST order) -/\n'
    src += 'def processCalls : List String := [%s]\n\n' % ', '.join(lstr(c) for c in calls)
    src += '/-- comparison operators of `_remove_unmergeable` -/\n'
    src += 'def removeOps : List String := [%s]\n' % ', '.join(lstr(c) for c in remove_ops)
    src += footer('QueueSrc')
    return 'QueueSrc', src, {'statusTests': status_tests, 'noneValue': sorted(set(none_value)),
                             'extractLens': extract_lens, 'processLens': process_lens, 'shrinkOps': shrink,
                             'forceSkipsLoop': bool(force_init and while_not_stable), 'processCalls': calls,
                             'removeOps': remove_ops, 'lookupPops': pops}


TABLES = {
    'QueueSrc': table_queue_src,
}
