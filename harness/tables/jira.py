"""Tables for C11 (ticket gate): data of bert_e/workflow/gitwaterflow/jira.py, the
`allow_ticketless_pr` flag of the destination branch classes, the ticket pattern of
FeatureBranch, and the ordered calls in the body of `_handle_pull_request`."""
import ast
import importlib
import inspect

from ..extract_tables import (ExtractError, func_ast, header, footer, lstr, lbool, llist)


def _callee(node):
    """dotted name of the function of a Call node ('' when it is not a plain dotted name)"""
    f = node.func
    parts = []
    while isinstance(f, ast.Attribute):
        parts.append(f.attr)
        f = f.value
    if isinstance(f, ast.Name):
        parts.append(f.id)
        return '.'.join(reversed(parts))
    return ''


def _regex_literals(fn):
    """{variable: pattern} for `var = re.compile(r'...')` in a function"""
    res = {}
    for node in ast.walk(fn):
        if isinstance(node, ast.Assign) and isinstance(node.value, ast.Call) \
                and _callee(node.value) == 're.compile' and isinstance(node.targets[0], ast.Name):
            res[node.targets[0].id] = ast.literal_eval(node.value.args[0])
    return res


def table_jira():
    jmod = importlib.import_module('bert_e.workflow.gitwaterflow.jira')
    gwf = importlib.import_module('bert_e.workflow.gitwaterflow')
    br = importlib.import_module('bert_e.workflow.gitwaterflow.branches')
    utils = importlib.import_module('bert_e.workflow.gitwaterflow.utils')
    exc = importlib.import_module('bert_e.exceptions')

    # --- allow_ticketless_pr of every class that can be a destination
    ticketless = []
    for name, cls in sorted(vars(br).items()):
        if inspect.isclass(cls) and issubclass(cls, br.GWFBranch) and cls.can_be_destination:
            ticketless.append((name, bool(cls.allow_ticketless_pr)))
    if not ticketless:
        raise ExtractError('branches: no destination class found')

    # --- the steps of jira_checks, in source order
    fn = func_ast(jmod, 'jira_checks')
    steps = []
    for st in fn.body:
        if isinstance(st, ast.Expr) and isinstance(st.value, ast.Constant):
            continue                                            # docstring
        if isinstance(st, ast.If) and len(st.body) >= 1 and isinstance(st.body[-1], ast.Return) \
                and not st.orelse:
            steps.append('return-if ' + ast.unparse(st.test))
        elif isinstance(st, ast.If) and not st.orelse and len(st.body) == 1 \
                and isinstance(st.body[0], ast.Expr) and isinstance(st.body[0].value, ast.Call):
            steps.append('if %s: %s' % (ast.unparse(st.test), _callee(st.body[0].value)))
        elif isinstance(st, ast.Assign) and isinstance(st.value, ast.Call):
            steps.append('%s = %s' % (ast.unparse(st.targets[0]), _callee(st.value)))
        elif isinstance(st, ast.Expr) and isinstance(st.value, ast.Call):
            steps.append(_callee(st.value))
        else:
            raise ExtractError('jira_checks: unexpected statement %s' % ast.unparse(st)[:80])

    # --- regex literals of check_fix_versions
    rx = _regex_literals(func_ast(jmod, 'check_fix_versions'))
    if 'vfilter' not in rx or 'hf_filter' not in rx:
        raise ExtractError('check_fix_versions: vfilter / hf_filter not found')

    # --- exception classes raised in the module (name, code, template, kind)
    with open(inspect.getsourcefile(jmod)) as fh:
        tree = ast.parse(fh.read())
    raised = []
    for node in ast.walk(tree):
        if isinstance(node, ast.Raise) and node.exc is not None and isinstance(node.exc, ast.Call):
            name = _callee(node.exc).split('.')[-1]
            cls = getattr(exc, name, None)
            if cls is None:
                raise ExtractError('jira.py raises unknown class %s' % name)
            row = (name, int(cls.code), getattr(cls, 'template', None) or '')
            if row not in raised:
                raised.append(row)
    raised.sort(key=lambda r: r[1])

    # --- ordered calls of _handle_pull_request: (index of the top-level statement, callee,
    #     the statement is the bare call `f(...)` executed unconditionally)
    hfn = func_ast(gwf, '_handle_pull_request')
    calls = []
    for idx, st in enumerate(hfn.body):
        bare = isinstance(st, ast.Expr) and isinstance(st.value, ast.Call)
        found = [n for n in ast.walk(st) if isinstance(n, ast.Call)]
        found.sort(key=lambda n: (n.lineno, n.col_offset))
        for n in found:
            name = _callee(n)
            if name:
                calls.append((idx, name, bool(bare and n is st.value)))
    if not any(c[1] == 'jira_checks' for c in calls):
        raise ExtractError('_handle_pull_request: no call of jira_checks')

    bsrc = ast.unparse(func_ast(utils, 'bypass_jira_check').body[-1])

    src = header('Jira', ['bert_e/workflow/gitwaterflow/jira.py', 'bert_e/workflow/gitwaterflow/branches.py',
                          'bert_e/workflow/gitwaterflow/__init__.py:_handle_pull_request',
                          'bert_e/workflow/gitwaterflow/utils.py:bypass_jira_check', 'bert_e/exceptions.py'])
    src += '/-- (destination branch class, `allow_ticketless_pr`) -/\n'
    src += 'def ticketless : List (String × Bool) := [%s]\n\n' % ', '.join(
        '(%s, %s)' % (lstr(n), lbool(b)) for n, b in ticketless)
    src += '/-- the statements of `jira_checks`, in source order -/\n'
    src += 'def steps : List String := ' + llist(lstr(s) for s in steps) + '\n\n'
    src += '/-- `vfilter` of check_fix_versions -/\n'
    src += 'def vfilter : String := %s\n\n' % lstr(rx['vfilter'])
    src += '/-- `hf_filter` of check_fix_versions -/\n'
    src += 'def hfFilter : String := %s\n\n' % lstr(rx['hf_filter'])
    src += '/-- `FeatureBranch.jira_issue_pattern` -/\n'
    src += 'def issuePattern : String := %s\n\n' % lstr(br.FeatureBranch.jira_issue_pattern)
    src += '/-- `FeatureBranch.pattern` -/\n'
    src += 'def featurePattern : String := %s\n\n' % lstr(br.FeatureBranch.pattern)
    src += '/-- `FeatureBranch.all_prefixes` -/\n'
    src += 'def featurePrefixes : List String := [%s]\n\n' % ', '.join(
        lstr(p) for p in br.FeatureBranch.all_prefixes)
    src += '/-- classes raised in gitwaterflow/jira.py: (name, code, template file) -/\n'
    src += 'def raised : List (String × Int × String) := ' + llist(
        '(%s, %d, %s)' % (lstr(n), c, lstr(t)) for n, c, t in raised) + '\n\n'
    src += '/-- body of `bypass_jira_check` -/\n'
    src += 'def bypassExpr : String := %s\n\n' % lstr(bsrc)
    src += ('/-- a call in the body of `_handle_pull_request`: index of the enclosing top-level statement, first\n'
            '    component of the dotted callee, the dotted callee, the statement is exactly this call -/\n'
            'structure Call where\n  stmt : Nat\n  root : String\n  name : String\n  bare : Bool\n'
            '  deriving Repr, DecidableEq\n\n')
    src += '/-- every call in the body of `_handle_pull_request`, in source order -/\n'
    src += 'def handlePrCalls : List Call := ' + llist(
        '⟨%d, %s, %s, %s⟩' % (i, lstr(n.split('.')[0]), lstr(n), lbool(b)) for i, n, b in calls) + '\n'
    src += footer('Jira')
    return 'Jira', src, {'ticketless': ticketless, 'steps': steps, 'vfilter': rx['vfilter'],
                         'hfFilter': rx['hf_filter'], 'raised': [r[0] for r in raised],
                         'handlePrCalls': len(calls)}


TABLES = {
    'Jira': table_jira,
}
