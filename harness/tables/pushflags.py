"""Table for C02 (and C08): how Bert-E pushes. Extracted from the AST of the current source:

* every `git push ...` command template of the package (bert_e/lib/git.py `Repository.push`,
  `Repository.push_all`, jobs/delete_branch.py), split into words;
* the dispatch of `workflow.git_utils.push`: an explicit branch list goes to `repo.push`, `branches is None`
  goes to `repo.push_all(prune=prune)`;
* where the two merge paths publish: `merge_integration_branches` and `handle_merge_queues` call
  `push(<repo>, prune=True)` WITHOUT a branch list (hence `push_all`), after their last merge call and with
  no other push before it;
* `BertE.process` resets the working clone (`self.git_repo.reset()`) before it dispatches the job.
"""
import ast
import importlib
import os

from .. import common
from ..extract_tables import ExtractError, func_ast, header, footer, lstr, lbool, llist


def _str_template(node):
    """The constant text of a command expression: 'lit', 'lit' % x, 'lit' + x, f-strings -> words, with
    `%s` standing for every non-constant part. None when the expression has no string constant."""
    if isinstance(node, ast.Constant) and isinstance(node.value, str):
        return node.value
    if isinstance(node, ast.BinOp) and isinstance(node.op, ast.Mod):
        return _str_template(node.left)
    if isinstance(node, ast.BinOp) and isinstance(node.op, ast.Add):
        l, r = _str_template(node.left), _str_template(node.right)
        return (l if l is not None else '%s') + (r if r is not None else '%s') \
            if (l is not None or r is not None) else None
    if isinstance(node, ast.JoinedStr):
        out = ''
        for v in node.values:
            out += v.value if isinstance(v, ast.Constant) else '%s'
        return out
    return None


def _push_templates():
    """every string constant of the package (tests excluded) that is a `git push` command"""
    rows = []
    root = os.path.join(common.REPO, 'bert_e')
    for dirpath, dirnames, names in os.walk(root):
        dirnames[:] = sorted(d for d in dirnames if d not in ('tests', '__pycache__', 'docs'))
        for n in sorted(names):
            if not n.endswith('.py'):
                continue
            path = os.path.join(dirpath, n)
            with open(path) as fh:
                tree = ast.parse(fh.read(), path)
            funcs = []

            def visit(node, qual):
                for child in ast.iter_child_nodes(node):
                    if isinstance(child, (ast.FunctionDef, ast.ClassDef, ast.AsyncFunctionDef)):
                        visit(child, qual + [child.name])
                    else:
                        visit(child, qual)
                if isinstance(node, ast.Call):
                    for a in list(node.args) + [k.value for k in node.keywords]:
                        t = _str_template(a)
                        if t is not None and t.split()[:2] == ['git', 'push']:
                            funcs.append(('.'.join(qual), t))
            visit(tree, [])
            for q, t in funcs:
                rows.append((os.path.relpath(path, common.REPO), q, t.split()))
    return rows


def _call_name(call):
    f = call.func
    if isinstance(f, ast.Name):
        return f.id
    if isinstance(f, ast.Attribute):
        return f.attr
    return ''


def _calls_in(stmt):
    return [n for n in ast.walk(stmt) if isinstance(n, ast.Call)]


MERGE_CALLS = {'merge', 'robust_merge', 'consecutive_merge', 'octopus_merge', 'merge_queues'}


def _publish_shape(module, qualname):
    """(positional args, has `branches`, prune literal, nothing merges after it, it is the only push,
    what follows the push)"""
    fn = func_ast(importlib.import_module(module), qualname)
    stmts = fn.body
    pushes = []
    for i, st in enumerate(stmts):
        for c in _calls_in(st):
            if _call_name(c) in ('push', 'push_all') or (_call_name(c) == 'cmd' and any(
                    (_str_template(a) or '').startswith('git push') for a in c.args)):
                pushes.append((i, c, st))
    if not pushes:
        raise ExtractError('%s.%s: no push call found' % (module, qualname))
    i, call, st = pushes[-1]
    toplevel = isinstance(st, ast.Expr) and st.value is call
    kw = {k.arg: k.value for k in call.keywords}
    has_branches = len(call.args) > 1 or 'branches' in kw
    prune = isinstance(kw.get('prune'), ast.Constant) and kw['prune'].value is True
    merges_after = any(_call_name(c) in MERGE_CALLS for s in stmts[i + 1:] for c in _calls_in(s))
    merges_before = any(_call_name(c) in MERGE_CALLS for s in stmts[:i] for c in _calls_in(s))
    after = [type(s).__name__ for s in stmts[i + 1:]]
    return {'func': qualname, 'name': _call_name(call), 'positional': len(call.args),
            'hasBranches': has_branches, 'prune': prune, 'toplevel': toplevel,
            'mergesAfter': merges_after, 'mergesBefore': merges_before, 'pushes': len(pushes), 'after': after}


def _push_dispatch():
    """git_utils.push: `if branches:` -> repo.push ; `elif branches is None:` -> repo.push_all(prune=prune)"""
    fn = func_ast(importlib.import_module('bert_e.workflow.git_utils'), 'push')
    top = [s for s in fn.body if isinstance(s, ast.If)]
    if len(top) != 1:
        raise ExtractError('git_utils.push: expected one if/elif chain')
    node = top[0]

    def run_target(body):
        for c in (c for s in body for c in _calls_in(s)):
            if _call_name(c) == 'run' and c.args:
                kws = {k.arg: ast.unparse(k.value) for k in c.keywords}
                return ast.unparse(c.args[0]), kws
        return None, {}
    list_target, _ = run_target(node.body)
    list_test = ast.unparse(node.test)
    if not (len(node.orelse) == 1 and isinstance(node.orelse[0], ast.If)):
        raise ExtractError('git_utils.push: elif branch not found')
    el = node.orelse[0]
    all_test = ast.unparse(el.test)
    all_target, all_kws = run_target(el.body)
    return {'listTest': list_test, 'listTarget': list_target or '', 'allTest': all_test,
            'allTarget': all_target or '', 'allPrune': all_kws.get('prune', '')}


def _process_reset():
    fn = func_ast(importlib.import_module('bert_e.bert_e'), 'BertE.process')
    calls = []
    for st in fn.body:
        for c in _calls_in(st):
            calls.append(ast.unparse(c.func))
    return calls


def table_pushflags():
    rows = _push_templates()
    if not rows:
        raise ExtractError('no `git push` command template found')
    pa = [r for r in rows if r[1] == 'Repository.push_all']
    if len(pa) != 1:
        raise ExtractError('Repository.push_all: expected exactly one `git push` template, found %d' % len(pa))
    # what the %s of push_all may be replaced with: `prune = '--prune' if prune else ''`
    fn = func_ast(importlib.import_module('bert_e.lib.git'), 'Repository.push_all')
    subst = []
    for node in ast.walk(fn):
        if isinstance(node, ast.IfExp):
            for v in (node.body, node.orelse):
                if isinstance(v, ast.Constant) and isinstance(v.value, str):
                    subst.append(v.value)
                else:
                    raise ExtractError('Repository.push_all: non-constant substitution')
    shapes = [_publish_shape('bert_e.workflow.gitwaterflow.integration', 'merge_integration_branches'),
              _publish_shape('bert_e.workflow.gitwaterflow.queueing', 'handle_merge_queues')]
    disp = _push_dispatch()
    proc = _process_reset()
    src = header('PushFlags', ['bert_e/lib/git.py', 'bert_e/jobs/*.py (every `git push` template)',
                               'bert_e/workflow/git_utils.py:push',
                               'bert_e/workflow/gitwaterflow/integration.py:merge_integration_branches',
                               'bert_e/workflow/gitwaterflow/queueing.py:handle_merge_queues',
                               'bert_e/bert_e.py:BertE.process'])
    src += ('structure PushCmd where\n  file : String\n  func : String\n  words : List String\n'
            '  deriving Repr, DecidableEq\n\n')
    src += '/-- every `git push` command template of the package, split into words (`%s` = a run-time part) -/\n'
    src += 'def pushCmds : List PushCmd := ' + llist(
        '⟨%s, %s, [%s]⟩' % (lstr(f), lstr(q), ', '.join(lstr(w) for w in ws)) for f, q, ws in rows) + '\n\n'
    src += '/-- the template of `Repository.push_all` -/\n'
    src += 'def pushAll : List String := [%s]\n\n' % ', '.join(lstr(w) for w in pa[0][2])
    src += '/-- what its `%s` is replaced with (`--prune` or nothing) -/\n'
    src += 'def pushAllSubst : List String := [%s]\n\n' % ', '.join(lstr(w) for w in subst)
    src += ('/-- the publishing push of a merge path: the LAST push call of the function -/\n'
            'structure Publish where\n  func : String\n  callee : String\n  positional : Nat\n'
            '  hasBranches : Bool\n  prune : Bool\n  toplevel : Bool\n  mergesBefore : Bool\n'
            '  mergesAfter : Bool\n  pushes : Nat\n  deriving Repr, DecidableEq\n\n')
    src += 'def publishes : List Publish := ' + llist(
        '⟨%s, %s, %d, %s, %s, %s, %s, %s, %d⟩' % (
            lstr(s['func']), lstr(s['name']), s['positional'], lbool(s['hasBranches']), lbool(s['prune']),
            lbool(s['toplevel']), lbool(s['mergesBefore']), lbool(s['mergesAfter']), s['pushes'])
        for s in shapes) + '\n\n'
    src += '/-- `git_utils.push`: test and callee of the branch-list case and of the push-everything case -/\n'
    src += 'def dispatchListTest : String := %s\n' % lstr(disp['listTest'])
    src += 'def dispatchListTarget : String := %s\n' % lstr(disp['listTarget'])
    src += 'def dispatchAllTest : String := %s\n' % lstr(disp['allTest'])
    src += 'def dispatchAllTarget : String := %s\n' % lstr(disp['allTarget'])
    src += 'def dispatchAllPrune : String := %s\n\n' % lstr(disp['allPrune'])
    src += '/-- the calls of `BertE.process`, in source order -/\n'
    src += 'def processCalls : List String := [%s]\n' % ', '.join(lstr(c) for c in proc)
    src += footer('PushFlags')
    return 'PushFlags', src, {'pushCmds': [(f, q, ' '.join(ws)) for f, q, ws in rows],
                              'pushAllSubst': subst, 'publishes': shapes, 'dispatch': disp,
                              'processCalls': proc}


TABLES = {
    'PushFlags': table_pushflags,
}
