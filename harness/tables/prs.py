"""Tables for C19 (integration pull requests): the description template of a child pull request, the
title format, how a child is looked up / created / declined and how the parent is found again
(`handle_parent_pull_request`, `handle_commit`). Everything is read from the AST of the current source
(or, for the template, from jinja2's own parser) and compared in Lean with what the model implements."""
import ast
import importlib
import os

from ..extract_tables import (ExtractError, func_ast, header, footer, lstr, llist)


def _template_segments(name):
    """jinja2's parse of templates/<name>: a flat list of ('lit', text) / ('var', dotted name)."""
    import jinja2
    from jinja2 import nodes
    loader = importlib.import_module('bert_e.lib.template_loader')
    path = os.path.join(str(loader.TEMPLATE_DIR), name)
    with open(path) as fh:
        source = fh.read()
    tree = jinja2.Environment().parse(source)
    segs = []

    def dotted(n):
        if isinstance(n, nodes.Name):
            return n.name
        if isinstance(n, nodes.Getattr):
            return dotted(n.node) + '.' + n.attr
        raise ExtractError('%s: unexpected expression %r' % (name, n))

    for node in tree.body:
        if not isinstance(node, nodes.Output):
            raise ExtractError('%s: unexpected template statement %r' % (name, node))
        for n in node.nodes:
            if isinstance(n, nodes.TemplateData):
                segs.append(('lit', n.data))
            else:
                segs.append(('var', dotted(n)))
    return segs


class _NoRaiseArgs(ast.NodeTransformer):
    """`raise X(<message, arguments>)` -> `raise X`: the wording of a message is not what the model implements"""

    def visit_Raise(self, node):
        if isinstance(node.exc, ast.Call):
            node = ast.Raise(exc=node.exc.func, cause=node.cause)
        return node


def _text(node):
    import copy
    return ast.unparse(ast.fix_missing_locations(_NoRaiseArgs().visit(copy.deepcopy(node))))


def _one(nodes_, what):
    nodes_ = list(nodes_)
    if len(nodes_) != 1:
        raise ExtractError('%s: expected exactly one, found %d' % (what, len(nodes_)))
    return nodes_[0]


def table_prs():
    branches = importlib.import_module('bert_e.workflow.gitwaterflow.branches')
    gwf = importlib.import_module('bert_e.workflow.gitwaterflow')
    integ = importlib.import_module('bert_e.workflow.gitwaterflow.integration')

    # --- IntegrationBranch.get_or_create_pull_request -------------------------------------------
    fn = func_ast(branches, 'IntegrationBranch.get_or_create_pull_request')
    title = _one((n for n in ast.walk(fn) if isinstance(n, ast.Assign)
                  and getattr(n.targets[0], 'id', None) == 'title'), 'get_or_create_pull_request: title = ...')
    if not (isinstance(title.value, ast.BinOp) and isinstance(title.value.op, ast.Mod)
            and isinstance(title.value.left, ast.Constant) and isinstance(title.value.right, ast.Tuple)):
        raise ExtractError('get_or_create_pull_request: title is not `<literal> % (...)`')
    title_fmt = title.value.left.value
    title_args = [ast.unparse(e) for e in title.value.right.elts]
    lookup = _one((n for n in fn.body if isinstance(n, ast.Assign)
                   and getattr(n.targets[0], 'id', None) == 'pr'), 'get_or_create_pull_request: pr = <lookup>')
    lookup_call = ast.unparse(lookup.value)
    create = _one((n for n in ast.walk(fn) if isinstance(n, ast.Call) and isinstance(n.func, ast.Attribute)
                   and n.func.attr == 'create_pull_request'), 'get_or_create_pull_request: create_pull_request call')
    create_kw = sorted((k.arg, ast.unparse(k.value)) for k in create.keywords)
    # the `if` statements of the function body that enclose the creation
    guards = []
    for st in fn.body:
        if isinstance(st, ast.If) and any(n is create for n in ast.walk(st)):
            if any(n is create for s in st.orelse for n in ast.walk(s)):
                guards.append('else of ' + ast.unparse(st.test))
            else:
                guards.append(ast.unparse(st.test))
        elif any(n is create for n in ast.walk(st)):
            guards.append('<unguarded>')
    # order of lookup and creation in the body
    pos_lookup = fn.body.index(lookup)
    pos_create = [i for i, st in enumerate(fn.body) if any(n is create for n in ast.walk(st))][0]
    render = _one((n for n in ast.walk(fn) if isinstance(n, ast.Call) and getattr(n.func, 'id', None) == 'render'),
                  'get_or_create_pull_request: render(...)')
    template_name = ast.literal_eval(render.args[0])
    render_kw = sorted((k.arg, ast.unparse(k.value)) for k in render.keywords)
    ret = _one((n for n in fn.body if isinstance(n, ast.Return)), 'get_or_create_pull_request: return')
    ghost = func_ast(branches, 'GhostIntegrationBranch.get_or_create_pull_request')
    ghost_body = '; '.join(ast.unparse(s) for s in ghost.body)

    # --- IntegrationBranch.get_pull_request_from_list --------------------------------------------
    fn = func_ast(branches, 'IntegrationBranch.get_pull_request_from_list')
    loop = _one((n for n in fn.body if isinstance(n, ast.For)), 'get_pull_request_from_list: for')
    skips, found = [], None
    for st in loop.body:
        if isinstance(st, ast.If) and len(st.body) == 1 and isinstance(st.body[0], ast.Continue) and not st.orelse:
            skips.append(ast.unparse(st.test))
        elif isinstance(st, ast.Return):
            found = ast.unparse(st)
        else:
            raise ExtractError('get_pull_request_from_list: unexpected statement %s' % ast.unparse(st))
    if len(fn.body) != 1 or found is None:
        raise ExtractError('get_pull_request_from_list: unexpected shape')
    lookup_loop = 'for %s in %s' % (ast.unparse(loop.target), ast.unparse(loop.iter))

    # --- create_integration_pull_requests ---------------------------------------------------------
    fn = func_ast(integ, 'create_integration_pull_requests')
    first = fn.body[1] if isinstance(fn.body[0], ast.Expr) else fn.body[0]
    if not (isinstance(first, ast.If) and len(first.body) == 1 and isinstance(first.body[0], ast.Return)):
        raise ExtractError('create_integration_pull_requests: first statement is not `if ...: return []`')
    disabled = ast.unparse(first.test)
    comp = _one((n for n in ast.walk(fn) if isinstance(n, ast.ListComp)
                 and any(isinstance(c, ast.Call) and getattr(c.func, 'attr', None) == 'get_pull_requests'
                         for c in ast.walk(n))), 'create_integration_pull_requests: open_prs comprehension')
    open_query = ast.unparse(comp.generators[0].iter)
    open_filter = [ast.unparse(c) for c in comp.generators[0].ifs]
    loop = _one((n for n in fn.body if isinstance(n, ast.For)), 'create_integration_pull_requests: for')
    create_loop = ['for %s in %s' % (ast.unparse(loop.target), ast.unparse(loop.iter))] + \
        [ast.unparse(s) for s in loop.body]
    names_stmt = _one((n for n in fn.body if isinstance(n, ast.Assign)
                       and getattr(n.targets[0], 'id', None) == 'wbranch_names'),
                      'create_integration_pull_requests: wbranch_names')

    # --- handle_pull_request / handle_parent_pull_request / handle_commit ------------------------
    fn = func_ast(gwf, 'handle_pull_request')
    first = fn.body[1] if isinstance(fn.body[0], ast.Expr) else fn.body[0]
    if not (isinstance(first, ast.If) and len(first.body) == 1 and isinstance(first.body[0], ast.Return)):
        raise ExtractError('handle_pull_request: first statement is not `if ...: return ...`')
    robot_test = ast.unparse(first.test)
    robot_then = ast.unparse(first.body[0])
    fn = func_ast(gwf, 'handle_parent_pull_request')
    branch = _one((n for n in fn.body if isinstance(n, ast.If)), 'handle_parent_pull_request: if is_child')
    parent_steps = [ast.unparse(branch.test)] + [_text(s) for s in branch.body]
    parent_return = ast.unparse(_one((n for n in fn.body if isinstance(n, ast.Return)),
                                     'handle_parent_pull_request: return'))
    fn = func_ast(gwf, 'handle_commit')
    body = fn.body[1:] if isinstance(fn.body[0], ast.Expr) else fn.body
    commit_steps = [_text(s) for s in body]

    # --- handle_declined_pull_request --------------------------------------------------------------
    fn = func_ast(gwf, 'handle_declined_pull_request')
    names = _one((n for n in fn.body if isinstance(n, ast.Assign)
                  and getattr(n.targets[0], 'id', None) == 'wbranch_names'),
                 'handle_declined_pull_request: wbranch_names')
    declined_names = ast.unparse(names.value)
    query = _one((n for n in fn.body if isinstance(n, ast.Assign)
                  and getattr(n.targets[0], 'id', None) == 'open_prs'), 'handle_declined_pull_request: open_prs')
    declined_query = ast.unparse(query.value)
    loop = _one((n for n in fn.body if isinstance(n, ast.For)), 'handle_declined_pull_request: for')
    declined_loop = ['for %s in %s' % (ast.unparse(loop.target), ast.unparse(loop.iter))] + \
        [ast.unparse(s) for s in loop.body]

    # --- merge_integration_branches: the integration branches are removed before the final push --
    fn = func_ast(integ, 'merge_integration_branches')
    merge_tail = [ast.unparse(s) for s in fn.body[-2:]]

    segs = _template_segments(template_name)
    # does the exception that `handle_parent_pull_request` raises for a description without number exist?
    raised = [n for n in ast.walk(branch) if isinstance(n, ast.Raise)]
    exc_name = None
    if len(raised) == 1:
        e = raised[0].exc.func if isinstance(raised[0].exc, ast.Call) else raised[0].exc
        exc_name = ast.unparse(e)
    if exc_name is None or not exc_name.startswith('messages.'):
        raise ExtractError('handle_parent_pull_request: expected one `raise messages.<X>(...)`')
    exc_defined = hasattr(importlib.import_module('bert_e.exceptions'), exc_name.split('.', 1)[1])

    src = header('Prs', ['bert_e/workflow/gitwaterflow/branches.py (IntegrationBranch)',
                         'integration.py (create_integration_pull_requests, merge_integration_branches)',
                         '__init__.py (handle_pull_request, handle_parent_pull_request, handle_commit, '
                         'handle_declined_pull_request)', 'templates/' + template_name])

    def sdef(name, doc, value):
        return '/-- %s -/\ndef %s : String := %s\n\n' % (doc, name, lstr(value))

    def ldef(name, doc, values):
        return '/-- %s -/\ndef %s : List String := %s\n\n' % (doc, name, llist(lstr(v) for v in values))

    def pdef(name, doc, pairs):
        return '/-- %s -/\ndef %s : List (String × String) := %s\n\n' % (
            doc, name, llist('(%s, %s)' % (lstr(a), lstr(b)) for a, b in pairs))

    src += pdef('descriptionTemplate', 'jinja2 parse of the description template: ("lit", text) / ("var", name); '
                'the trailing newline of the file is not part of a rendering', segs)
    src += sdef('templateName', 'first argument of `render(...)` in `get_or_create_pull_request`', template_name)
    src += pdef('renderArgs', 'keyword arguments of that `render(...)`', render_kw)
    src += sdef('titleFormat', '`title = <this> % (...)`', title_fmt)
    src += ldef('titleArgs', 'the tuple of that `%`', title_args)
    src += sdef('lookupCall', '`pr = <this>` of `get_or_create_pull_request`', lookup_call)
    src += ldef('createGuards', 'tests of the `if` statements around the `create_pull_request` call', guards)
    src += ('/-- the lookup statement comes before the statement that creates -/\n'
            'def lookupBeforeCreate : Bool := %s\n\n' % ('true' if pos_lookup < pos_create else 'false'))
    src += pdef('createArgs', 'keyword arguments of the `create_pull_request` call', create_kw)
    src += sdef('createReturn', 'the `return` of `get_or_create_pull_request`', ast.unparse(ret))
    src += sdef('ghostBody', 'body of `GhostIntegrationBranch.get_or_create_pull_request`', ghost_body)
    src += sdef('lookupLoop', 'loop header of `get_pull_request_from_list`', lookup_loop)
    src += ldef('lookupSkips', 'tests of the `continue`s of `get_pull_request_from_list`, in order', skips)
    src += sdef('lookupFound', 'what follows the `continue`s', found)
    src += sdef('disabledTest', 'test of the early `return []` of `create_integration_pull_requests`', disabled)
    src += sdef('createNames', 'the names the open pull requests are fetched for', ast.unparse(names_stmt.value))
    src += sdef('openQuery', 'what `open_prs` iterates over', open_query)
    src += ldef('openFilter', 'the filter of that comprehension', open_filter)
    src += ldef('createLoop', 'the loop of `create_integration_pull_requests`', create_loop)
    src += sdef('robotTest', 'test of the first statement of `handle_pull_request`', robot_test)
    src += sdef('robotThen', 'what it does then', robot_then)
    src += ldef('parentSteps', '`if is_child:` branch of `handle_parent_pull_request`: test, then its statements',
                parent_steps)
    src += sdef('noParentException', 'what is raised when the description has no number', exc_name)
    src += ('/-- is that name defined in bert_e/exceptions.py? (if not, raising it is an AttributeError) -/\n'
            'def noParentExceptionDefined : Bool := %s\n\n' % ('true' if exc_defined else 'false'))
    src += sdef('parentReturn', 'the `return` of `handle_parent_pull_request`', parent_return)
    src += ldef('commitSteps', 'statements of `handle_commit`', commit_steps)
    src += sdef('declinedNames', '`wbranch_names` of `handle_declined_pull_request`', declined_names)
    src += sdef('declinedQuery', '`open_prs` of `handle_declined_pull_request`', declined_query)
    src += ldef('declinedLoop', 'the loop of `handle_declined_pull_request`', declined_loop)
    src += ldef('mergeTail', 'the last two statements of `merge_integration_branches`', merge_tail)
    src = src.rstrip('\n') + '\n'
    src += footer('Prs')
    return 'Prs', src, {'template': template_name, 'segments': len(segs), 'titleFormat': title_fmt,
                        'titleArgs': title_args, 'createGuards': guards, 'openFilter': open_filter,
                        'parentSteps': parent_steps, 'noParentException': [exc_name, exc_defined]}


TABLES = {
    'Prs': table_prs,
}
