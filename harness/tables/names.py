"""Tables for C18 (branch names): factory order, per-class pattern text and flags, feature
prefixes, Jira key pattern, and the format strings that build the robot's branch names."""
import ast
import importlib

from ..extract_tables import (ExtractError, func_ast, header, footer, lstr, lbool, llist)

FLAGS = ('cascade_producer', 'cascade_consumer', 'can_be_destination', 'allow_ticketless_pr')

# functions that build a robot branch name with `<literal>.format(...)` and hand it to branch_factory
NAME_BUILDERS = [
    ('bert_e.workflow.gitwaterflow.integration', 'get_integration_branches'),
    ('bert_e.workflow.gitwaterflow.integration', 'create_integration_branches'),
    ('bert_e.workflow.gitwaterflow.queueing', 'get_queue_branch'),
    ('bert_e.workflow.gitwaterflow.queueing', 'get_queue_integration_branch'),
]


def factory_order(branches):
    """Class names of the list literal `for cls in [...]` of branch_factory (AST)."""
    fn = func_ast(branches, 'branch_factory')
    for node in ast.walk(fn):
        if isinstance(node, ast.For) and getattr(node.target, 'id', None) == 'cls' \
                and isinstance(node.iter, (ast.List, ast.Tuple)):
            names = []
            for e in node.iter.elts:
                if not isinstance(e, ast.Name):
                    raise ExtractError('branch_factory: unexpected element %s' % ast.dump(e))
                names.append(e.id)
            # the loop body must be: try: branch = cls(repo, branch_name); return branch
            #                        except errors.BranchNameInvalid: pass
            body = node.body
            if not (len(body) == 1 and isinstance(body[0], ast.Try) and len(body[0].handlers) == 1):
                raise ExtractError('branch_factory: loop body is not a single try/except')
            h = body[0].handlers[0]
            htype = ast.unparse(h.type) if h.type is not None else ''
            if not htype.endswith('BranchNameInvalid') or \
                    not (len(h.body) == 1 and isinstance(h.body[0], ast.Pass)):
                raise ExtractError('branch_factory: handler is not `except BranchNameInvalid: pass`')
            return names
    raise ExtractError('branch_factory: `for cls in [...]` not found')


def match_call(branches):
    """How GWFBranch.__init__ applies the pattern: the `re.<fn>(self.pattern, name)` call text."""
    fn = func_ast(branches, 'GWFBranch.__init__')
    for node in ast.walk(fn):
        if isinstance(node, ast.Call) and isinstance(node.func, ast.Attribute) \
                and getattr(node.func.value, 'id', None) == 're':
            return ast.unparse(node)
    raise ExtractError('GWFBranch.__init__: re.<fn>(...) call not found')


def name_formats():
    rows = []
    for modname, fname in NAME_BUILDERS:
        mod = importlib.import_module(modname)
        fn = func_ast(mod, fname)
        found = []
        for node in ast.walk(fn):
            if isinstance(node, ast.Assign) and getattr(node.targets[0], 'id', None) == 'name' \
                    and isinstance(node.value, ast.Call) \
                    and isinstance(node.value.func, ast.Attribute) \
                    and node.value.func.attr == 'format' \
                    and isinstance(node.value.func.value, ast.Constant) \
                    and isinstance(node.value.func.value.value, str):
                if node.value.keywords:
                    raise ExtractError('%s.%s: keyword arguments in format()' % (modname, fname))
                found.append((node.value.func.value.value,
                              [ast.unparse(a) for a in node.value.args]))
        if len(found) != 1:
            raise ExtractError('%s.%s: expected exactly one `name = "...".format(...)`, found %d'
                               % (modname, fname, len(found)))
        rows.append(('%s.%s' % (modname.rsplit('.', 1)[1], fname), found[0][0], found[0][1]))
    return rows


def table_names():
    branches = importlib.import_module('bert_e.workflow.gitwaterflow.branches')
    order = factory_order(branches)
    classes = []
    for name in order:
        cls = getattr(branches, name, None)
        if cls is None or not isinstance(getattr(cls, 'pattern', None), str):
            raise ExtractError('branches.%s: no such class / no pattern' % name)
        classes.append((name, cls.pattern, [bool(getattr(cls, f)) for f in FLAGS],
                        [b.__name__ for b in cls.__mro__[1:-1]]))
    fb = branches.FeatureBranch
    prefixes = list(fb.all_prefixes)
    jira = fb.jira_issue_pattern
    formats = name_formats()
    how = match_call(branches)
    src = header('Names', ['bert_e/workflow/gitwaterflow/branches.py (branch_factory, GWFBranch subclasses)',
                           'integration.py / queueing.py (name construction)'])
    src += ('structure ClassRow where\n  name : String\n  pattern : String\n  cascadeProducer : Bool\n'
            '  cascadeConsumer : Bool\n  canBeDestination : Bool\n  allowTicketlessPr : Bool\n'
            '  deriving Repr, DecidableEq\n\n')
    src += 'structure NameFormat where\n  site : String\n  fmt : String\n  args : List String\n  deriving Repr, DecidableEq\n\n'
    src += '/-- the list literal of `branch_factory`, in order -/\n'
    src += 'def factoryOrder : List String := [%s]\n\n' % ', '.join(lstr(n) for n in order)
    src += '/-- pattern text and class flags of every class of the factory (introspection) -/\n'
    src += 'def classes : List ClassRow := ' + llist(
        '⟨%s, %s, %s⟩' % (lstr(n), lstr(p), ', '.join(lbool(f) for f in fl))
        for n, p, fl, _ in classes) + '\n\n'
    src += '/-- `FeatureBranch.all_prefixes` -/\n'
    src += 'def allPrefixes : List String := [%s]\n\n' % ', '.join(lstr(p) for p in prefixes)
    src += '/-- `FeatureBranch.jira_issue_pattern` -/\n'
    src += 'def jiraIssuePattern : String := %s\n\n' % lstr(jira)
    src += '/-- how `GWFBranch.__init__` applies the pattern -/\n'
    src += 'def matchCall : String := %s\n\n' % lstr(how)
    src += '/-- `name = "<fmt>".format(<args>)` of the functions that build robot branch names -/\n'
    src += 'def nameFormats : List NameFormat := ' + llist(
        '⟨%s, %s, [%s]⟩' % (lstr(s), lstr(f), ', '.join(lstr(a) for a in args))
        for s, f, args in formats) + '\n'
    src += footer('Names')
    return 'Names', src, {'factoryOrder': order, 'allPrefixes': prefixes, 'jiraIssuePattern': jira,
                          'patterns': {n: p for n, p, _, _ in classes},
                          'flags': {n: dict(zip(FLAGS, fl)) for n, _, fl, _ in classes},
                          'nameFormats': [[s, f, a] for s, f, a in formats], 'matchCall': how}


TABLES = {
    'Names': table_names,
}
