"""Tables for C07 (comment options): the option/command registry of the Reactor as the running
program builds it, the bypass helpers of gitwaterflow/utils.py, and whether the message that
`handle_comments` builds for a `TypeError` renders."""
import ast
import importlib
import inspect

from ..extract_tables import (ExtractError, func_ast, header, footer, lstr, lbool, llist, lopt)


class _Sent:
    """Marks a default that `setup(defaults)` took from `defaults` (i.e. from the command line)."""

    def __init__(self, key):
        self.key = key


class _Probe(dict):
    def __init__(self):
        super().__init__()
        self.asked = {}

    def get(self, key, default=None):
        self.asked[key] = default
        return _Sent(key)


def lval(v):
    if v is None:
        return '.none'
    if v is True or v is False:
        return '(.bool %s)' % lbool(v)
    if isinstance(v, str):
        return '(.str %s)' % lstr(v)
    if isinstance(v, (set, frozenset)) and all(isinstance(x, str) for x in v):
        return '(.set [%s])' % ', '.join(lstr(x) for x in sorted(v))
    raise ExtractError('option default %r: unsupported kind' % (v,))


def handler_kind(key, opt, commands_mod):
    """Which code runs when the option is named in a comment."""
    h = opt.handler
    qn = getattr(h, '__qualname__', '')
    if qn == 'Reactor.add_option.<locals>.set_option':
        cells = [c.cell_contents for c in (h.__closure__ or ())]
        if cells != [key]:
            raise ExtractError('option %s: set_option closes over %r' % (key, cells))
        return '.setOpt'
    if h is getattr(commands_mod, 'after_pull_request', None):
        return '.afterPR'
    return '(.other %s)' % lstr(qn)


def arity(fn):
    """(min, max) number of positional arguments after `job`; max None = *args."""
    sig = inspect.signature(fn)
    params = list(sig.parameters.values())[1:]
    lo, hi = 0, 0
    for p in params:
        if p.kind in (p.POSITIONAL_ONLY, p.POSITIONAL_OR_KEYWORD):
            hi += 1
            if p.default is p.empty:
                lo += 1
        elif p.kind == p.VAR_POSITIONAL:
            hi = None
            break
        elif p.kind == p.KEYWORD_ONLY and p.default is p.empty:
            raise ExtractError('command handler %s: required keyword-only argument' % fn.__name__)
    return lo, hi


def registry_rows(defaults=None):
    """The registry as `BertE.__init__` builds it: import of the workflow module (decorators) and
    `setup(defaults)`. Returns (options, commands) as lists of tuples in registration order."""
    gwf = importlib.import_module('bert_e.workflow.gitwaterflow')
    commands_mod = importlib.import_module('bert_e.workflow.gitwaterflow.commands')
    from bert_e.reactor import Reactor
    # which defaults come from the command line
    probe = _Probe()
    gwf.setup(probe)
    from_cmdline = {}
    for key, opt in Reactor.get_options().items():
        if isinstance(opt.default, _Sent):
            if opt.default.key != key:
                raise ExtractError('option %s takes its default from defaults[%r]' % (key, opt.default.key))
            from_cmdline[key] = probe.asked[key]
    gwf.setup(dict(defaults or {}))
    options = []
    for key, opt in Reactor.get_options().items():
        if key in from_cmdline and not (defaults or {}) and opt.default != from_cmdline[key]:
            raise ExtractError('option %s: default differs between two calls of setup' % key)
        options.append((key, bool(opt.privileged), bool(opt.authored), opt.default,
                        handler_kind(key, opt, commands_mod), key in from_cmdline))
    commands = []
    for key, cmd in Reactor.get_commands().items():
        lo, hi = arity(cmd.handler)
        if cmd.authored:
            raise ExtractError('command %s is authored: handle_commands has no such check' % key)
        commands.append((key, bool(cmd.privileged), lo, hi))
    return options, commands


def bypass_helpers():
    """`def bypass_X(job): return job.settings.K1 or job.author_bypass.get('K2', False)` -> (X, K1, K2)."""
    utils = importlib.import_module('bert_e.workflow.gitwaterflow.utils')
    rows = []
    for name, fn in sorted(vars(utils).items()):
        if not (inspect.isfunction(fn) and name.startswith('bypass_') and fn.__module__ == utils.__name__):
            continue
        node = func_ast(utils, name)
        body = [st for st in node.body if not (isinstance(st, ast.Expr) and isinstance(st.value, ast.Constant))]
        ok = len(body) == 1 and isinstance(body[0], ast.Return) and isinstance(body[0].value, ast.BoolOp) \
            and isinstance(body[0].value.op, ast.Or) and len(body[0].value.values) == 2
        if not ok:
            raise ExtractError('%s: body is not `return a or b`' % name)
        a, b = body[0].value.values
        if not (isinstance(a, ast.Attribute) and ast.unparse(a.value) == 'job.settings'):
            raise ExtractError('%s: first operand is not job.settings.<key>' % name)
        if not (isinstance(b, ast.Call) and ast.unparse(b.func) == 'job.author_bypass.get'
                and len(b.args) == 2 and isinstance(b.args[0], ast.Constant)
                and isinstance(b.args[1], ast.Constant) and b.args[1].value is False):
            raise ExtractError("%s: second operand is not job.author_bypass.get('<key>', False)" % name)
        rows.append((name, a.attr, b.args[0].value))
    return rows


def syntax_message_renders():
    """`handle_comments` answers a TypeError of an option handler with
    `IncorrectCommandSyntax(extra_message=..., active_options=...)`: does that message render?"""
    gwf = importlib.import_module('bert_e.workflow.gitwaterflow')
    fn = func_ast(gwf, 'handle_comments')
    call = None
    for node in ast.walk(fn):
        if isinstance(node, ast.ExceptHandler) and node.type is not None \
                and ast.unparse(node.type) == 'TypeError':
            for st in node.body:
                if isinstance(st, ast.Raise) and isinstance(st.exc, ast.Call):
                    call = st.exc
    if call is None:
        raise ExtractError('handle_comments: `except TypeError: raise ...` not found')
    cls = ast.unparse(call.func).split('.')[-1]
    kw = sorted(k.arg for k in call.keywords)
    exc = importlib.import_module('bert_e.exceptions')
    dummy = {k: ('x' if k != 'active_options' else []) for k in kw}
    try:
        getattr(exc, cls)(**dummy)
        return cls, kw, True, ''
    except Exception as e:           # jinja2 UndefinedError with the present template
        return cls, kw, False, type(e).__name__


def table_reactor():
    options, commands = registry_rows()
    helpers = bypass_helpers()
    cls, kw, renders, why = syntax_message_renders()
    src = header('Reactor', ['bert_e/workflow/gitwaterflow/commands.py (Reactor registry after setup({}))',
                             'bert_e/workflow/gitwaterflow/utils.py (bypass_* helpers)',
                             'bert_e/workflow/gitwaterflow/__init__.py:handle_comments (TypeError branch)'])
    src = 'import BertE.Model.Reactor\n' + src
    src += 'open BertE.Reactor\n\n'
    src += '/-- every registered option: name, privileged, authored, default, handler, default taken from the command line -/\n'
    src += 'def options : List OptSpec := ' + llist(
        '⟨%s, %s, %s, %s, %s, %s⟩' % (lstr(n), lbool(p), lbool(a), lval(d), h, lbool(c))
        for n, p, a, d, h, c in options) + '\n\n'
    src += '/-- every registered command: name, privileged, min/max number of arguments its handler accepts -/\n'
    src += 'def commands : List CmdSpec := ' + llist(
        '⟨%s, %s, %d, %s⟩' % (lstr(n), lbool(p), lo, lopt(hi)) for n, p, lo, hi in commands) + '\n\n'
    src += ('/-- the message raised for a `TypeError` of an option handler is `%s(%s)`;\n'
            '    does it render with these arguments? (%s) -/\n' % (cls, ', '.join(kw), why or 'yes'))
    src += 'def syntaxMsgRenders : Bool := %s\n\n' % lbool(renders)
    src += 'def registry : Registry := ⟨options, commands, syntaxMsgRenders⟩\n\n'
    src += '/-- bypass helpers: (function, key read in job.settings, key read in job.author_bypass) -/\n'
    src += 'def bypassHelpers : List (String × String × String) := ' + llist(
        '(%s, %s, %s)' % (lstr(f), lstr(a), lstr(b)) for f, a, b in helpers) + '\n'
    src += footer('Reactor')
    return 'Reactor', src, {'options': [o[0] for o in options], 'commands': [c[0] for c in commands],
                            'privileged': [o[0] for o in options if o[1]],
                            'authored': [o[0] for o in options if o[2]],
                            'bypassHelpers': [h[0] for h in helpers],
                            'syntaxMsgRenders': renders}


TABLES = {
    'Reactor': table_reactor,
}
