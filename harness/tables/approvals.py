"""Tables for C04 (approval gate): the `bypass_*` helpers of utils.py, the per-author bypass list and the
inter-settings validation of settings.py, and what `check_approvals` reads."""
import ast
import importlib

from ..extract_tables import ExtractError, func_ast, header, footer, lstr, lbool


def _bypass_helper(fn):
    """`return (job.settings.<K1> or job.author_bypass.get('<K2>', <default>))` -> (K1, K2, default)"""
    ret = fn.body[-1]
    if not (isinstance(ret, ast.Return) and isinstance(ret.value, ast.BoolOp)
            and isinstance(ret.value.op, ast.Or) and len(ret.value.values) == 2):
        raise ExtractError('%s: not `return a or b`' % fn.name)
    a, b = ret.value.values
    if not (isinstance(a, ast.Attribute) and isinstance(a.value, ast.Attribute)
            and a.value.attr == 'settings' and getattr(a.value.value, 'id', None) == fn.args.args[0].arg):
        raise ExtractError('%s: first operand is not job.settings.<key>' % fn.name)
    if not (isinstance(b, ast.Call) and isinstance(b.func, ast.Attribute) and b.func.attr == 'get'
            and isinstance(b.func.value, ast.Attribute) and b.func.value.attr == 'author_bypass'
            and getattr(b.func.value.value, 'id', None) == fn.args.args[0].arg
            and len(b.args) == 2 and all(isinstance(x, ast.Constant) for x in b.args)):
        raise ExtractError('%s: second operand is not job.author_bypass.get(<key>, <default>)' % fn.name)
    return a.attr, b.args[0].value, repr(b.args[1].value)


def _rule(test):
    """`data['a'] <op> data['b']` or `data['a'] <op> len(data['b'])` -> (a, op, rhs_is_len, b) or None"""
    def key(node):
        if isinstance(node, ast.Subscript) and getattr(node.value, 'id', None) == 'data' \
                and isinstance(node.slice, ast.Constant):
            return node.slice.value
        return None
    if not (isinstance(test, ast.Compare) and len(test.ops) == 1):
        return None
    lhs = key(test.left)
    rhs_node = test.comparators[0]
    rhs_len = False
    if isinstance(rhs_node, ast.Call) and getattr(rhs_node.func, 'id', None) == 'len' and len(rhs_node.args) == 1:
        rhs_len = True
        rhs_node = rhs_node.args[0]
    rhs = key(rhs_node)
    if lhs is None or rhs is None:
        return None
    return lhs, type(test.ops[0]).__name__, rhs_len, rhs


def table_approvals():
    utils = importlib.import_module('bert_e.workflow.gitwaterflow.utils')
    gwf = importlib.import_module('bert_e.workflow.gitwaterflow')
    settings = importlib.import_module('bert_e.settings')

    # every bypass_* helper of utils.py
    helpers = []
    for name in sorted(n for n in vars(utils) if n.startswith('bypass_') and callable(getattr(utils, n))):
        k1, k2, default = _bypass_helper(func_ast(utils, name))
        helpers.append((name, k1, k2, default))
    if not helpers:
        raise ExtractError('utils.py: no bypass_* helper found')

    # what check_approvals reads: job.settings.<attr>, helper calls, pull-request methods
    fn = func_ast(gwf, 'check_approvals')
    reads, calls, prcalls = [], [], []
    for node in ast.walk(fn):
        if isinstance(node, ast.Attribute) and isinstance(node.value, ast.Attribute) \
                and node.value.attr == 'settings' and getattr(node.value.value, 'id', None) == 'job':
            if node.attr not in reads:
                reads.append(node.attr)
        if isinstance(node, ast.Call) and isinstance(node.func, ast.Name) and node.func.id.startswith('bypass_'):
            if node.func.id not in calls:
                calls.append(node.func.id)
        if isinstance(node, ast.Call) and isinstance(node.func, ast.Attribute) \
                and isinstance(node.func.value, ast.Attribute) and node.func.value.attr == 'pull_request':
            if node.func.attr not in prcalls:
                prcalls.append(node.func.attr)
    raised = []
    for node in ast.walk(fn):
        if isinstance(node, ast.Raise) and node.exc is not None:
            f = node.exc.func if isinstance(node.exc, ast.Call) else node.exc
            raised.append(f.attr if isinstance(f, ast.Attribute) else getattr(f, 'id', '?'))

    # per-author bypass list
    bypass_list = list(settings.PrAuthorsOptions.BYPASS_LIST)

    # inter-settings validation
    vfn = func_ast(settings, 'SettingsSchema.validate_inter_settings')
    rules, other = [], 0
    for st in vfn.body:
        if isinstance(st, ast.If):
            r = _rule(st.test)
            if r is not None and any(isinstance(x, ast.Assign) for x in st.body):
                rules.append(r)
            elif not (isinstance(st.test, ast.Name) and st.test.id == 'errors'):
                other += 1
    schema = settings.SettingsSchema()
    defaults = []
    for k in ('need_author_approval', 'required_peer_approvals', 'required_leader_approvals'):
        defaults.append((k, repr(schema.fields[k].load_default)))

    src = header('Approvals', ['bert_e/workflow/gitwaterflow/utils.py:bypass_*',
                               'bert_e/workflow/gitwaterflow/__init__.py:check_approvals',
                               'bert_e/settings.py:PrAuthorsOptions.BYPASS_LIST, SettingsSchema.validate_inter_settings'])
    src += ('/-- `def <helper>(job): return job.settings.<k1> or job.author_bypass.get(<k2>, <default>)`:\n'
            '    (helper, k1, k2, default) -/\n')
    src += 'def bypassHelpers : List (String × String × String × String) := [\n  %s]\n\n' % ',\n  '.join(
        '(%s, %s, %s, %s)' % (lstr(a), lstr(b), lstr(c), lstr(d)) for a, b, c, d in helpers)
    src += '/-- `bypass_*` helpers called by `check_approvals` -/\n'
    src += 'def helpersCalled : List String := [%s]\n\n' % ', '.join(lstr(s) for s in calls)
    src += '/-- `job.settings.<attr>` read by `check_approvals` itself -/\n'
    src += 'def settingsRead : List String := [%s]\n\n' % ', '.join(lstr(s) for s in reads)
    src += '/-- `job.pull_request.<method>()` called by `check_approvals` -/\n'
    src += 'def hostCalls : List String := [%s]\n\n' % ', '.join(lstr(s) for s in prcalls)
    src += '/-- exception classes raised by `check_approvals` -/\n'
    src += 'def raised : List String := [%s]\n\n' % ', '.join(lstr(s) for s in raised)
    src += '/-- `PrAuthorsOptions.BYPASS_LIST`: the keys a per-author setting may carry -/\n'
    src += 'def bypassList : List String := [%s]\n\n' % ', '.join(lstr(s) for s in bypass_list)
    src += ('/-- `validate_inter_settings`: `if data[lhs] <op> [len](data[rhs]): errors[...] = ...` as\n'
            '    (lhs, ast comparison node, rhs is under len(), rhs) -/\n')
    src += 'def interSettingsRules : List (String × String × Bool × String) := [\n  %s]\n\n' % ',\n  '.join(
        '(%s, %s, %s, %s)' % (lstr(a), lstr(b), lbool(c), lstr(d)) for a, b, c, d in rules)
    src += '/-- `if` statements of `validate_inter_settings` the translator does not understand -/\n'
    src += 'def interSettingsOther : Nat := %d\n\n' % other
    src += '/-- schema defaults (python repr) -/\n'
    src += 'def settingsDefaults : List (String × String) := [%s]\n' % ', '.join(
        '(%s, %s)' % (lstr(a), lstr(b)) for a, b in defaults)
    src += footer('Approvals')
    return 'Approvals', src, {'bypassHelpers': helpers, 'helpersCalled': calls, 'settingsRead': reads,
                              'hostCalls': prcalls, 'raised': raised, 'bypassList': bypass_list,
                              'interSettingsRules': rules, 'interSettingsOther': other,
                              'settingsDefaults': defaults}


TABLES = {
    'Approvals': table_approvals,
}
