"""Tables for C14 (HTTP entry points): the endpoint and form classes registered by bert_e.server.api,
what their `validate_endpoint_data` checks, every rule of the url_map of a Flask app built as the
test-suite builds it (MockBertE + setup_server) with the decorator chain actually found around each
view, the status codes of the refusal helpers of auth.py, and the dispatch tables of webhook.py."""
import ast
import importlib
import inspect
import os
import re
import shutil

from ..extract_tables import (ExtractError, func_ast, footer, lstr, lbool, llist, lopt)

ENV = {'WEBHOOK_LOGIN': 'hooklogin', 'WEBHOOK_PWD': 'hookpwd',
       'BERT_E_CLIENT_ID': 'client-id', 'BERT_E_CLIENT_SECRET': 'client-secret'}
SESSION_DIR = '/tmp/bert-e-sessions'       # hard-coded in bert_e/server/session.py


def build_app(session_dir=None):
    """The Flask app as bert_e/tests/test_server.py builds it. Returns (app, bert_e).
    The session files go to `session_dir` (the cache object of the session interface is replaced:
    the directory of the source is shared by everything that runs on this machine)."""
    for k, v in ENV.items():
        os.environ[k] = v
    existed = os.path.isdir(SESSION_DIR)
    tests = importlib.import_module('bert_e.tests.test_server')
    server = importlib.import_module('bert_e.server')
    berte = tests.MockBertE()
    app = server.setup_server(berte)
    if session_dir is not None:
        from cachelib.file import FileSystemCache
        old = app.session_interface.cache
        app.session_interface.cache = FileSystemCache(session_dir, threshold=old._threshold, mode=0o600)
        if not existed:
            # setup_server created it just now (the cache writes its counter file there); no session of
            # this app goes there any more. A directory that was there before is left alone.
            shutil.rmtree(SESSION_DIR, ignore_errors=True)
    return app, berte


# --------------------------------------------------------------------------- validate_endpoint_data

def _const_name(module, node):
    if not isinstance(node, ast.Name) or not isinstance(getattr(module, node.id, None), str):
        raise ExtractError('regexp argument %s is not a module constant' % ast.dump(node))
    return getattr(module, node.id)


def _is_raise_value_error(body):
    if len(body) != 1 or not isinstance(body[0], ast.Raise):
        return False
    exc = body[0].exc
    f = exc.func if isinstance(exc, ast.Call) else exc
    return getattr(f, 'id', None) == 'ValueError'


def _not_re_match(test):
    """`not re.match(X, Y)` -> (X, Y) or None"""
    if isinstance(test, ast.UnaryOp) and isinstance(test.op, ast.Not) and isinstance(test.operand, ast.Call):
        c = test.operand
        if ast.unparse(c.func) == 're.match' and len(c.args) == 2 and not c.keywords:
            return c.args
    return None


def checks_of(cls, base):
    fn = cls.__dict__.get('validate_endpoint_data')
    if fn is None:
        for k in cls.__mro__[1:]:
            if 'validate_endpoint_data' in k.__dict__:
                if k is base:
                    return []
                return checks_of(k, base)
        raise ExtractError('%s: validate_endpoint_data not found' % cls.__name__)
    module = importlib.import_module(cls.__module__)
    node = func_ast(module, cls.__name__ + '.validate_endpoint_data')
    params = [a.arg for a in node.args.args]
    if node.args.vararg or node.args.kwarg or params[-1:] != ['json']:
        raise ExtractError('%s.validate_endpoint_data: unexpected signature' % cls.__name__)
    res = []
    for st in node.body:
        if isinstance(st, ast.Pass) or (isinstance(st, ast.Expr) and isinstance(st.value, ast.Constant)):
            continue
        where = '%s.validate_endpoint_data: statement not understood: %s' % (cls.__name__, ast.unparse(st))
        if not isinstance(st, ast.If) or st.orelse:
            raise ExtractError(where)
        m = _not_re_match(st.test)
        if m is not None and _is_raise_value_error(st.body):
            if not (isinstance(m[1], ast.Name) and m[1].id in params[:-1]):
                raise ExtractError(where)
            res.append(('urlRegex', m[1].id, _const_name(module, m[0])))
            continue
        # if <param> < N: raise ValueError()
        if isinstance(st.test, ast.Compare) and len(st.test.ops) == 1 and _is_raise_value_error(st.body) \
                and isinstance(st.test.left, ast.Name) and st.test.left.id in params[:-1]:
            try:
                n = ast.literal_eval(st.test.comparators[0])
            except ValueError:
                raise ExtractError(where)
            if type(n) is not int:
                raise ExtractError(where)
            if isinstance(st.test.ops[0], ast.Lt):
                res.append(('urlIntLt', st.test.left.id, n))
                continue
            if isinstance(st.test.ops[0], ast.LtE):
                res.append(('urlIntLt', st.test.left.id, n + 1))
                continue
            raise ExtractError(where)
        # if json and 'k' in json: if not re.match(R, json['k']): raise ValueError()
        t = st.test
        if isinstance(t, ast.BoolOp) and isinstance(t.op, ast.And) and len(t.values) == 2 \
                and ast.unparse(t.values[0]) == 'json' and isinstance(t.values[1], ast.Compare) \
                and isinstance(t.values[1].ops[0], ast.In) and ast.unparse(t.values[1].comparators[0]) == 'json' \
                and isinstance(t.values[1].left, ast.Constant) and len(st.body) == 1 \
                and isinstance(st.body[0], ast.If) and not st.body[0].orelse:
            key = t.values[1].left.value
            m = _not_re_match(st.body[0].test)
            if m is not None and _is_raise_value_error(st.body[0].body) \
                    and ast.unparse(m[1]) == 'json[%r]' % key:
                res.append(('jsonRegexIfPresent', key, _const_name(module, m[0])))
                continue
        raise ExtractError(where)
    return res


def lcheck(c):
    if c[0] == 'urlIntLt':
        return '.urlIntLt %s (%d)' % (lstr(c[1]), c[2])
    return '.%s %s %s' % (c[0], lstr(c[1]), lstr(c[2]))


# --------------------------------------------------------------------------- forms

def fields_of(app, form_cls):
    res = []
    with app.test_request_context('/'):
        form = form_cls(meta={'csrf': False})
        for f in form:
            vals = []
            for v in f.validators:
                name = type(v).__name__
                if name == 'DataRequired':
                    vals.append('.dataRequired')
                elif name == 'Regexp':
                    if v.regex.flags & ~re.UNICODE:
                        raise ExtractError('%s.%s: regexp flags %r' % (form_cls.__name__, f.name, v.regex.flags))
                    vals.append('.regexp %s' % lstr(v.regex.pattern))
                elif name == 'NumberRange' and v.max is None and type(v.min) is int:
                    vals.append('.numberMin (%d)' % v.min)
                else:
                    vals.append('.other %s' % lstr(name))
            res.append((f.name, f.type, vals))
    return res


# --------------------------------------------------------------------------- url_map

AUTH_FILE = os.path.join('bert_e', 'server', 'auth.py')


def unwrap(view):
    """Follow the closures that are actually called. Returns (wrappers outermost first, innermost function)."""
    wrappers = []
    f = view
    for _ in range(20):
        code = getattr(f, '__code__', None)
        if code is None or not code.co_filename.endswith(AUTH_FILE):
            break
        cells = dict(zip(code.co_freevars, (c.cell_contents for c in (f.__closure__ or ()))))
        if code.co_qualname == 'requires_auth.<locals>.decorator.<locals>.decorated':
            if type(cells.get('admin')) is not bool:
                raise ExtractError('requires_auth closure: admin=%r' % (cells.get('admin'),))
            wrappers.append('.auth %s' % lbool(cells['admin']))
        elif code.co_qualname == 'requires_basic_auth.<locals>.decorated':
            wrappers.append('.basic')
        else:
            break
        if 'func' not in cells:
            raise ExtractError('%s: no wrapped function in the closure' % code.co_qualname)
        f = cells['func']
    return wrappers, f


def rule_params(rule):
    res = []
    for m in re.finditer(r'<(?:([a-zA-Z_][a-zA-Z0-9_]*)(\(.*?\))?:)?([a-zA-Z_][a-zA-Z0-9_]*)>', rule.rule):
        conv, cargs, name = m.group(1) or 'default', m.group(2), m.group(3)
        if cargs:
            conv += cargs
        if conv == 'default':
            conv = 'string'
        res.append((conv, name))
    if sorted(n for _, n in res) != sorted(set(rule.arguments) - set(rule.defaults or {})):
        raise ExtractError('rule %s: parameters %r vs %r' % (rule.rule, res, rule.arguments))
    return res


def routes_of(app):
    rows = []
    for rule in app.url_map.iter_rules():
        view = app.view_functions[rule.endpoint]
        wrappers, inner = unwrap(view)
        cls = getattr(inner, 'view_class', None)
        name = cls.__name__ if cls is not None else getattr(inner, '__name__', '?')
        module = cls.__module__ if cls is not None else getattr(inner, '__module__', '?')
        methods = sorted(m for m in rule.methods if m not in ('HEAD', 'OPTIONS'))
        rows.append((rule.rule, methods, rule_params(rule), wrappers, module, name))
    rows.sort(key=lambda r: (r[0], r[1]))
    return rows


# --------------------------------------------------------------------------- auth.py

def status_codes():
    auth = importlib.import_module('bert_e.server.auth')
    res = []
    for helper in ('invalid', 'authenticate', 'unauthorized', 'authenticate_basic'):
        fn = func_ast(auth, helper)
        codes = set()
        for node in ast.walk(fn):
            if isinstance(node, ast.Return):
                v = node.value
                if isinstance(v, ast.Tuple) and isinstance(v.elts[-1], ast.Constant):
                    codes.add(v.elts[-1].value)
                elif isinstance(v, ast.Call) and getattr(v.func, 'id', '') == 'Response' and len(v.args) >= 2 \
                        and isinstance(v.args[1], ast.Constant):
                    codes.add(v.args[1].value)
                else:
                    raise ExtractError('auth.%s: return not understood: %s' % (helper, ast.unparse(node)))
        if len(codes) != 1 or type(next(iter(codes))) is not int:
            raise ExtractError('auth.%s: status codes %r' % (helper, codes))
        res.append((helper, codes.pop()))
    return res


def auth_flow():
    """(test, helper called) of the refusals of `requires_auth` and `requires_basic_auth`, in order."""
    auth = importlib.import_module('bert_e.server.auth')
    res = {}
    for deco in ('requires_auth', 'requires_basic_auth'):
        fn = func_ast(auth, deco)
        inner = [n for n in ast.walk(fn) if isinstance(n, ast.FunctionDef) and n.name == 'decorated']
        if len(inner) != 1:
            raise ExtractError('auth.%s: decorated() not found' % deco)
        flow = []
        for st in inner[0].body:
            if isinstance(st, ast.If):
                if len(st.body) != 1 or not isinstance(st.body[0], ast.Return) or st.orelse \
                        or not isinstance(st.body[0].value, ast.Call):
                    raise ExtractError('auth.%s: %s' % (deco, ast.unparse(st)))
                flow.append((ast.unparse(st.test), st.body[0].value.func.id))
            elif isinstance(st, ast.Assign):
                flow.append(('%s = %s' % (ast.unparse(st.targets[0]), ast.unparse(st.value)), ''))
            elif isinstance(st, ast.Return):
                flow.append(('return', ast.unparse(st.value)))
            else:
                raise ExtractError('auth.%s: %s' % (deco, ast.unparse(st)))
        res[deco] = flow
    cb = func_ast(auth, 'check_basic_auth')
    ret = [st for st in cb.body if isinstance(st, ast.Return)]
    if len(ret) != 1:
        raise ExtractError('auth.check_basic_auth: not a single return')
    res['check_basic_auth'] = [(ast.unparse(ret[0].value), '')]
    return res


# --------------------------------------------------------------------------- APIEndpoint.view

def job_call():
    base = importlib.import_module('bert_e.server.api.base')
    fn = func_ast(base, 'APIEndpoint.view')
    calls = [n for n in ast.walk(fn) if isinstance(n, ast.Call) and ast.unparse(n.func) == 'self.job']
    if len(calls) != 1 or calls[0].args:
        raise ExtractError('APIEndpoint.view: the job construction was not found')
    return [(k.arg, ast.unparse(k.value)) for k in calls[0].keywords]


def view_flow():
    """Source order of the steps of APIEndpoint.view that the model follows."""
    base = importlib.import_module('bert_e.server.api.base')
    fn = func_ast(base, 'APIEndpoint.view')
    steps = []
    for st in fn.body:
        if isinstance(st, ast.Expr) and isinstance(st.value, ast.Constant):
            continue
        if isinstance(st, ast.Expr) and ast.unparse(st.value).startswith('LOG.'):
            continue
        if isinstance(st, ast.Try):
            body = '; '.join(ast.unparse(b) for b in st.body)
            hs = '; '.join('except %s: %s' % (ast.unparse(h.type) if h.type else '',
                                              '; '.join(ast.unparse(b) for b in h.body)) for h in st.handlers)
            steps.append('try: %s %s' % (body, hs))
        else:
            steps.append(' '.join(ast.unparse(st).split()))
    return steps


# --------------------------------------------------------------------------- webhook.py

def _status_of_response(node):
    """`Response(x, N)` -> N"""
    if isinstance(node, ast.Call) and getattr(node.func, 'id', '') == 'Response' and len(node.args) == 2 \
            and isinstance(node.args[1], ast.Constant) and type(node.args[1].value) is int:
        return node.args[1].value
    raise ExtractError('webhook: response not understood: %s' % ast.unparse(node))


def hook_route(fn_name):
    wh = importlib.import_module('bert_e.server.webhook')
    fn = func_ast(wh, fn_name)
    assigns = {}
    host_guard = None
    identity = []
    dispatch = []
    refused = set()
    split_event = False
    ignored = accepted = None
    put_seen = False

    def handler_call(st):
        # job = handle_xxx(current_app.bert_e, ...)
        if isinstance(st, ast.Assign) and ast.unparse(st.targets[0]) == 'job' and isinstance(st.value, ast.Call) \
                and isinstance(st.value.func, ast.Name):
            return st.value.func.id
        return None

    for st in fn.body:
        if isinstance(st, ast.Expr):
            src = ast.unparse(st.value)
            if isinstance(st.value, ast.Constant) or src.startswith('LOG.'):
                continue
            if src == 'current_app.bert_e.put_job(job)':
                put_seen = True
                continue
            raise ExtractError('webhook.%s: %s' % (fn_name, src))
        if isinstance(st, ast.Assign):
            tgt = ast.unparse(st.targets[0])
            val = ast.unparse(st.value)
            if tgt == '(entity, event)' or tgt == 'entity, event':
                if val != "request.headers.get('X-Event-Key').split(':')":
                    raise ExtractError('webhook.%s: %s' % (fn_name, val))
                split_event = True
            assigns[tgt] = val
            continue
        if isinstance(st, ast.Return):
            if not put_seen:
                raise ExtractError('webhook.%s: return before put_job' % fn_name)
            accepted = _status_of_response(st.value)
            continue
        if not isinstance(st, ast.If):
            raise ExtractError('webhook.%s: %s' % (fn_name, ast.unparse(st)))
        test = st.test
        src = ast.unparse(test)
        ends_with_return = isinstance(st.body[-1], ast.Return)
        # if current_app.bert_e.settings.repository_host != 'github': return Response(.., 500)
        if isinstance(test, ast.Compare) and isinstance(test.ops[0], ast.NotEq) and ends_with_return \
                and ast.unparse(test.left) == 'current_app.bert_e.settings.repository_host':
            host_guard = ast.literal_eval(test.comparators[0])
            refused.add(_status_of_response(st.body[-1].value))
            continue
        # if <payload value> != current_app.bert_e.project_repo.<attr>: return Response(.., 500)
        if isinstance(test, ast.Compare) and isinstance(test.ops[0], ast.NotEq) and ends_with_return \
                and ast.unparse(test.comparators[0]).startswith('current_app.bert_e.project_repo.'):
            attr = ast.unparse(test.comparators[0]).rsplit('.', 1)[1]
            left = ast.unparse(test.left)
            identity.append((assigns.get(left, left), attr))
            refused.add(_status_of_response(st.body[-1].value))
            continue
        # if not job: / if job is None:  return Response('OK', 200)
        if src in ('not job', 'job is None') and ends_with_return:
            ignored = _status_of_response(st.body[-1].value)
            continue
        # dispatch: if entity == 'x': job = h(...)   /   if event == 'x': ... elif ...
        node = st
        while True:
            t = node.test
            if not (isinstance(t, ast.Compare) and isinstance(t.ops[0], ast.Eq)
                    and ast.unparse(t.left) in ('entity', 'event') and len(node.body) == 1
                    and handler_call(node.body[0])):
                raise ExtractError('webhook.%s: %s' % (fn_name, ast.unparse(node.test)))
            if (ast.unparse(t.left) == 'entity') != split_event:
                raise ExtractError('webhook.%s: dispatch on %s' % (fn_name, ast.unparse(t.left)))
            dispatch.append((ast.literal_eval(t.comparators[0]), handler_call(node.body[0])))
            if len(node.orelse) == 1 and isinstance(node.orelse[0], ast.If):
                node = node.orelse[0]
            elif node.orelse:
                raise ExtractError('webhook.%s: else branch' % fn_name)
            else:
                break
    if len(refused) != 1 or ignored is None or accepted is None:
        raise ExtractError('webhook.%s: statuses %r %r %r' % (fn_name, refused, ignored, accepted))
    if len(set(k for k, _ in dispatch)) != len(dispatch):
        raise ExtractError('webhook.%s: an event is dispatched twice' % fn_name)
    return {'hostGuard': host_guard, 'splitEvent': split_event, 'identity': identity, 'dispatch': dispatch,
            'refused': refused.pop(), 'ignored': ignored, 'accepted': accepted}


def handler_tables(handlers):
    wh = importlib.import_module('bert_e.server.webhook')
    jobs = []
    repo_events = []
    for h in handlers:
        fn = func_ast(wh, h)
        classes = set()
        for node in ast.walk(fn):
            if isinstance(node, ast.Return) and isinstance(node.value, ast.Call) \
                    and isinstance(node.value.func, ast.Name):
                classes.add(node.value.func.id)
        if len(classes) != 1:
            raise ExtractError('webhook.%s: job classes %r' % (h, classes))
        jobs.append((h, classes.pop()))
        if h == 'handle_bitbucket_repo_event':
            first = [st for st in fn.body if isinstance(st, ast.If)]
            t = first[0].test if first else None
            if not (len(first) == 1 and isinstance(t, ast.Compare) and isinstance(t.ops[0], ast.In)
                    and ast.unparse(t.left) == 'event'):
                raise ExtractError('webhook.%s: `if event in [...]` not found' % h)
            repo_events = list(ast.literal_eval(t.comparators[0]))
    return jobs, repo_events


# --------------------------------------------------------------------------- the table

def table_http():
    import tempfile
    api = importlib.import_module('bert_e.server.api')
    base = importlib.import_module('bert_e.server.api.base')
    tmp = tempfile.mkdtemp(prefix='berte-http-table.')
    try:
        app, _ = build_app(tmp)
        endpoints = []
        for cls in api.ENDPOINTS:
            overridden = cls.view is not base.APIEndpoint.view
            job = None if overridden else cls.job.__name__
            checks = [] if overridden else checks_of(cls, base.APIEndpoint)
            endpoints.append((cls.__name__, cls.url_prefix + cls.rule, cls.method, cls.admin, job, checks))
        forms = []
        for cls in api.FORMS:
            forms.append((cls.__name__, cls.url_prefix + '/' + cls.rule, cls.method, cls.admin,
                          cls.endpoint_cls.__name__, fields_of(app, cls.form_cls)))
        routes = routes_of(app)
    finally:
        shutil.rmtree(tmp, ignore_errors=True)
    status = status_codes()
    flow = auth_flow()
    jc = job_call()
    vf = view_flow()
    wh = importlib.import_module('bert_e.server.webhook')
    hook_views = {}
    for r in routes:
        if r[4] == wh.__name__:
            hook_views[r[0]] = r[5]
    hooks = []
    handlers = []
    for rule, fn_name in sorted(hook_views.items()):
        h = hook_route(fn_name)
        h['rule'] = rule
        hooks.append(h)
        handlers += [hd for _, hd in h['dispatch']]
    handler_job, repo_events = handler_tables(handlers)

    src = ('/- GENERATED by harness/tables/http.py from bert_e/server/api/*.py, bert_e/server/auth.py,\n'
           '   bert_e/server/webhook.py and the url_map of a Flask app built by setup_server — do not edit.\n'
           '   Regenerated from the current /repo on every check run. -/\n'
           'import BertE.Model.Http\n'
           'namespace BertE.Gen.Http\nopen BertE.Http\n\n')
    src += '/-- the classes of `bert_e.server.api.ENDPOINTS` -/\n'
    src += 'def endpoints : List Endpoint := ' + llist(
        '{ cls := %s, rule := %s, method := %s, admin := %s, job := %s,\n      checks := [%s] }' % (
            lstr(c), lstr(r), lstr(m), lbool(a), lopt(j, lstr), ', '.join(lcheck(x) for x in ch))
        for c, r, m, a, j, ch in endpoints) + '\n\n'
    src += '/-- the classes of `bert_e.server.api.FORMS` -/\n'
    src += 'def forms : List Form := ' + llist(
        '{ cls := %s, rule := %s, method := %s, admin := %s, endpoint := %s,\n      fields := [%s] }' % (
            lstr(c), lstr(r), lstr(m), lbool(a), lstr(e), ', '.join(
                '{ name := %s, type := %s, validators := [%s] }' % (lstr(n), lstr(t), ', '.join(vs))
                for n, t, vs in fs))
        for c, r, m, a, e, fs in forms) + '\n\n'
    src += '/-- every rule of the url_map, with the decorators found around its view (outermost first) -/\n'
    src += 'def routes : List Route := ' + llist(
        '{ rule := %s, methods := [%s], params := [%s], wrappers := [%s],\n      viewModule := %s, viewName := %s }' % (
            lstr(r), ', '.join(lstr(m) for m in ms), ', '.join('(%s, %s)' % (lstr(c), lstr(n)) for c, n in ps),
            ', '.join(ws), lstr(mod), lstr(name))
        for r, ms, ps, ws, mod, name in routes) + '\n\n'
    src += '/-- status sent by the refusal helpers of auth.py -/\n'
    src += 'def status : List (String × Nat) := [%s]\n\n' % ', '.join('(%s, %d)' % (lstr(k), v) for k, v in status)
    src += '/-- keyword arguments of `self.job(...)` in `APIEndpoint.view` -/\n'
    src += 'def jobCall : List (String × String) := [%s]\n\n' % ', '.join(
        '(%s, %s)' % (lstr(k), lstr(v)) for k, v in jc)
    src += '/-- the steps of `APIEndpoint.view` in source order -/\n'
    src += 'def viewFlow : List String := ' + llist(lstr(s) for s in vf) + '\n\n'
    for name, key in (('requiresAuthFlow', 'requires_auth'), ('requiresBasicAuthFlow', 'requires_basic_auth'),
                      ('checkBasicAuth', 'check_basic_auth')):
        src += '/-- `%s`: (test or statement, helper that answers) in source order -/\n' % key
        src += 'def %s : List (String × String) := [%s]\n\n' % (name, ', '.join(
            '(%s, %s)' % (lstr(a), lstr(b)) for a, b in flow[key]))
    src += '/-- the webhook views -/\n'
    src += 'def hooks : List HookRoute := ' + llist(
        '{ rule := %s, hostGuard := %s, splitEvent := %s,\n      identity := [%s],\n      dispatch := [%s],\n'
        '      refused := %d, ignored := %d, accepted := %d }' % (
            lstr(h['rule']), lopt(h['hostGuard'], lstr), lbool(h['splitEvent']),
            ', '.join('(%s, %s)' % (lstr(a), lstr(b)) for a, b in h['identity']),
            ', '.join('(%s, %s)' % (lstr(a), lstr(b)) for a, b in h['dispatch']),
            h['refused'], h['ignored'], h['accepted'])
        for h in hooks) + '\n\n'
    src += '/-- `handle_bitbucket_repo_event`: `if event in [...]` -/\n'
    src += 'def repoEvents : List String := [%s]\n\n' % ', '.join(lstr(e) for e in repo_events)
    src += '/-- the job class each webhook handler returns -/\n'
    src += 'def handlerJob : List (String × String) := [%s]\n\n' % ', '.join(
        '(%s, %s)' % (lstr(a), lstr(b)) for a, b in handler_job)
    src += ('def tbl : Tbl :=\n  { endpoints := endpoints, forms := forms, routes := routes, status := status,\n'
            '    jobCall := jobCall, hooks := hooks, repoEvents := repoEvents, handlerJob := handlerJob }\n')
    src += footer('Http')
    summary = {
        'endpoints': [{'cls': c, 'rule': r, 'method': m, 'admin': a, 'job': j, 'checks': ch}
                      for c, r, m, a, j, ch in endpoints],
        'forms': [{'cls': c, 'rule': r, 'method': m, 'admin': a, 'endpoint': e, 'fields': fs}
                  for c, r, m, a, e, fs in forms],
        'routes': [{'rule': r, 'methods': ms, 'params': ps, 'wrappers': ws, 'module': mod, 'view': name}
                   for r, ms, ps, ws, mod, name in routes],
        'status': dict(status), 'jobCall': jc,
        'hooks': hooks, 'repoEvents': repo_events, 'handlerJob': handler_job,
    }
    return 'Http', src, summary


TABLES = {
    'Http': table_http,
}
