"""Table for C12: the pre-clone part of the pull-request handler, read from the AST of
bert_e/workflow/gitwaterflow/__init__.py.

  * `handle_pull_request`: the redirect test (author is the robot), the exception base class whose
    instances are posted on the pull request;
  * `_handle_pull_request`: the ordered list of the calls made by its body. Before `clone_git_repo`
    only simple statements (expression / assignment) are understood; after it every call is listed
    in source order, whatever the nesting;
  * `early_checks`: the tuple of handled statuses and the ordered (test, raised class) list;
  * `send_greetings`: the test of its early return and the class it posts;
  * `check_dependencies`: the ordered (test, outcome) list, the statuses counted as merged, the
    pull-request lookup expression.

The EFFECT classification (what a callee can do to the repository / to the git host) is
HAND-WRITTEN below (`EFFECTS`), by reading the callees: it is not derived from the source. A callee
that is not classified makes the extraction fail (the model does not know what it does)."""
import ast
import importlib

from ..extract_tables import (ExtractError, func_ast, header, footer, lstr, llist)

# hand-written: what each function called by `_handle_pull_request` can do
#   none     : computes / raises only
#   comment  : may post a comment (or a bot status) on the pull request, nothing else
#   command  : `handle_comments`: comments only, except that a COMMAND comment runs its handler (commands.py)
#   read     : reads the local clone / the git host, writes nothing remote
#   refs     : can create, move or delete remote branches
#   prs      : can create / decline pull requests on the git host
EFFECTS = {
    'BranchCascade': 'none', 'branch_factory': 'none', 'list': 'none', 'any': 'none', 'confirm': 'none',
    'early_checks': 'none', 'send_greetings': 'comment', 'handle_comments': 'command',
    'check_dependencies': 'none',
    'clone_git_repo': 'read',
    'handle_declined_pull_request': 'refs',
    'dst.includes_commit': 'read', 'src.exists': 'read', 'messages.NothingToDo': 'none',
    'check_commit_diff': 'read', 'build_branch_cascade': 'read', 'job.git.cascade.validate': 'none',
    'check_branch_compatibility': 'none', 'jira_checks': 'read', 'check_integration_branches': 'read',
    'create_integration_branches': 'refs', 'queueing.already_in_queue': 'read',
    'queueing.handle_merge_queues': 'refs', 'QueuesJob': 'none', 'check_in_sync': 'read',
    'update_integration_branches': 'refs', 'push': 'refs', 'wbranches.index': 'none',
    'branch.reset': 'read', 'create_integration_pull_requests': 'prs', 'check_pull_request_skew': 'read',
    'notify_integration_data': 'comment', 'check_approvals': 'none', 'check_build_status': 'read',
    'queueing.build_queue_collection': 'read', 'queueing.is_needed': 'read', 'queues.validate': 'none',
    'messages.QueueOutOfOrder': 'none', 'queueing.add_to_queue': 'refs', 'messages.Queued': 'none',
    'queues.delete': 'refs', 'merge_integration_branches': 'refs', 'job.bert_e.add_merged_pr': 'none',
    'messages.SuccessMessage': 'none',
}
IGNORED_PREFIXES = ('LOG.',)


def _callname(f):
    try:
        return ast.unparse(f)
    except Exception:
        return '?'


def _calls_of(node):
    """call names inside a statement, in source order (outermost call after its arguments' calls is
    irrelevant here: sorted by position)"""
    found = [n for n in ast.walk(node) if isinstance(n, ast.Call)]
    found.sort(key=lambda n: (n.lineno, n.col_offset))
    out = []
    for n in found:
        name = _callname(n.func)
        if name.startswith(IGNORED_PREFIXES):
            continue
        out.append(name)
    return out


def _raised(stmts):
    """class raised by a statement list made of a single `raise X(...)`"""
    if len(stmts) == 1 and isinstance(stmts[0], ast.Raise) and stmts[0].exc is not None:
        exc = stmts[0].exc
        f = exc.func if isinstance(exc, ast.Call) else exc
        return _callname(f).split('.')[-1]
    if len(stmts) == 1 and isinstance(stmts[0], ast.Return) and stmts[0].value is None:
        return 'return'
    return None


def _body(fn):
    return [st for st in fn.body
            if not (isinstance(st, ast.Expr) and isinstance(st.value, ast.Constant))]


def handler_calls(gwf):
    fn = func_ast(gwf, '_handle_pull_request')
    calls = []
    cloned = False
    for st in _body(fn):
        if not cloned and not isinstance(st, (ast.Expr, ast.Assign)):
            raise ExtractError('_handle_pull_request: a %s statement precedes clone_git_repo (line %d); '
                               'the model only knows plain calls there' % (type(st).__name__, st.lineno))
        cs = _calls_of(st)
        calls += cs
        if 'clone_git_repo' in cs:
            cloned = True
    if not cloned:
        raise ExtractError('_handle_pull_request: no call of clone_git_repo')
    for c in calls:
        if c not in EFFECTS:
            raise ExtractError('_handle_pull_request calls %s, which the hand-written effect classification '
                               'does not know' % c)
    return calls


def wrapper_facts(gwf):
    fn = func_ast(gwf, 'handle_pull_request')
    body = _body(fn)
    if len(body) != 2 or not isinstance(body[0], ast.If) or not isinstance(body[1], ast.Try):
        raise ExtractError('handle_pull_request: expected `if <robot>: return ...` then `try:`')
    test = ast.unparse(body[0].test)
    redirect = None
    if len(body[0].body) == 1 and isinstance(body[0].body[0], ast.Return) \
            and isinstance(body[0].body[0].value, ast.Call):
        redirect = _callname(body[0].body[0].value.func)
    tr = body[1]
    inner = [_callname(s.value.func) for s in tr.body
             if isinstance(s, ast.Expr) and isinstance(s.value, ast.Call)]
    if inner != ['_handle_pull_request'] or len(tr.body) != 1 or tr.orelse or tr.finalbody:
        raise ExtractError('handle_pull_request: the try block is not the single call of _handle_pull_request')
    if len(tr.handlers) != 1:
        raise ExtractError('handle_pull_request: expected one except clause')
    h = tr.handlers[0]
    base = ast.unparse(h.type).split('.')[-1] if h.type is not None else 'BaseException'
    hcalls = _calls_of(ast.Module(body=h.body, type_ignores=[]))
    reraises = any(isinstance(s, ast.Raise) and s.exc is None for s in h.body)
    return test, redirect, base, hcalls, reraises


def early_checks_facts(gwf):
    fn = func_ast(gwf, 'early_checks')
    checks = []
    statuses = None
    for st in _body(fn):
        if isinstance(st, ast.Assign):
            continue
        if not isinstance(st, ast.If) or st.orelse:
            raise ExtractError('early_checks: unexpected statement at line %d' % st.lineno)
        cls = _raised(st.body)
        if cls is None:
            raise ExtractError('early_checks: the body of the test at line %d is not a single raise' % st.lineno)
        t = st.test
        if isinstance(t, ast.Compare) and len(t.ops) == 1 and isinstance(t.ops[0], ast.NotIn) \
                and ast.unparse(t.left) == 'status' and isinstance(t.comparators[0], (ast.Tuple, ast.List, ast.Set)):
            if statuses is not None:
                raise ExtractError('early_checks: two status tests')
            statuses = [ast.literal_eval(e) for e in t.comparators[0].elts]
            checks.append(('status not in HANDLED', cls))
        else:
            checks.append((ast.unparse(t), cls))
    if statuses is None:
        raise ExtractError('early_checks: `status not in (...)` not found')
    assigns = [ast.unparse(st) for st in _body(fn) if isinstance(st, ast.Assign)]
    return statuses, checks, assigns


def greetings_facts(gwf):
    fn = func_ast(gwf, 'send_greetings')
    test = None
    posted = []
    for st in _body(fn):
        if isinstance(st, ast.If):
            if _raised(st.body) != 'return' or st.orelse or test is not None:
                raise ExtractError('send_greetings: unexpected test at line %d' % st.lineno)
            test = ast.unparse(st.test)
        elif isinstance(st, ast.Assign) and isinstance(st.value, ast.Call):
            name = _callname(st.value.func)
            if name.startswith('messages.'):
                posted.append((ast.unparse(st.targets[0]), name.split('.')[-1]))
        elif isinstance(st, ast.Expr) and isinstance(st.value, ast.Call):
            name = _callname(st.value.func)
            if name == 'notify_user':
                arg = ast.unparse(st.value.args[-1])
                cls = dict(posted).get(arg)
                if cls is None:
                    raise ExtractError('send_greetings: notify_user posts %s, unknown' % arg)
                posted.append(('notify_user', cls))
            else:
                raise ExtractError('send_greetings: unexpected call of %s' % name)
        elif isinstance(st, ast.Assign):
            continue
        else:
            raise ExtractError('send_greetings: unexpected statement at line %d' % st.lineno)
    notified = [c for k, c in posted if k == 'notify_user']
    if test is None or len(notified) != 1:
        raise ExtractError('send_greetings: expected one early return and one notify_user')
    return test, notified[0]


def dependencies_facts(gwf):
    fn = func_ast(gwf, 'check_dependencies')
    checks = []
    merged = None
    lookup = None
    for st in _body(fn):
        if isinstance(st, ast.If):
            out = _raised(st.body)
            if out is None or st.orelse:
                raise ExtractError('check_dependencies: unexpected test at line %d' % st.lineno)
            checks.append((ast.unparse(st.test), out))
        elif isinstance(st, ast.For):
            if ast.unparse(st.iter) != 'after_prs':
                raise ExtractError('check_dependencies: the loop is not over after_prs')
            for sub in st.body:
                if isinstance(sub, ast.Try):
                    if len(sub.handlers) != 1 or len(sub.body) != 1:
                        raise ExtractError('check_dependencies: unexpected try block')
                    call = sub.body[0].value
                    if not (isinstance(call, ast.Call) and _callname(call.func) == 'prs.append'):
                        raise ExtractError('check_dependencies: the try block does not append to prs')
                    lookup = ast.unparse(call.args[0])
                    h = sub.handlers[0]
                    cls = _raised(h.body)
                    if cls is None:
                        raise ExtractError('check_dependencies: the except clause does not raise')
                    checks.append(('except %s' % (ast.unparse(h.type) if h.type else ''), cls))
                elif isinstance(sub, ast.Assign) and isinstance(sub.value, ast.ListComp):
                    name = ast.unparse(sub.targets[0])
                    comp = sub.value
                    if len(comp.generators) != 1 or ast.unparse(comp.generators[0].iter) != 'prs' \
                            or len(comp.generators[0].ifs) != 1:
                        raise ExtractError('check_dependencies: unexpected comprehension for %s' % name)
                    t = comp.generators[0].ifs[0]
                    if not (isinstance(t, ast.Compare) and ast.unparse(t.left) == 'p.status' and len(t.ops) == 1):
                        raise ExtractError('check_dependencies: %s is not selected on p.status' % name)
                    if isinstance(t.ops[0], ast.Eq):
                        vals = [ast.literal_eval(t.comparators[0])]
                    elif isinstance(t.ops[0], ast.In):
                        vals = [ast.literal_eval(e) for e in t.comparators[0].elts]
                    else:
                        raise ExtractError('check_dependencies: unexpected operator selecting %s' % name)
                    if name == 'merged':
                        merged = vals
                else:
                    raise ExtractError('check_dependencies: unexpected statement in the loop, line %d' % sub.lineno)
        elif isinstance(st, ast.Assign):
            continue
        else:
            raise ExtractError('check_dependencies: unexpected statement at line %d' % st.lineno)
    if merged is None or lookup is None:
        raise ExtractError('check_dependencies: merged list / lookup not found')
    return checks, merged, lookup


def command_handlers_terminal():
    """every registered command handler ends by raising (so `handle_comments` never continues after a
    command): last statement is a `raise`, or a call of `_reset`, whose last statement is a `raise`"""
    gwf = importlib.import_module('bert_e.workflow.gitwaterflow')      # registers the commands
    commands_mod = importlib.import_module('bert_e.workflow.gitwaterflow.commands')
    from bert_e.reactor import Reactor
    gwf.setup({})
    rows = []

    def ends_raising(fn_node, depth=0):
        last = _body(fn_node)[-1]
        if isinstance(last, ast.Raise):
            return True
        if isinstance(last, ast.Expr) and isinstance(last.value, ast.Call) and depth < 2:
            name = _callname(last.value.func)
            try:
                return ends_raising(func_ast(commands_mod, name), depth + 1)
            except ExtractError:
                return False
        return False

    for key, cmd in Reactor.get_commands().items():
        h = cmd.handler
        if h.__module__ != commands_mod.__name__:
            rows.append((key, h.__name__, False))
            continue
        rows.append((key, h.__name__, ends_raising(func_ast(commands_mod, h.__name__))))
    return rows


def table_early():
    gwf = importlib.import_module('bert_e.workflow.gitwaterflow')
    calls = handler_calls(gwf)
    rtest, redirect, base, hcalls, reraises = wrapper_facts(gwf)
    statuses, echecks, eassigns = early_checks_facts(gwf)
    gtest, gclass = greetings_facts(gwf)
    dchecks, merged, lookup = dependencies_facts(gwf)
    cmds = command_handlers_terminal()
    src = header('Early', ['bert_e/workflow/gitwaterflow/__init__.py (handle_pull_request, _handle_pull_request, '
                           'early_checks, send_greetings, check_dependencies)',
                           'bert_e/workflow/gitwaterflow/commands.py (command handlers)',
                           'harness/tables/early.py:EFFECTS (HAND-WRITTEN effect classification)'])
    src += '/-- `handle_pull_request`: test of the redirect to the parent pull request, and the callee -/\n'
    src += 'def redirectTest : String := %s\n' % lstr(rtest)
    src += 'def redirectCall : String := %s\n\n' % lstr(redirect or '')
    src += ('/-- `handle_pull_request`: exceptions of this class are posted on the pull request (calls of the\n'
            '    except clause), then re-raised -/\n')
    src += 'def notifiedBase : String := %s\n' % lstr(base)
    src += 'def notifyCalls : List String := [%s]\n' % ', '.join(lstr(c) for c in hcalls)
    src += 'def notifyReraises : Bool := %s\n\n' % ('true' if reraises else 'false')
    src += '/-- every call made by the body of `_handle_pull_request`, in source order (logging excluded) -/\n'
    src += 'def calls : List String := ' + llist((lstr(c) for c in calls), per_line=4) + '\n\n'
    src += ('/-- HAND-WRITTEN (harness/tables/early.py): what each callee can do: none | comment | command |\n'
            '    read | refs | prs -/\n')
    src += 'def effects : List (String × String) := ' + llist(
        ('(%s, %s)' % (lstr(k), lstr(EFFECTS[k])) for k in sorted(set(calls))), per_line=3) + '\n\n'
    src += '/-- `early_checks`: statuses that are handled, the assignments, the (test, raised class) list in order -/\n'
    src += 'def handledStatuses : List String := [%s]\n' % ', '.join(lstr(s) for s in statuses)
    src += 'def earlyAssigns : List String := [%s]\n' % ', '.join(lstr(s) for s in eassigns)
    src += 'def earlyChecks : List (String × String) := ' + llist(
        '(%s, %s)' % (lstr(t), lstr(c)) for t, c in echecks) + '\n\n'
    src += '/-- `send_greetings`: test of the early return; class posted otherwise -/\n'
    src += 'def greetingTest : String := %s\n' % lstr(gtest)
    src += 'def greetingClass : String := %s\n\n' % lstr(gclass)
    src += '/-- `check_dependencies`: (test, outcome) in order; statuses counted as merged; the lookup -/\n'
    src += 'def depChecks : List (String × String) := ' + llist(
        '(%s, %s)' % (lstr(t), lstr(c)) for t, c in dchecks) + '\n'
    src += 'def mergedStatuses : List String := [%s]\n' % ', '.join(lstr(s) for s in merged)
    src += 'def depLookup : String := %s\n\n' % lstr(lookup)
    src += '/-- registered commands: (keyword, handler, the handler always ends by raising) -/\n'
    src += 'def commandHandlers : List (String × String × Bool) := ' + llist(
        '(%s, %s, %s)' % (lstr(k), lstr(h), 'true' if t else 'false') for k, h, t in cmds) + '\n'
    src += footer('Early')
    return 'Early', src, {'calls': calls, 'handledStatuses': statuses, 'earlyChecks': echecks,
                          'greeting': [gtest, gclass], 'depChecks': dchecks, 'mergedStatuses': merged,
                          'redirect': [rtest, redirect], 'notifiedBase': base,
                          'commands': [(k, t) for k, _, t in cmds]}


TABLES = {
    'Early': table_early,
}
