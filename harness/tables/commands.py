"""Table for C10: which message classes each registered command handler can raise (AST walk of
bert_e/workflow/gitwaterflow/commands.py, following calls to functions of the same module), and the
classes that are information messages (subclasses of `InformationException`)."""
import ast
import importlib
import inspect

from ..extract_tables import ExtractError, header, footer, lstr, llist


def _module_functions(mod):
    src_file = inspect.getsourcefile(mod)
    with open(src_file) as fh:
        tree = ast.parse(fh.read(), src_file)
    return {n.name: n for n in tree.body if isinstance(n, ast.FunctionDef)}


def _raised_by(fname, funcs, mod, exc, seen=None):
    """message classes instantiated or raised in `fname` and in the module functions it calls"""
    seen = set() if seen is None else seen
    if fname in seen:
        return set()
    seen.add(fname)
    node = funcs[fname]
    out = set()
    local_classes = {}         # local variable -> classes it may hold
    for sub in ast.walk(node):
        if isinstance(sub, ast.Call) and isinstance(sub.func, ast.Name):
            name = sub.func.id
            target = getattr(mod, name, None)
            if inspect.isclass(target) and issubclass(target, exc.BertE_Exception):
                out.add(target.__name__)
            elif name in funcs:
                out |= _raised_by(name, funcs, mod, exc, seen)
        if isinstance(sub, ast.Assign) and isinstance(sub.value, ast.Call) and isinstance(sub.value.func, ast.Name):
            target = getattr(mod, sub.value.func.id, None)
            if inspect.isclass(target) and issubclass(target, exc.BertE_Exception):
                for t in sub.targets:
                    if isinstance(t, ast.Name):
                        local_classes.setdefault(t.id, set()).add(target.__name__)
    for sub in ast.walk(node):
        if not isinstance(sub, ast.Raise) or sub.exc is None:
            continue
        e = sub.exc
        if isinstance(e, ast.Call) and isinstance(e.func, ast.Name):
            target = getattr(mod, e.func.id, None)
            if not (inspect.isclass(target) and issubclass(target, BaseException)):
                raise ExtractError('%s: raise of %s is not understood' % (fname, ast.unparse(e.func)))
            if not issubclass(target, exc.BertE_Exception):
                raise ExtractError('%s raises %s, which is not a Bert-E message' % (fname, target.__name__))
        elif isinstance(e, ast.Name):
            if e.id not in local_classes:
                raise ExtractError('%s: `raise %s`: the variable is not assigned a message in the function' % (fname, e.id))
        else:
            raise ExtractError('%s: raise of %s is not understood' % (fname, ast.unparse(e)))
    return out


def command_raises():
    importlib.import_module('bert_e.workflow.gitwaterflow')
    mod = importlib.import_module('bert_e.workflow.gitwaterflow.commands')
    exc = importlib.import_module('bert_e.exceptions')
    from bert_e.reactor import Reactor
    funcs = _module_functions(mod)
    rows = []
    for key, cmd in Reactor.get_commands().items():
        h = cmd.handler
        h = getattr(h, '__wrapped__', h)
        name = getattr(h, '__name__', None)
        if getattr(h, '__module__', None) != mod.__name__ or name not in funcs:
            raise ExtractError('command %s: handler %r is not a function of commands.py' % (key, h))
        classes = sorted(_raised_by(name, funcs, mod, exc))
        if not classes:
            raise ExtractError('command %s: its handler raises no message (it would never be answered)' % key)
        rows.append((key, classes))
    return rows


def table_commands():
    exc = importlib.import_module('bert_e.exceptions')
    rows = command_raises()
    info = sorted(n for n, c in vars(exc).items()
                  if inspect.isclass(c) and issubclass(c, exc.InformationException))
    src = header('Commands', ['bert_e/workflow/gitwaterflow/commands.py (AST of the command handlers)',
                              'bert_e/exceptions.py (subclasses of InformationException)'])
    src += '/-- every registered command with the message classes its handler can raise -/\n'
    src += 'def raises : List (String × List String) := ' + llist(
        '(%s, [%s])' % (lstr(k), ', '.join(lstr(c) for c in cs)) for k, cs in rows) + '\n\n'
    src += '/-- the information messages: `InformationException` and its subclasses -/\n'
    src += 'def information : List String := [%s]\n' % ', '.join(lstr(n) for n in info)
    src += footer('Commands')
    return 'Commands', src, {'commands': {k: cs for k, cs in rows}, 'information': info}


TABLES = {
    'Commands': table_commands,
}
