"""Tables for C17 (CI aggregation and the status cache): the conclusion ranking dict, the ignored
event, the priority chain of `AggregatedWorkflowRuns.state`, the raw-state translation of GitHub
statuses, the key of the workflow-run status and the default size of the LRU cache."""
import ast
import importlib
import inspect

from ..extract_tables import ExtractError, func_ast, header, footer, lstr, lopt


def _const(node, what):
    if not isinstance(node, ast.Constant) or not (node.value is None or isinstance(node.value, (str, int))):
        raise ExtractError('%s: literal expected, found %s' % (what, ast.dump(node)))
    return node.value


def _dict_literal(fn, name, what):
    for node in ast.walk(fn):
        if isinstance(node, ast.Assign) and len(node.targets) == 1 \
                and getattr(node.targets[0], 'id', None) == name and isinstance(node.value, ast.Dict):
            if any(k is None for k in node.value.keys):
                raise ExtractError('%s: `%s` uses ** unpacking' % (what, name))
            items = [(_const(k, what), _const(v, what)) for k, v in zip(node.value.keys, node.value.values)]
            if len({k for k, _ in items}) != len(items):      # Python keeps the last one, the model the first
                raise ExtractError('%s: `%s` has a duplicated key' % (what, name))
            return items
    raise ExtractError('%s: dict literal `%s` not found' % (what, name))


def _returned_literal(cls_module, qualname):
    fn = func_ast(cls_module, qualname)
    rets = [n for n in ast.walk(fn) if isinstance(n, ast.Return)]
    if len(rets) != 1:
        raise ExtractError('%s: one return expected' % qualname)
    return _const(rets[0].value, qualname)


def table_ci():
    gh = importlib.import_module('bert_e.git_host.github')
    # ---- conclusion_ranking and the ignored event (remove_unwanted_workflows)
    fn = func_ast(gh, 'AggregatedWorkflowRuns.remove_unwanted_workflows')
    ranking = _dict_literal(fn, 'conclusion_ranking', 'remove_unwanted_workflows')
    for c, r in ranking:
        if not isinstance(r, int) or isinstance(r, bool) or r < 0 or not (c is None or isinstance(c, str)):
            raise ExtractError('remove_unwanted_workflows: unexpected ranking entry %r: %r' % (c, r))
    ignored = None
    for node in ast.walk(fn):
        if isinstance(node, ast.Lambda) and isinstance(node.body, ast.Compare) and len(node.body.ops) == 1:
            cmp_ = node.body
            left = cmp_.left
            if not (isinstance(left, ast.Subscript) and _const(left.slice, 'filter') == 'event'):
                raise ExtractError('remove_unwanted_workflows: filter on something else than event')
            if isinstance(cmp_.ops[0], ast.NotEq):
                ignored = [_const(cmp_.comparators[0], 'filter')]
            elif isinstance(cmp_.ops[0], ast.NotIn) and isinstance(cmp_.comparators[0], (ast.Tuple, ast.List)):
                ignored = [_const(e, 'filter') for e in cmp_.comparators[0].elts]
            else:
                raise ExtractError('remove_unwanted_workflows: unexpected filter %s' % ast.unparse(cmp_))
    if ignored is None:
        raise ExtractError('remove_unwanted_workflows: event filter not found')
    # ---- the priority chain of `state`
    sfn = func_ast(gh, 'AggregatedWorkflowRuns.state')
    chain_node = None
    for st in sfn.body:
        if isinstance(st, ast.If):
            chain_node = st
    if chain_node is None:
        raise ExtractError('AggregatedWorkflowRuns.state: if-chain not found')

    def ret_of(body):
        if len(body) != 1 or not isinstance(body[0], ast.Return):
            raise ExtractError('AggregatedWorkflowRuns.state: branch is not a single return')
        return _const(body[0].value, 'state')

    chain, node = [], chain_node
    while True:
        t = node.test
        if not (isinstance(t, ast.Compare) and len(t.ops) == 1 and isinstance(t.ops[0], ast.In)
                and getattr(t.comparators[0], 'id', None) == 'status'):
            raise ExtractError('AggregatedWorkflowRuns.state: unexpected test %s' % ast.unparse(t))
        chain.append((_const(t.left, 'state'), ret_of(node.body)))
        if len(node.orelse) == 1 and isinstance(node.orelse[0], ast.If):
            node = node.orelse[0]
        else:
            chain_else = ret_of(node.orelse)
            break
    # ---- GitHub Status.state translation, key of the workflow-run status
    trans = _dict_literal(func_ast(gh, 'Status.state'), 'trans', 'Status.state')
    actions_key = _returned_literal(gh, 'AggregatedWorkflowRuns.key')
    # ---- LRU size: BUILD_STATUS_CACHE = defaultdict(LRUCache), LRUCache(size=<default>)
    cache = importlib.import_module('bert_e.git_host.cache')
    lru = importlib.import_module('bert_e.lib.lru_cache')
    with open(inspect.getsourcefile(cache)) as fh:
        ctree = ast.parse(fh.read())
    factory = None
    for node in ast.walk(ctree):
        if isinstance(node, ast.Assign) and getattr(node.targets[0], 'id', None) == 'BUILD_STATUS_CACHE':
            call = node.value
            if isinstance(call, ast.Call) and getattr(call.func, 'id', None) == 'defaultdict' \
                    and len(call.args) == 1 and not call.keywords:
                factory = ast.unparse(call.args[0])
    if factory != 'LRUCache' or cache.LRUCache is not lru.LRUCache:
        raise ExtractError('cache.py: BUILD_STATUS_CACHE is not defaultdict(LRUCache)')
    size = inspect.signature(lru.LRUCache.__init__).parameters['size'].default
    if not isinstance(size, int) or isinstance(size, bool) or size < 0:
        raise ExtractError('LRUCache.__init__: default size is not a natural number')

    ostr = lambda v: lopt(v, lstr)  # noqa: E731
    src = header('CI', ['bert_e/git_host/github/__init__.py:AggregatedWorkflowRuns, Status.state',
                        'bert_e/git_host/cache.py', 'bert_e/lib/lru_cache.py'])
    src += '/-- `conclusion_ranking` of `remove_unwanted_workflows` (`none` is Python `None`) -/\n'
    src += 'def conclusionRank : List (Option String × Nat) := [%s]\n\n' % ', '.join(
        '(%s, %d)' % (ostr(c), r) for c, r in ranking)
    src += '/-- events filtered out by `remove_unwanted_workflows` -/\n'
    src += 'def ignoredEvents : List String := [%s]\n\n' % ', '.join(lstr(e) for e in ignored)
    src += "/-- the `if 'X' in status: return 'Y'` chain of `AggregatedWorkflowRuns.state` -/\n"
    src += 'def stateChain : List (String × String) := [%s]\n\n' % ', '.join(
        '(%s, %s)' % (lstr(a), lstr(b)) for a, b in chain)
    src += '/-- its final `else: return` -/\n'
    src += 'def stateChainElse : String := %s\n\n' % lstr(chain_else)
    src += '/-- `trans` of GitHub `Status.state`: raw state of the host -> Bert-E state -/\n'
    src += 'def githubStateMap : List (Option String × String) := [%s]\n\n' % ', '.join(
        '(%s, %s)' % (ostr(a), lstr(b)) for a, b in trans)
    src += '/-- `AggregatedWorkflowRuns.key` -/\n'
    src += 'def actionsKey : String := %s\n\n' % lstr(actions_key)
    src += '/-- size of each `LRUCache` of `BUILD_STATUS_CACHE = defaultdict(LRUCache)` -/\n'
    src += 'def lruSize : Nat := %d\n' % size
    src += footer('CI')
    return 'CI', src, {'conclusionRank': ranking, 'ignoredEvents': ignored, 'stateChain': chain,
                       'stateChainElse': chain_else, 'githubStateMap': trans,
                       'actionsKey': actions_key, 'lruSize': size}


TABLES = {'CI': table_ci}
